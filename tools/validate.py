#!/venv/bin/python
"""Validate MANIFEST.json and every evidence file against the given schemas."""
import json, sys, os, glob
import jsonschema
ROOT = os.path.dirname(os.path.dirname(os.path.abspath(__file__)))
ms = json.load(open("/root/.vp/MANIFEST.schema.json"))
es = json.load(open("/root/.vp/EVIDENCE.schema.json"))
m = json.load(open(os.path.join(ROOT, "MANIFEST.json")))
jsonschema.validate(m, ms)
ok = True
claimed = {c["property_id"] for c in m["checks"]}
na = {c["property_id"] for c in m.get("not_applicable", [])}
props = {json.loads(l)["id"] for l in open(os.path.join(ROOT, "properties.jsonl")) if l.strip()}
if claimed | na != props or claimed & na:
    print("manifest property coverage mismatch", props - claimed - na, claimed & na); ok = False
for c in m["checks"]:
    f = c["evidence_file"]
    if not os.path.exists(f):
        print("missing evidence", f); ok = False; continue
    try:
        ev = json.load(open(f))
        jsonschema.validate(ev, es)
        if ev["level"] != c["level_claimed"]["category"]:
            print("level mismatch", f); ok = False
    except Exception as e:
        print("invalid evidence", f, str(e)[:300]); ok = False
print("manifest ok; evidence", "ok" if ok else "PROBLEMS", f"claimed={len(claimed)} not_claimed={len(na)}")
sys.exit(0 if ok else 1)

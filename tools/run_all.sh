#!/bin/bash
# usage: tools/run_all.sh <tier> [ids...]  -> runs checks sequentially, prints one summary line each
tier=${1:-quick}; shift
ids=${@:-$(ls checks | grep -E '^c[0-9]+\.py$' | sed 's/\.py//' | tr a-z A-Z)}
for id in $ids; do
  s=$(date +%s)
  out=$(/venv/bin/python run.py $id --tier $tier 2>&1)
  rc=$?
  e=$(date +%s)
  echo "== $id rc=$rc wall=$((e-s))s"
  echo "$out" | grep -E "^(VIOLATION|KNOWN-FINDING|INCONCLUSIVE|  key=)" | cut -c1-220
done

#!/venv/bin/python
"""Regenerate MANIFEST.json from the check modules' own metadata constants.

Every ``checks/cXX.py`` carries PID, CATEGORY (default exploration), LEVEL_TEXT,
LEVEL_NOTE, TECHNIQUE, ENGINE, DESIGN_REF.  Properties without a check module
are listed under not_applicable with the reason in NOT_CLAIMED below.
"""

from __future__ import annotations

import importlib
import json
import os
import sys

ROOT = os.path.dirname(os.path.dirname(os.path.abspath(__file__)))
sys.path.insert(0, ROOT)

NOT_CLAIMED: dict[str, str] = {}

ENGINES = [
    {
        "name": "E1-svcgen-rig",
        "path": "lib/svcgen.py, lib/rig.py",
        "serves_properties": [],
        "kind_free_text": "generated services + scripted implementation run over every transport; client-boundary traces and a server-side invocation log",
    },
    {
        "name": "E2-raw-drivers",
        "path": "lib/rawipc.py, lib/httpdrv.py",
        "serves_properties": [],
        "kind_free_text": "hand-built Arrow IPC requests over sockets/pipes and raw WSGI requests; boundary histories",
    },
    {
        "name": "E3-scheduler",
        "path": "lib/sched.py",
        "serves_properties": [],
        "kind_free_text": "deterministic cooperative scheduler (baton passing) with sys.monitoring yield points, scheduler-aware shim locks and a virtual clock; bounded-preemption DFS + PCT",
    },
    {
        "name": "E4-injection",
        "path": "lib/inject.py, lib/origin.py",
        "serves_properties": [],
        "kind_free_text": "sys.monitoring delay injection for free-running threads/processes; scripted faulty HTTP origin",
    },
    {
        "name": "E5-models",
        "path": "lib/models/",
        "serves_properties": [],
        "kind_free_text": "small reference models written from the spec documents",
    },
    {
        "name": "E6-evidence",
        "path": "lib/evidence.py, lib/shard.py, run.py",
        "serves_properties": [],
        "kind_free_text": "three-valued verdicts, evidence files, replay witnesses, known findings, subprocess sharding",
    },
]


def main() -> int:
    props = []
    with open(os.path.join(ROOT, "properties.jsonl")) as fh:
        for line in fh:
            if line.strip():
                props.append(json.loads(line))
    checks = []
    not_app = []
    engine_use: dict[str, list[str]] = {}
    for p in props:
        pid = p["id"]
        path = os.path.join(ROOT, "checks", f"{pid.lower()}.py")
        if not os.path.exists(path):
            not_app.append({"property_id": pid, "reason": NOT_CLAIMED.get(pid, "no check built yet in this framework (work in progress); not claimed")})
            continue
        mod = importlib.import_module(f"checks.{pid.lower()}")
        if getattr(mod, "NOT_CLAIMED", None):
            not_app.append({"property_id": pid, "reason": mod.NOT_CLAIMED})
            continue
        engine = getattr(mod, "ENGINE", "E6-evidence")
        for e in engine.split("+"):
            engine_use.setdefault(e.strip(), []).append(pid)
        entry = {
            "property_id": pid,
            "quick_cmd": f"/venv/bin/python run.py {pid} --tier quick",
            "thorough_cmd": f"/venv/bin/python run.py {pid} --tier thorough",
            "evidence_file": f"/verif/evidence/{pid}.json",
            "replay_cmd_template": f"/venv/bin/python run.py {pid} --replay {{path}}",
            "engine": engine,
            "level_claimed": {
                "category": getattr(mod, "CATEGORY", "exploration"),
                "text": getattr(mod, "LEVEL_TEXT", "runtime monitoring over generated workloads"),
                "design_ref": getattr(mod, "DESIGN_REF", f"DESIGN.md section 4 {pid}"),
            },
            "level_note": getattr(mod, "LEVEL_NOTE", "pyarrow/falcon/zstandard and the CPython runtime are trusted"),
            "technique": getattr(mod, "TECHNIQUE", "runtime monitoring"),
        }
        checks.append(entry)
    engines = []
    for e in ENGINES:
        e = dict(e)
        e["serves_properties"] = sorted(set(sum((v for k, v in engine_use.items() if k.startswith(e["name"].split("-")[0])), [])))
        engines.append(e)
    manifest = {
        "version": 1,
        "setup_cmd": "/venv/bin/python run.py setup",
        "hooks": {
            "guard": "VGI_RPC_VERIF",
            "enable": "no build step: checks import /repo's working tree (editable install) with VGI_RPC_VERIF=1 in the environment; no source hooks are currently needed (instrumentation is applied from the harness via sys.monitoring, module-namespace rebinding and wrappers)",
            "baseline_off_cmd": "cd /repo && env -u VGI_RPC_VERIF /venv/bin/python -m pytest -ra -q -p no:cacheprovider --timeout=900 --continue-on-collection-errors",
            "source_commits": [],
            "add_only": True,
        },
        "engines": engines,
        "checks": checks,
        "not_applicable": not_app,
        "notes": "Technique family: runtime monitoring. Exit codes: 0 held, 1 violation (VIOLATION line), 2 inconclusive. Known findings live in known_findings.json (read-only at run time).",
    }
    with open(os.path.join(ROOT, "MANIFEST.json"), "w") as fh:
        json.dump(manifest, fh, indent=1)
        fh.write("\n")
    print(f"checks={len(checks)} not_claimed={len(not_app)}")
    return 0


if __name__ == "__main__":
    sys.exit(main())

#!/bin/bash
# usage: tools/try_revert.sh <fix-commit> <tier> <CHECK...>
# Reverts one "fix:" commit of /repo on a scratch copy (never in /repo) and runs the named checks against it.
# The checks are expected to report the key(s) the fix removed. Prints one summary line per check.
c=$1; tier=$2; shift 2
wt=/tmp/verif-revert-$c
git -C /repo worktree remove --force $wt >/dev/null 2>&1
git -C /repo worktree add -q --detach $wt HEAD || exit 3
trap 'git -C /repo worktree remove --force '$wt' >/dev/null 2>&1' EXIT
if ! git -C $wt revert --no-commit $c >/dev/null 2>&1; then echo "$c: REVERT CONFLICTS (later commits build on it)"; exit 4; fi
PYTHONPATH=$wt /venv/bin/python -c "import vgi_rpc, vgi_rpc.http" || { echo "$c: IMPORT BROKEN"; exit 3; }
cd /verif
for chk in "$@"; do
  ev=$(mktemp -d /tmp/verif-revert-ev.XXXX)
  VERIF_REPO=$wt VERIF_EVIDENCE_DIR=$ev VERIF_REPLAY_DIR=$ev /venv/bin/python run.py $chk --tier $tier > $ev/out.txt 2>&1
  rc=$?
  keys=$(grep -E "^  key=" $ev/out.txt | sed -E 's/^  key=([^ ]*):? .*/\1/' | sort -u | head -6 | tr '\n' ' ')
  echo "revert $c -> $chk rc=$rc keys: $keys"
  rm -rf $ev
done

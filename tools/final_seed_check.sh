#!/bin/bash
# Applies every stored seeded change to /repo itself (git -C /repo apply), runs the checks named in its meta.json
# (quick tier, evidence and replays to a scratch directory), and undoes it straight afterwards
# (git -C /repo apply -R; git -C /repo checkout -- .).  Nothing is ever committed to /repo.
# Output: docs/SEED_RESULTS.txt - one line per (seed, check): rc and the keys printed.
cd /verif
[ -n "$(git -C /repo status --porcelain)" ] && { echo "/repo working tree is not clean"; exit 3; }
out=${SEED_OUT:-docs/SEED_RESULTS.txt}; : > $out.tmp
for d in ${SEEDS:-seeded/*/}; do
  id=$(basename $d)
  checks=$(/venv/bin/python -c "import json;print(' '.join(json.load(open('$d/meta.json')).get('caught_by_checks',[])))")
  if ! git -C /repo apply $PWD/$d/patch.diff 2>/dev/null; then echo "$id: PATCH DOES NOT APPLY to /repo HEAD" >> $out.tmp; continue; fi
  for chk in $checks; do
    ev=$(mktemp -d /tmp/verif-seedfinal.XXXX)
    VERIF_EVIDENCE_DIR=$ev VERIF_REPLAY_DIR=$ev /venv/bin/python run.py $chk --tier quick > $ev/out.txt 2>&1
    rc=$?
    keys=$(grep -E "^  key=" $ev/out.txt | sed -E 's/^  key=([^ ]*) .*/\1/' | sort -u | head -4 | tr '\n' ' ')
    echo "$id -> $chk rc=$rc keys: $keys" >> $out.tmp
    rm -rf $ev
  done
  git -C /repo apply -R $PWD/$d/patch.diff 2>/dev/null
  git -C /repo checkout -- .
  if [ -n "$(git -C /repo status --porcelain)" ]; then git -C /repo clean -fdq vgi_rpc; fi
done
mv $out.tmp $out
git -C /repo status --porcelain | head -3

#!/venv/bin/python
"""Run the repository's pinned test suite (guard OFF) and compare with BASELINE.json's stable_pass set.

usage: baseline_compare.py [--keep-xml path]
exit 0 iff every stable_pass test passed.
"""
import json, os, subprocess, sys, tempfile, xml.etree.ElementTree as ET

def main() -> int:
    base = json.load(open("/root/.vp/BASELINE.json"))
    xml = sys.argv[sys.argv.index("--keep-xml") + 1] if "--keep-xml" in sys.argv else os.path.join(tempfile.mkdtemp(prefix="verif-base-"), "run.xml")
    env = dict(os.environ)
    for k in ("VGI_RPC_VERIF", "VERIF_REPO", "PYTHONPATH"):
        env.pop(k, None)
    cmd = base["cmd"].replace("<file>", xml)
    subprocess.run(cmd, shell=True, env=env, stdout=subprocess.DEVNULL, stderr=subprocess.DEVNULL)
    passed, failed = set(), set()
    for tc in ET.parse(xml).getroot().iter("testcase"):
        tid = (tc.get("classname") or "") + "::" + (tc.get("name") or "")
        if tc.find("failure") is not None or tc.find("error") is not None:
            failed.add(tid)
        elif tc.find("skipped") is None:
            passed.add(tid)
    passed -= failed
    stable = set(base["stable_pass"])
    missing = sorted(stable - passed)
    print(f"passed={len(passed)} failed={len(failed)} stable_pass={len(stable)} stable_not_passed={len(missing)}")
    for m in missing[:60]:
        print("  NOT PASSED:", m, "(failed)" if m in failed else "(absent/skipped)")
    return 0 if not missing else 1

if __name__ == "__main__":
    sys.exit(main())

#!/bin/bash
# Reverts every recorded "fix:" commit, one at a time, on a scratch copy and runs the property's quick check.
# Output: docs/REVERT_RESULTS.txt (one line per fix).  Long-running; not part of any registered check.
cd /verif
out=docs/REVERT_RESULTS.txt
: > $out.tmp
/venv/bin/python - <<'PY' > /tmp/verif-revert-list.txt
import json,re
for f in json.load(open('/verif/known_findings.json'))['fixed']:
    m=re.match(r'fixed: property=(C\d+) (\w+) ',f)
    if m: print(m.group(2), m.group(1))
PY
while read c p; do
  nice -n 5 tools/try_revert.sh $c quick $p 2>&1 | tail -1 >> $out.tmp
done < /tmp/verif-revert-list.txt
mv $out.tmp $out
rm -f /tmp/verif-revert-list.txt

#!/venv/bin/python
"""Regenerate the generated tables of DESIGN.md section 8 from known_findings.json, seeded/*/meta.json and evidence/."""

from __future__ import annotations

import glob
import json
import os
import re

ROOT = os.path.dirname(os.path.dirname(os.path.abspath(__file__)))
BEGIN, END = "<!-- BEGIN:GENERATED-TABLES -->", "<!-- END:GENERATED-TABLES -->"


def esc(s: str) -> str:
    return s.replace("|", "\\|").replace("\n", " ")


def main() -> None:
    kf = json.load(open(os.path.join(ROOT, "known_findings.json")))
    out: list[str] = []
    out.append("#### 8.3.1 Defects repaired in the repository (`fix:` commits, one per defect)\n")
    out.append("| Property | Commit | What failed (mechanism keys the check printed before the fix) |")
    out.append("|---|---|---|")
    for f in kf["fixed"]:
        m = re.match(r"fixed: property=(C\d+) (\w+) (.*)", f)
        if m:
            out.append(f"| {m.group(1)} | `{m.group(2)}` | {esc(m.group(3))} |")
    out.append("")
    out.append("#### 8.3.2 Known findings (genuine, recorded, not repaired)\n")
    out.append("| Property | Key | What fails / why it is recorded rather than repaired | Where |")
    out.append("|---|---|---|---|")
    for f in kf["findings"]:
        out.append(f"| {f['property']} | `{f['key']}` | {esc(f['what'])} | {esc(f.get('where', ''))} |")
    out.append("")
    out.append("#### 8.5.1 Seeded property-breaking changes (`/verif/seeded/<id>/`)\n")
    out.append("| Seed | Touches | What it needs to manifest | Caught by |")
    out.append("|---|---|---|---|")
    for d in sorted(glob.glob(os.path.join(ROOT, "seeded", "*"))):
        mp = os.path.join(d, "meta.json")
        if not os.path.exists(mp):
            continue
        m = json.load(open(mp))
        files = m.get("files") or []
        if isinstance(files, str):
            files = [files]
        caught = ", ".join(m.get("caught_by_checks", [])) or "**not caught**"
        needs = m.get("needs") or m.get("what_it_needs_to_manifest") or ""
        if len(needs) > 420:
            needs = needs[:417] + "..."
        out.append(f"| {os.path.basename(d)} | {esc(', '.join(os.path.basename(x) for x in files))} | {esc(needs)} | {caught} |")
    out.append("")
    out.append("#### 8.6.1 Measured size of the committed quick runs (from `evidence/*.json`)\n")
    out.append("| Property | level | evaluations | distinct non-trivial | wall s |")
    out.append("|---|---|---|---|---|")
    for f in sorted(glob.glob(os.path.join(ROOT, "evidence", "C*.json"))):
        e = json.load(open(f))
        c = e.get("coverage", {})
        out.append(f"| {e.get('property_id')} | {e.get('level')} | {c.get('evaluations')} | {c.get('distinct_nontrivial')} | {e.get('wall_s')} |")
    text = "\n".join(out) + "\n"
    p = os.path.join(ROOT, "DESIGN.md")
    s = open(p).read()
    if BEGIN in s and END in s:
        s = s[: s.index(BEGIN) + len(BEGIN)] + "\n" + text + s[s.index(END) :]
    else:
        raise SystemExit("markers missing in DESIGN.md")
    s = re.sub(r"<!--NFIXED-->\d+<!--/NFIXED-->", f"<!--NFIXED-->{len(kf['fixed'])}<!--/NFIXED-->", s)
    s = re.sub(r"<!--NFIND-->\d+<!--/NFIND-->", f"<!--NFIND-->{len(kf['findings'])}<!--/NFIND-->", s)
    open(p, "w").write(s)
    print("DESIGN.md tables regenerated")


if __name__ == "__main__":
    main()

#!/bin/bash
# usage: tools/confirm_seed.sh <ID> <srcdir> <caught_by checks (comma sep)> <tests...>
# Confirms a seeded change in a fresh scratch worktree of /repo: applies cleanly, imports, ruff+mypy clean on the
# touched files, the given existing tests give the same failures with and without it, the demo fails with it and
# passes without it.  On success copies patch.diff, demo, meta.json (augmented) to /verif/seeded/<ID>/.
id=$1; src=$2; caught=$3; shift 3; tests="$@"
wt=/tmp/verif-confirm-$id
git -C /repo worktree remove --force $wt >/dev/null 2>&1
git -C /repo worktree add -q --detach $wt HEAD || exit 3
cleanup() { git -C /repo worktree remove --force $wt >/dev/null 2>&1; }
trap cleanup EXIT
cd $wt
demo=$(ls $src/demo.py $src/demo_test.py 2>/dev/null | head -1)
run_demo() { if [[ $demo == *demo_test.py ]]; then PYTHONPATH=$wt timeout 300 /venv/bin/python -m pytest -q -p no:cacheprovider $demo >/dev/null 2>&1; else PYTHONPATH=$wt timeout 300 /venv/bin/python $demo >/dev/null 2>&1; fi; echo $?; }
run_tests() { [ -z "$tests" ] && { : > $1; return; }; PYTHONPATH=$wt timeout 1700 /venv/bin/python -m pytest -q -p no:cacheprovider --no-header -rfE $tests 2>&1 | grep -E "^(FAILED|ERROR) " | sed -E "s/^(FAILED|ERROR) //; s/ - .*//" | sort -u > $1; }
un_demo=$(run_demo)
run_tests /tmp/verif-confirm-$id.un; un_tests=$(wc -l < /tmp/verif-confirm-$id.un)
git apply --3way $src/patch.diff 2>/dev/null || git apply $src/patch.diff || { echo "$id: PATCH DOES NOT APPLY"; exit 3; }
files=$(git diff HEAD --name-only | grep '\.py$' | tr '\n' ' ')
PYTHONPATH=$wt /venv/bin/python -c "import vgi_rpc, vgi_rpc.http" || { echo "$id: IMPORT BROKEN"; exit 3; }
lint=ok; /venv/bin/python -m ruff check -q $files >/dev/null 2>&1 || lint=ruff-check; /venv/bin/python -m ruff format --check -q $files >/dev/null 2>&1 || lint="$lint ruff-format"
mypy_out=$(/venv/bin/python -m mypy $files 2>&1 | grep -v "external.py" | grep -c "error:")
ch_demo=$(run_demo)
run_tests /tmp/verif-confirm-$id.ch
# failures that appear only with the change: re-run them (load flakes pass on a re-run); what persists is real
newf=$(comm -13 /tmp/verif-confirm-$id.un /tmp/verif-confirm-$id.ch | tr '\n' ' ')
persist=""
if [ -n "$newf" ]; then
  persist=$(PYTHONPATH=$wt timeout 900 /venv/bin/python -m pytest -q -p no:cacheprovider --no-header -rfE $newf 2>&1 | grep -E "^(FAILED|ERROR) " | sed -E "s/^(FAILED|ERROR) //; s/ - .*//" | sort -u | tr '\n' ' ')
fi
ch_tests=$(wc -l < /tmp/verif-confirm-$id.ch)
rm -f /tmp/verif-confirm-$id.un /tmp/verif-confirm-$id.ch
echo "$id: files=[$files] lint=$lint mypy_new_errors=$mypy_out demo_unchanged_rc=$un_demo demo_changed_rc=$ch_demo failing_tests_unchanged=$un_tests failing_tests_changed=$ch_tests new_persistent_failures=[$persist]"
if [ "$un_demo" = "0" ] && [ "$ch_demo" != "0" ] && [ "$lint" = "ok" ] && [ "$mypy_out" = "0" ] && [ -z "$persist" ]; then
  mkdir -p /verif/seeded/$id
  git diff HEAD > /verif/seeded/$id/patch.diff
  cp $demo /verif/seeded/$id/
  /venv/bin/python - "$id" "$src" "$caught" "$files" "$tests" "$un_demo" "$ch_demo" <<'PY'
import json,sys
pid,src,caught,files,tests,un,ch=sys.argv[1:8]
try: m=json.load(open(f"{src}/meta.json"))
except Exception: m={}
m["property"]=__import__("re").match(r"(C\d+)", pid).group(1)
m["confirmed"]={"patch_applies_to_repo_head":True,"imports":True,"ruff_mypy_clean_on_touched_files":True,
  "existing_tests_run":tests,"no_existing_test_fails_only_with_the_change":True,"existing_tests_note":"failing ids compared with and without the change; ids failing only with it were re-run to exclude load flakes, none persisted",
  "demo_rc_unchanged":int(un),"demo_rc_changed":int(ch),"how":"tools/confirm_seed.sh in a scratch git worktree of /repo HEAD"}
m["caught_by_checks"]=[c for c in caught.split(",") if c]
json.dump(m,open(f"/verif/seeded/{pid}/meta.json","w"),indent=1)
PY
  echo "$id: KEPT -> /verif/seeded/$id"
else
  echo "$id: NOT KEPT"
fi

#!/bin/bash
# usage: tools/try_seed.sh <patch.diff> <tier> <CHECK...>
# Applies the patch to a scratch copy of /repo/vgi_rpc and runs the checks against it (VERIF_REPO).
patch=$1; tier=$2; shift 2
d=$(mktemp -d /tmp/verif-seedtest-XXXX)
cp -r /repo/vgi_rpc $d/
if ! (cd $d && patch -p1 -s --no-backup-if-mismatch < $patch); then echo "PATCH DID NOT APPLY"; rm -rf $d; exit 3; fi
/venv/bin/python -c "import sys; sys.path.insert(0,'$d'); import vgi_rpc, vgi_rpc.http" || { echo "BROKEN IMPORT"; rm -rf $d; exit 3; }
for c in "$@"; do
  out=$(VERIF_REPO=$d VERIF_EVIDENCE_DIR=$d/ev VERIF_REPLAY_DIR=$d/rp /venv/bin/python /verif/run.py $c --tier $tier 2>&1)
  echo "== $c rc=$? "; echo "$out" | grep -E "^(VIOLATION|KNOWN-FINDING|INCONCLUSIVE|  key=)|\] (held|violated|inconclusive)" | cut -c1-260
done
rm -rf $d

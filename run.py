#!/venv/bin/python
"""Single entry point: run.py <Cxx> [--tier quick|thorough] [--replay file].

Imports ``checks.<cxx>`` and calls ``main(tier, seed)``, which returns the exit
code (0 held / 1 violation / 2 inconclusive).  ``VERIF_SEED`` and ``VERIF_TIER``
from the environment are honoured.  The repository is imported from /repo's
working tree (editable install), so nothing needs building.
"""

from __future__ import annotations

import argparse
import importlib
import os
import subprocess
import sys
import traceback

ROOT = os.path.dirname(os.path.abspath(__file__))
DEPS = os.path.join(ROOT, ".deps")
WHEELS = "/opt/veriftools/wheels"


def ensure_deps() -> None:
    """Install icontract/deal next to the framework when missing (fresh restore)."""
    if os.path.isdir(os.path.join(DEPS, "icontract")):
        return
    os.makedirs(DEPS, exist_ok=True)
    subprocess.run(
        [
            sys.executable,
            "-m",
            "pip",
            "install",
            "--quiet",
            "--no-index",
            "--find-links",
            WHEELS,
            "--target",
            DEPS,
            "icontract",
            "deal",
        ],
        check=False,
        stdout=subprocess.DEVNULL,
        stderr=subprocess.DEVNULL,
    )


def main() -> int:
    ap = argparse.ArgumentParser()
    ap.add_argument("prop")
    ap.add_argument("--tier", default=os.environ.get("VERIF_TIER", "quick"), choices=["quick", "thorough"])
    ap.add_argument("--seed", type=int, default=int(os.environ.get("VERIF_SEED", "0") or 0))
    ap.add_argument("--replay", default=None)
    ap.add_argument("--setup", action="store_true")
    args = ap.parse_args()

    os.environ.setdefault("VGI_RPC_VERIF", "1")
    os.environ["PYTHONHASHSEED"] = os.environ.get("PYTHONHASHSEED", "0")
    if ROOT not in sys.path:
        sys.path.insert(0, ROOT)
    if os.environ.get("VERIF_REPO"):
        # mutation testing: import vgi_rpc from a scratch copy instead of /repo
        sys.path.insert(0, os.environ["VERIF_REPO"])
    ensure_deps()
    if DEPS not in sys.path:
        sys.path.append(DEPS)
    if args.setup or args.prop == "setup":
        return 0

    pid = args.prop.upper()
    modname = f"checks.{pid.lower()}"
    try:
        mod = importlib.import_module(modname)
    except ModuleNotFoundError as exc:
        if exc.name == modname:
            print(f"no check for {pid}")
            return 2
        raise
    try:
        if args.replay:
            if not hasattr(mod, "replay"):
                print(f"{pid}: no replay support; rerun the check with the recorded seed")
                return 2
            return int(mod.replay(args.replay))
        return int(mod.main(args.tier, args.seed))
    except Exception:
        traceback.print_exc()
        print(f"INCONCLUSIVE property={pid} reason=check crashed")
        return 2


if __name__ == "__main__":
    sys.exit(main())

"""E4 - scripted HTTP origin on loopback (fault grammar for external-location fetches).

``Origin(route)`` is a threaded HTTP/1.1 server on ``127.0.0.1:0``.  For every
request it builds a ``Req`` and asks ``route(req)`` for a *behaviour* dict; the
behaviour says exactly what goes on the wire (so headers may lie):

    status        int (default 200)            reason   str | None
    headers       list[(name, value)]          sent verbatim, after the framing headers
    body          bytes                        never sent for HEAD (framing headers still are)
    length        "auto"  Content-Length = len(body)            (default)
                  "none"  no Content-Length, close-delimited body
                  "chunked"  Transfer-Encoding: chunked
                  int     that value as Content-Length (a lie when != len(body))
                  str     that text as Content-Length (garbage)
    endless       (pattern: bytes, hard_limit: int)  instead of body: stream until the client
                  closes or hard_limit bytes were written (log entry gets ``hit_hard_limit``)
    pre_delay     seconds before the status line
    chunk         bytes per write (default 16384)      chunk_delay   seconds between writes
    delay_at      {body_offset: seconds}  sleep before writing the chunk that starts at/after offset
    abort_at      int: after that many body bytes reset the connection (RST)
    drop          True: reset (RST) the connection without writing a single byte; "fin": orderly close
    close         True: ``Connection: close``

Every request is appended to ``origin.log`` (also when ``route`` returns None -> 404):
``{"n", "origin", "method", "target", "path", "query", "headers" (lower-cased names),
"host", "status", "body_sent", "client_closed", "finished", "tag"}``; ``body_sent`` is
the number of body bytes handed to the socket before the client closed.

``serve_object(req, obj, peers)`` interprets an *object script* (the C31 fault grammar,
JSON-able) and returns a behaviour; with an all-default script it is an honest
range-capable origin (used by C30).  See the function for the script keys.
"""

from __future__ import annotations

import contextlib
import socket
import struct
import threading
import time
from dataclasses import dataclass, field
from http.server import BaseHTTPRequestHandler, ThreadingHTTPServer
from typing import Any, Callable
from urllib.parse import parse_qsl, urlencode, urlsplit


@dataclass
class Req:
    n: int
    origin: str
    method: str
    target: str  # raw request target (path + ?query)
    path: str
    query: str
    headers: dict[str, str]
    body: bytes
    seen: int  # earlier requests with the same (method, target, range header)
    entry: dict[str, Any] = field(default_factory=dict)

    @property
    def host(self) -> str:
        return self.headers.get("host", "")

    @property
    def url(self) -> str:
        """The URL the client must have used (no userinfo / fragment on the wire)."""
        return f"http://{self.host}{self.target}"


class _Handler(BaseHTTPRequestHandler):
    protocol_version = "HTTP/1.1"
    server_version = "verif-origin"
    sys_version = ""

    def log_message(self, format: str, *args: Any) -> None:  # noqa: A002
        return

    def setup(self) -> None:
        super().setup()
        with contextlib.suppress(OSError):
            self.connection.setsockopt(socket.IPPROTO_TCP, socket.TCP_NODELAY, 1)

    def finish(self) -> None:
        with contextlib.suppress(Exception):
            super().finish()

    def _any(self) -> None:
        origin: Origin = self.server.origin  # type: ignore[attr-defined]
        origin._handle(self)

    do_GET = do_HEAD = do_PUT = do_POST = do_DELETE = do_OPTIONS = _any


class _Server(ThreadingHTTPServer):
    daemon_threads = True
    allow_reuse_address = True
    request_queue_size = 128

    def handle_error(self, request: Any, client_address: Any) -> None:
        return


class Origin:
    def __init__(self, route: Callable[[Req], dict[str, Any] | None], *, name: str = "A", host: str = "127.0.0.1") -> None:
        self.route = route
        self.name = name
        self.log: list[dict[str, Any]] = []
        self._lock = threading.Lock()
        self._seen: dict[tuple[str, str, str], int] = {}
        self._n = 0
        self._srv = _Server((host, 0), _Handler)
        self._srv.origin = self  # type: ignore[attr-defined]
        self.host = host
        self.port = int(self._srv.server_address[1])
        self.base = f"http://{host}:{self.port}"
        self._th = threading.Thread(target=self._srv.serve_forever, kwargs={"poll_interval": 0.05}, name=f"origin-{name}", daemon=True)

    def start(self) -> "Origin":
        self._th.start()
        return self

    def stop(self) -> None:
        with contextlib.suppress(Exception):
            self._srv.shutdown()
        with contextlib.suppress(Exception):
            self._srv.server_close()
        self._th.join(timeout=5)

    def __enter__(self) -> "Origin":
        return self.start()

    def __exit__(self, *a: Any) -> None:
        self.stop()

    def clear(self) -> None:
        with self._lock:
            self.log.clear()
            self._seen.clear()

    def snapshot(self) -> list[dict[str, Any]]:
        with self._lock:
            return [dict(e) for e in self.log]

    # ------------------------------------------------------------------
    def _handle(self, h: _Handler) -> None:
        headers = {k.lower(): v for k, v in h.headers.items()}
        body = b""
        if h.command in ("PUT", "POST"):
            try:
                n = int(headers.get("content-length", "0") or 0)
            except ValueError:
                n = 0
            body = h.rfile.read(n) if n > 0 else b""
        parts = urlsplit(h.path)
        key = (h.command, h.path, headers.get("range", ""))
        with self._lock:
            self._n += 1
            seen = self._seen.get(key, 0)
            self._seen[key] = seen + 1
            entry: dict[str, Any] = {
                "n": self._n,
                "origin": self.name,
                "method": h.command,
                "target": h.path,
                "path": parts.path,
                "query": parts.query,
                "headers": headers,
                "host": headers.get("host", ""),
                "status": None,
                "body_sent": 0,
                "client_closed": False,
                "finished": False,
                "t": time.monotonic(),
            }
            self.log.append(entry)
        req = Req(entry["n"], self.name, h.command, h.path, parts.path, parts.query, headers, body, seen, entry)
        try:
            beh = self.route(req)
        except Exception as exc:  # a broken script must be visible, not a hang
            beh = {"status": 599, "body": f"route error: {type(exc).__name__}: {exc}".encode()}
            entry["route_error"] = repr(exc)
        if beh is None:
            beh = {"status": 404, "body": b"no such object"}
        self._respond(h, req, beh)

    def _respond(self, h: _Handler, req: Req, beh: dict[str, Any]) -> None:
        entry = req.entry
        entry["status"] = "drop" if beh.get("drop") else beh.get("status", 200)
        if "tag" in beh:
            entry["tag"] = beh["tag"]
        if beh.get("drop"):
            if beh["drop"] == "fin":  # orderly close before any response byte
                h.close_connection = True
                with contextlib.suppress(OSError):
                    h.connection.shutdown(socket.SHUT_RDWR)
            else:
                self._reset(h)
            entry["finished"] = True
            return
        if beh.get("pre_delay"):
            time.sleep(beh["pre_delay"])
        body: bytes = beh.get("body", b"") or b""
        endless = beh.get("endless")
        length = beh.get("length", "auto")
        status = int(beh.get("status", 200))
        must_close = bool(beh.get("close"))
        out: list[bytes] = [f"HTTP/1.1 {status} {beh.get('reason') or _REASONS.get(status, 'Status')}\r\n".encode("latin-1")]
        hdrs: list[tuple[str, str]] = []
        if endless is not None and length == "auto":
            length = "none"
        if length == "auto":
            hdrs.append(("Content-Length", str(len(body))))
        elif length == "none":
            must_close = True
        elif length == "chunked":
            hdrs.append(("Transfer-Encoding", "chunked"))
        else:
            hdrs.append(("Content-Length", str(length)))
            if str(length) != str(len(body)):
                must_close = True
        hdrs.extend(beh.get("headers", []))
        if must_close:
            hdrs.append(("Connection", "close"))
            h.close_connection = True
        for k, v in hdrs:
            out.append(f"{k}: {v}\r\n".encode("latin-1"))
        out.append(b"\r\n")
        sock = h.connection
        try:
            sock.sendall(b"".join(out))
        except OSError:
            entry["client_closed"] = True
            h.close_connection = True
            return
        if h.command == "HEAD" or status in (204, 304) or 100 <= status < 200:
            entry["finished"] = True
            return
        step = int(beh.get("chunk", 16384))
        chunk_delay = float(beh.get("chunk_delay", 0) or 0)
        delay_at = {int(k): float(v) for k, v in (beh.get("delay_at") or {}).items()}
        abort_at = beh.get("abort_at")
        sent = 0
        chunked = length == "chunked"

        def write(data: bytes) -> bool:
            nonlocal sent
            try:
                if chunked:
                    sock.sendall(f"{len(data):x}\r\n".encode() + data + b"\r\n")
                else:
                    sock.sendall(data)
            except OSError:
                entry["client_closed"] = True
                h.close_connection = True
                return False
            sent += len(data)
            entry["body_sent"] = sent
            return True

        if endless is not None:
            pattern, hard = endless
            blk = (pattern * (step // max(1, len(pattern)) + 1))[:step]
            while sent < hard:
                if not write(blk):
                    return
                if chunk_delay:
                    time.sleep(chunk_delay)
            entry["hit_hard_limit"] = True
            entry["finished"] = True
            h.close_connection = True
            return
        pos = 0
        total = len(body)
        stops = sorted(set(delay_at) | ({int(abort_at)} if abort_at is not None else set()))
        delayed: set[int] = set()
        while True:
            for off in stops:
                if off <= pos and off in delay_at and off not in delayed:
                    delayed.add(off)
                    time.sleep(delay_at[off])
            if abort_at is not None and pos >= int(abort_at):
                self._reset(h)
                entry["aborted"] = True
                return
            if pos >= total:
                break
            end = min(total, pos + step)
            for off in stops:
                if pos < off < end:
                    end = off
                    break
            if not write(body[pos:end]):
                return
            pos = end
            if chunk_delay and pos < total:
                time.sleep(chunk_delay)
        if chunked:
            with contextlib.suppress(OSError):
                sock.sendall(b"0\r\n\r\n")
        entry["finished"] = True

    @staticmethod
    def _reset(h: _Handler) -> None:
        h.close_connection = True
        with contextlib.suppress(OSError):
            h.connection.setsockopt(socket.SOL_SOCKET, socket.SO_LINGER, struct.pack("ii", 1, 0))
        with contextlib.suppress(OSError):
            h.connection.close()


_REASONS = {
    200: "OK",
    204: "No Content",
    206: "Partial Content",
    301: "Moved Permanently",
    302: "Found",
    303: "See Other",
    307: "Temporary Redirect",
    308: "Permanent Redirect",
    400: "Bad Request",
    403: "Forbidden",
    404: "Not Found",
    405: "Method Not Allowed",
    416: "Range Not Satisfiable",
    429: "Too Many Requests",
    500: "Internal Server Error",
    501: "Not Implemented",
    502: "Bad Gateway",
    503: "Service Unavailable",
}


# ---------------------------------------------------------------------------
# object scripts (fault grammar)
# ---------------------------------------------------------------------------


def parse_range(header: str, total: int) -> tuple[int, int] | None:
    """``bytes=a-b`` -> inclusive (a, b) clipped to the object, None when unsatisfiable/unsupported."""
    if not header.startswith("bytes=") or "," in header:
        return None
    a, _, b = header[6:].partition("-")
    try:
        if a == "":
            n = int(b)
            if n <= 0:
                return None
            return max(0, total - n), total - 1
        start = int(a)
        end = int(b) if b else total - 1
    except ValueError:
        return None
    if start >= total or end < start:
        return None
    return start, min(end, total - 1)


def with_hop(target: str, hop: int) -> str:
    """Same target with the ``_h`` (redirect hop index) query parameter replaced."""
    parts = urlsplit(target)
    q = [(k, v) for k, v in parse_qsl(parts.query, keep_blank_values=True) if k != "_h"]
    q.append(("_h", str(hop)))
    return parts.path + "?" + urlencode(q)


def hop_of(query: str) -> int:
    for k, v in parse_qsl(query, keep_blank_values=True):
        if k == "_h":
            try:
                return int(v)
            except ValueError:
                return 0
    return 0


def serve_object(req: Req, obj: dict[str, Any], peers: dict[str, str] | None = None) -> dict[str, Any]:
    """Behaviour for one request against the object script *obj*.

    Script keys (all optional except ``body``):

    body            bytes as stored (already content-encoded when ``ce`` is set)
    ce              Content-Encoding the origin names (None: header absent)
    redirect        {"HEAD"|"GET"|"RANGE"|"PROBE": {"after_drops": k, "drop_mode": True (RST) | "fin", "n": hops | "endless" | "selfloop",
                     "status": 302, "last": "next"|"forbidden_origin"|"forbidden_path"|"forbidden_host"|
                     "nolocation"|"invalid"|"file"|"relative", "secret": str appended to every Location's query}}
                    the hop index travels in the ``_h`` query parameter so the origin can see how
                    deep a chain was followed
    head            {"status": 200, "cl": "true"|"absent"|"garbage"|int, "ar": "bytes"|"none"|None,
                     "ce": "same"|None|str, "pre_delay": s, "drop": True (RST) | "fin", "drop_first": k}
    get             {"status": 200, "length": "auto"|"none"|"chunked"|int, "abort_at": int,
                     "ce": "same"|None|str, "chunk": n, "chunk_delay": s, "pre_delay": s,
                     "endless": hard_limit, "drop_first": k (drop the first k attempts), "drop_mode": True (RST) | "fin"}
    range           {"mode": "honour"|"ignore"|"short"|"long"|"endless"|"shift_honest"|"shift_lying"|
                     "no_cr"|"416"|"500"|"total_lie", "slow": {start_offset: seconds} (first request for
                     that range only), "fail_first": [start_offsets] (500 on the first request), "fail_later": [start_offsets] (500 on every later one),
                     "abort_first": [start_offsets] (reset mid-body on the first request), "chunk_delay": s}
    probe           {"mode": "range"|"200"|"403"|"405"|"206_no_cr"|"206_bad_cr"|"206_long"|"500"}  (Range: bytes=0-0)
    """
    peers = peers or {}
    body: bytes = obj["body"]
    ce = obj.get("ce")
    total = len(body)
    rng_hdr = req.headers.get("range", "")
    if req.method == "HEAD":
        kind = "HEAD"
    elif rng_hdr == "bytes=0-0" and obj.get("probe") is not None:
        kind = "PROBE"
    elif rng_hdr:
        kind = "RANGE"
    else:
        kind = "GET"
    req.entry["kind"] = kind

    # -- redirects --------------------------------------------------------
    red = (obj.get("redirect") or {}).get(kind)
    if red is None and kind == "PROBE":
        red = (obj.get("redirect") or {}).get("RANGE")
    if red is not None:
        hop = hop_of(req.query)
        req.entry["hop"] = hop
        # "after_drops": k - the first k attempts of this request are dropped before any response byte, the
        # redirect is only served to a later attempt (a client-side reconnect / retry path)
        if req.seen < int(red.get("after_drops", 0)):
            return {"drop": red.get("drop_mode", "fin")}
        n = red.get("n", 1)
        status = int(red.get("status", 302))
        secret = red.get("secret")

        def loc(target: str) -> str:
            if secret:
                target += ("&" if "?" in target else "?") + secret
            return target

        if n == "selfloop":
            return {"status": status, "headers": [("Location", req.target)], "tag": "redirect"}
        if n == "endless" or hop < int(n) - 1:
            return {"status": status, "headers": [("Location", loc(with_hop(req.target, hop + 1)))], "tag": "redirect"}
        if hop == int(n) - 1:
            last = red.get("last", "next")
            nxt = with_hop(req.target, hop + 1)
            if last == "next":
                target = nxt
            elif last == "relative":
                target = nxt.rsplit("/", 1)[-1]  # relative reference: last segment + query
            elif last == "absolute":
                target = f"http://{req.host}{nxt}"
            elif last == "forbidden_origin":
                target = peers.get("forbidden", "http://127.0.0.1:9") + nxt
            elif last == "forbidden_host":
                target = f"http://localhost:{req.host.rsplit(':', 1)[-1]}{nxt}"
            elif last == "forbidden_path":
                target = "/deny" + nxt
            elif last == "file":
                target = "file:///etc/passwd"
            elif last == "ftp":
                target = "ftp://user:pw@127.0.0.1/x"
            elif last == "invalid":
                target = "http://[::bad/zz"
            elif last == "nolocation":
                return {"status": status, "tag": "redirect"}
            elif last == "empty":
                return {"status": status, "headers": [("Location", "")], "tag": "redirect"}
            else:
                raise ValueError(last)
            return {"status": status, "headers": [("Location", loc(target))], "tag": "redirect"}

    def ce_headers(spec_ce: Any) -> list[tuple[str, str]]:
        val = ce if spec_ce == "same" else spec_ce
        return [("Content-Encoding", val)] if val else []

    # -- HEAD -------------------------------------------------------------
    if kind == "HEAD":
        hs = obj.get("head") or {}
        if hs.get("drop") and req.seen < int(hs.get("drop_first", 1 << 30)):
            return {"drop": hs["drop"]}
        status = int(hs.get("status", 200))
        if status != 200:
            return {"status": status, "pre_delay": hs.get("pre_delay")}
        cl = hs.get("cl", "true")
        hdrs: list[tuple[str, str]] = []
        length: Any
        if cl == "true":
            length = total
        elif cl == "absent":
            length = "none"
        elif cl == "garbage":
            length = "12abc"
        else:
            length = int(cl)
        ar = hs.get("ar", "bytes")
        if ar:
            hdrs.append(("Accept-Ranges", ar))
        hdrs += ce_headers(hs.get("ce", "same"))
        beh = {"status": 200, "headers": hdrs, "length": length, "pre_delay": hs.get("pre_delay")}
        if length == "none":
            beh["close"] = True
        return beh

    # -- plain GET ----------------------------------------------------------
    gs = obj.get("get") or {}
    if kind == "GET" or (kind == "RANGE" and (obj.get("range") or {}).get("mode") == "ignore"):
        if kind == "GET" and req.seen < int(gs.get("drop_first", 0)):
            return {"drop": gs.get("drop_mode", True)}
        status = int(gs.get("status", 200))
        if status != 200:
            return {"status": status, "body": b"denied", "pre_delay": gs.get("pre_delay")}
        beh = {
            "status": 200,
            "body": body,
            "length": gs.get("length", "auto"),
            "headers": ce_headers(gs.get("ce", "same")) + ([("Accept-Ranges", "bytes")] if gs.get("ar", True) else []),
            "abort_at": gs.get("abort_at"),
            "chunk": gs.get("chunk", 16384),
            "chunk_delay": gs.get("chunk_delay"),
            "pre_delay": gs.get("pre_delay"),
        }
        if gs.get("endless"):
            beh["endless"] = (body or b"\0", int(gs["endless"]))
        return beh

    # -- Range: bytes=0-0 probe of a pre-signed URL ---------------------------
    if kind == "PROBE":
        mode = (obj.get("probe") or {}).get("mode", "range")
        if mode in ("403", "405", "500", "404", "501"):
            return {"status": int(mode), "body": b"probe refused"}
        if mode == "200":
            return {"status": 200, "body": body, "headers": ce_headers("same")}
        if mode == "206_no_cr":
            return {"status": 206, "body": body[:1], "headers": ce_headers("same")}
        if mode == "206_bad_cr":
            return {"status": 206, "body": body[:1], "headers": [("Content-Range", "bytes 0-0/*")] + ce_headers("same")}
        if mode == "206_long":
            return {"status": 206, "endless": (body or b"\0", 32 << 20), "headers": [("Content-Range", f"bytes 0-0/{total}")] + ce_headers("same")}
        if mode == "206_total_lie":
            lie = int((obj.get("probe") or {}).get("total", total))
            return {"status": 206, "body": body[:1], "headers": [("Content-Range", f"bytes 0-0/{lie}")] + ce_headers("same")}
        # "range": fall through to the honest / scripted range handling

    # -- Range requests -------------------------------------------------------
    rs = obj.get("range") or {}
    mode = rs.get("mode", "honour")
    r = parse_range(rng_hdr, total)
    if r is None or mode == "416":
        return {"status": 416, "headers": [("Content-Range", f"bytes */{total}")], "body": b""}
    a, b = r
    if mode == "500":
        return {"status": 500, "body": b"boom"}
    first = req.seen == 0
    beh = {"status": 206, "headers": ce_headers("same"), "chunk": rs.get("chunk", 16384), "chunk_delay": rs.get("chunk_delay")}
    if first and str(a) in {str(k) for k in (rs.get("fail_first") or [])}:
        return {"status": 500, "body": b"transient"}
    # "fail_later": every request for that range except the first one fails (a hedge or retry that does not help)
    if not first and str(a) in {str(k) for k in (rs.get("fail_later") or [])}:
        return {"status": 500, "body": b"hedge refused"}
    slow = {str(k): v for k, v in (rs.get("slow") or {}).items()}
    if first and str(a) in slow:
        beh["pre_delay"] = float(slow[str(a)])
        req.entry["slowed"] = True
    part = body[a : b + 1]
    cr = f"bytes {a}-{b}/{total}"
    if mode == "short":
        part = part[: max(0, len(part) - 1 - len(part) // 3)]
        beh["length"] = len(part)
    elif mode == "long":
        part = part + b"EXTRA-BYTES-BEYOND-THE-RANGE" * 8
    elif mode == "endless":
        beh["endless"] = (part or b"\0", 32 << 20)
    elif mode == "shift_honest":
        # a different range than asked for, truthfully labelled
        sa = 0 if a > 0 else min(total - 1, 1)
        sb = min(total - 1, sa + (b - a))
        part = body[sa : sb + 1]
        cr = f"bytes {sa}-{sb}/{total}"
    elif mode == "shift_lying":
        sa = 0 if a > 0 else min(total - 1, 1)
        sb = min(total - 1, sa + (b - a))
        part = body[sa : sb + 1]
    elif mode == "total_lie":
        cr = f"bytes {a}-{b}/{total + 7}"
    if mode != "no_cr":
        beh["headers"] = [("Content-Range", cr)] + beh["headers"]
    if first and str(a) in {str(k) for k in (rs.get("abort_first") or [])}:
        beh["abort_at"] = max(0, len(part) // 2)
    beh["body"] = part
    return beh

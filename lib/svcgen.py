"""E1 - generated services: Protocol + scripted implementation built from a program dict.

A *program* is a picklable dict (see ``gen_program``).  ``build(program)`` returns
``(protocol_cls, impl)`` built with real annotation objects via ``exec`` of generated
source, so ``rpc_methods`` / ``_resolve_state_types`` / ``build_describe_batch`` see
exactly what a hand-written service would give them.  Behaviour lives in the
program's scripts and is interpreted by ``ScriptedImpl`` and the state classes
below; every server-side action is appended to ``impl.inv`` (and, in worker
processes, to the JSONL file named by ``VERIF_INVLOG``).
"""

from __future__ import annotations

import json
import os
import random
import threading
from dataclasses import dataclass
from typing import Any, ClassVar, Protocol  # noqa: F401  (Protocol used in exec namespace)

import pyarrow as pa

from lib import tygen
from vgi_rpc.log import Level
from vgi_rpc.rpc import (
    AnnotatedBatch,
    CallContext,
    ExchangeState,
    MethodNotImplementedError,
    OutputCollector,
    ProducerState,
    Stream,
    StreamState,
)
from vgi_rpc.utils import ArrowSerializableDataclass

# ---------------------------------------------------------------------------
# Exceptions the scripts may raise
# ---------------------------------------------------------------------------


class UserBoom(Exception):
    """User-defined exception without an error kind."""


class KindError(Exception):
    """User-defined exception carrying an error kind."""

    error_kind = "custom_kind"


EXCEPTIONS: dict[str, type[BaseException]] = {
    "ValueError": ValueError,
    "RuntimeError": RuntimeError,
    "KeyError": KeyError,
    "TypeError": TypeError,
    "ArrowInvalid": pa.ArrowInvalid,
    "ZeroDivisionError": ZeroDivisionError,
    "UserBoom": UserBoom,
    "KindError": KindError,
    "MethodNotImplementedError": MethodNotImplementedError,
    "PermissionError": PermissionError,
}

COLTYPES: dict[str, pa.DataType] = {
    "i": pa.int64(),
    "s": pa.string(),
    "f": pa.float64(),
    "b": pa.binary(),
    "n": pa.int32(),
}


def schema_of(cols: list[str]) -> pa.Schema:
    return pa.schema([pa.field(c, COLTYPES[c[0]]) for c in cols])


# ---------------------------------------------------------------------------
# Header / state classes (module level so worker processes can import them)
# ---------------------------------------------------------------------------


@dataclass(frozen=True)
class Hdr(ArrowSerializableDataclass):
    label: str
    n: int


@dataclass(frozen=True)
class CallSt(ArrowSerializableDataclass):
    """Immutable call state (C14): who opened the stream + an opaque payload."""

    owner: str
    payload: str


@dataclass
class PState(ProducerState):
    mname: str
    pos: int = 0
    cancelled: int = 0

    def produce(self, out: OutputCollector, ctx: CallContext) -> None:
        ctx.implementation._step(self, None, out, ctx)

    def on_cancel(self, ctx: CallContext) -> None:
        ctx.implementation._cancel(self, ctx)

    def rehydrate(self, implementation: object) -> None:
        implementation._note("rehydrate", self.mname, self.pos)  # type: ignore[attr-defined]


@dataclass
class PState2(PState):
    """A second, field-compatible producer state class (C13)."""


@dataclass
class XState(ExchangeState):
    mname: str
    pos: int = 0
    cancelled: int = 0

    def exchange(self, input: AnnotatedBatch, out: OutputCollector, ctx: CallContext) -> None:
        ctx.implementation._step(self, input, out, ctx)

    def on_cancel(self, ctx: CallContext) -> None:
        ctx.implementation._cancel(self, ctx)

    def rehydrate(self, implementation: object) -> None:
        implementation._note("rehydrate", self.mname, self.pos)  # type: ignore[attr-defined]


@dataclass
class PStateCS(ProducerState):
    """Producer whose immutable half travels as call state."""

    CALL_STATE_TYPE: ClassVar[type[ArrowSerializableDataclass] | None] = CallSt
    mname: str
    pos: int = 0

    def bind_call_state(self, call_state: ArrowSerializableDataclass | None) -> None:
        object.__setattr__(self, "_cs", call_state)

    def produce(self, out: OutputCollector, ctx: CallContext) -> None:
        ctx.implementation._step(self, None, out, ctx)

    def on_cancel(self, ctx: CallContext) -> None:
        ctx.implementation._cancel(self, ctx)


STATE_CLASSES = {"PState": PState, "PState2": PState2, "XState": XState, "PStateCS": PStateCS}

# ---------------------------------------------------------------------------
# Scripted implementation
# ---------------------------------------------------------------------------

_invlog_lock = threading.Lock()


class ScriptedImpl:
    """Interprets the program's behaviour scripts; records an invocation log."""

    def __init__(self, program: dict[str, Any]) -> None:
        self.program = program
        self.scripts = {m["name"]: m for m in program["methods"]}
        self.inv: list[tuple[Any, ...]] = []
        self._invfile = os.environ.get("VERIF_INVLOG")
        self.hooks: dict[str, Any] = {}

    # -- observation -------------------------------------------------------
    def _note(self, *event: Any) -> None:
        self.inv.append(event)
        if self._invfile:
            with _invlog_lock, open(self._invfile, "a") as fh:
                fh.write(json.dumps([repr(e) if not isinstance(e, (str, int, float, type(None))) else e for e in event]) + "\n")
        h = self.hooks.get("note")
        if h is not None:
            h(event)

    @staticmethod
    def _emit_logs(logs: list[tuple[str, str, dict[str, str]]], emit: Any) -> None:
        for level, msg, extra in logs:
            emit(Level[level], msg, **extra)

    @staticmethod
    def _raise(exc: tuple[str, str]) -> None:
        cls = EXCEPTIONS[exc[0]]
        raise cls(exc[1])

    # -- unary -----------------------------------------------------------
    def _unary(self, name: str, kwargs: dict[str, Any], ctx: CallContext | None) -> Any:
        m = self.scripts[name]
        self._note("unary", name, dict(kwargs), _auth_of(ctx))
        u = m["u"]
        if ctx is not None:
            self._emit_logs(u["logs"], ctx.client_log)
        act = u["act"]
        if act[0] == "return":
            return act[1]
        if act[0] == "echo":
            return kwargs[act[1]]
        if act[0] == "raise":
            self._raise((act[1], act[2]))
        raise AssertionError(act)

    # -- stream init -------------------------------------------------------
    def _init(self, name: str, kwargs: dict[str, Any], ctx: CallContext | None) -> Any:
        m = self.scripts[name]
        self._note("init", name, dict(kwargs), _auth_of(ctx))
        ini = m["init"]
        if ctx is not None:
            self._emit_logs(ini["logs"], ctx.client_log)
        act = ini["act"]
        if act[0] == "raise":
            self._raise((act[1], act[2]))
        if act[0] == "nonstream":
            return 42
        out_schema = schema_of(m["out_cols"])
        state_cls = STATE_CLASSES[m.get("state", "XState" if m["kind"] == "exchange" else "PState")]
        state = state_cls(mname=name)
        header = None
        if m.get("header") and act[0] != "noheader":
            header = Hdr(label=name, n=len(m["steps"]))
        kw: dict[str, Any] = {}
        if m["kind"] == "exchange":
            kw["input_schema"] = schema_of(m["in_cols"])
        if state_cls is PStateCS:
            kw["call_state"] = CallSt(owner=_auth_of(ctx), payload=m.get("cs_payload", "p"))
        return Stream(output_schema=out_schema, state=state, header=header, **kw)

    # -- stream steps ------------------------------------------------------
    def _step(self, state: Any, input: AnnotatedBatch | None, out: OutputCollector, ctx: CallContext) -> None:
        m = self.scripts[state.mname]
        pos = state.pos
        cs = getattr(state, "_cs", None)
        self._note(
            "step",
            state.mname,
            pos,
            _auth_of(ctx),
            None if input is None else (str(input.batch.schema), input.batch.to_pydict()),
            out.remaining_response_bytes,
            None if cs is None else cs.owner,
            id(state),
        )
        h = self.hooks.get("step")
        if h is not None:
            h(state, ctx)
        steps = m["steps"]
        if m["kind"] == "exchange":
            st = steps[min(pos, len(steps) - 1)] if steps else {"logs": [], "act": "emit"}
        else:
            st = steps[pos] if pos < len(steps) else {"logs": [], "act": "finish"}
        state.pos = pos + 1
        self._emit_logs(st.get("logs", []), out.client_log)
        act = st["act"]
        if act == "raise":
            self._raise(st["exc"])
        if act == "nothing":
            return
        if act in ("emit", "emit_finish"):
            if input is not None and m["kind"] == "exchange" and m.get("alias"):
                # pass the input's own columns through (zero-copy, possibly reordered): the emitted batch
                # references the input's buffers until it has been written
                batch = pa.RecordBatch.from_arrays([input.batch.column(c) for c in m["out_cols"]], schema=out.output_schema)
                data = None
            elif input is not None and m["kind"] == "exchange":
                data = _transform(input.batch, m["out_cols"], pos)
            else:
                data = make_rows(state.mname, pos, st.get("rows", 1), m["out_cols"], st.get("pad", 0), bool(st.get("rnd")))
            if data is not None:
                batch = pa.RecordBatch.from_pydict(data, schema=out.output_schema)
            out.emit(batch, metadata=st.get("meta"))
            # optional: logs emitted after the data batch of the step, and a failure after that
            self._emit_logs(st.get("post_logs", []), out.client_log)
            if st.get("raise_after"):
                self._raise(st["raise_after"])
        if act in ("finish", "emit_finish"):
            out.finish()

    def _cancel(self, state: Any, ctx: CallContext) -> None:
        if hasattr(state, "cancelled"):
            state.cancelled += 1
        self._note("cancel", state.mname, state.pos, _auth_of(ctx), id(state))
        # optional: client-directed logs emitted by the cancel hook
        self._emit_logs(self.scripts[state.mname].get("cancel_logs", []), ctx.client_log)


def _auth_of(ctx: CallContext | None) -> str:
    if ctx is None:
        return "?"
    a = ctx.auth
    if not a.authenticated:
        return "anon"
    return f"{a.domain}|{a.principal}"


def make_rows(mname: str, pos: int, rows: int, cols: list[str], pad: int = 0, rnd: bool = False) -> dict[str, list[Any]]:
    """Deterministic rows; ``rnd`` fills the padding of binary columns with seeded pseudo-random (incompressible) bytes."""
    data: dict[str, list[Any]] = {}
    for c in cols:
        k = c[0]
        if k == "b" and rnd:
            data[c] = [bytes([pos % 256, r % 256]) + random.Random(f"{mname}:{pos}:{r}").randbytes(pad) for r in range(rows)]
            continue
        if k == "i":
            data[c] = [pos * 1000 + r for r in range(rows)]
        elif k == "s":
            data[c] = [f"{mname}-{pos}-{r}" + ("x" * pad) for r in range(rows)]
        elif k == "f":
            data[c] = [pos + r / 4 for r in range(rows)]
        elif k == "b":
            data[c] = [bytes([pos % 256, r % 256]) + b"\x00" * pad for r in range(rows)]
        elif k == "n":
            data[c] = [pos - r for r in range(rows)]
    if not cols:
        return {}
    return data


def _transform(batch: pa.RecordBatch, out_cols: list[str], pos: int) -> dict[str, list[Any]]:
    d = batch.to_pydict()
    out: dict[str, list[Any]] = {}
    for c in out_cols:
        vals = d.get(c, [])
        k = c[0]
        if k in ("i", "n"):
            out[c] = [None if v is None else v + pos + 1 for v in vals]
        elif k == "s":
            out[c] = [None if v is None else f"{v}#{pos}" for v in vals]
        elif k == "f":
            out[c] = [None if v is None else v * 2 for v in vals]
        else:
            out[c] = list(vals)
    return out


# ---------------------------------------------------------------------------
# Building Protocol + Impl from a program
# ---------------------------------------------------------------------------

_build_counter = [0]


def build(program: dict[str, Any]) -> tuple[type, ScriptedImpl]:
    """Return (Protocol class, implementation instance) for *program*."""
    ns: dict[str, Any] = tygen.namespace()
    ns.update(
        Protocol=Protocol,
        Stream=Stream,
        ProducerState=ProducerState,
        ExchangeState=ExchangeState,
        StreamState=StreamState,
        CallContext=CallContext,
        ScriptedImpl=ScriptedImpl,
        Hdr=Hdr,
        ClassVar=ClassVar,
        **STATE_CLASSES,
    )
    pname = program.get("name", "GenSvc")
    lines = [f"class {pname}(Protocol):"]
    if program.get("doc"):
        lines.append(f"    {program['doc']!r}")
    if program.get("version") is not None:
        lines.append(f"    protocol_version: ClassVar[str] = {program['version']!r}")
    impl_lines = [f"class {pname}Impl(ScriptedImpl):"]
    defaults: dict[str, Any] = {}
    for m in program["methods"]:
        name = m["name"]
        sig_p = ["self"]
        sig_i = ["self"]
        kw = []
        for p in m["params"]:
            pn, spec = p[0], p[1]
            ann = tygen.src(spec)
            if len(p) > 2 and p[2]:
                dn = f"_D_{name}_{pn}"
                defaults[dn] = p[3]
                sig_p.append(f"{pn}: {ann} = {dn}")
                sig_i.append(f"{pn}: {ann} = {dn}")
            else:
                sig_p.append(f"{pn}: {ann}")
                sig_i.append(f"{pn}: {ann}")
            kw.append(f"{pn!r}: {pn}")
        ctx_arg = "ctx"
        if m.get("noctx"):
            ctx_arg = "None"  # an implementation method that does not ask for a CallContext
        else:
            sig_i.append("ctx: CallContext = None")
        if m["kind"] == "unary":
            ret = "None" if m.get("ret") is None else tygen.src(m["ret"])
            pret = iret = ret
            body = f"return self._unary({name!r}, {{{', '.join(kw)}}}, {ctx_arg})"
        else:
            base = "ExchangeState" if m["kind"] == "exchange" else "ProducerState"
            if m.get("raw_state"):
                base = "StreamState"
            scls = m.get("state", "XState" if m["kind"] == "exchange" else "PState")
            if m.get("union_states"):
                scls = " | ".join(m["union_states"])
            if m.get("header"):
                pret, iret = f"Stream[{base}, Hdr]", f"Stream[{scls}, Hdr]"
            else:
                pret, iret = f"Stream[{base}]", f"Stream[{scls}]"
            body = f"return self._init({name!r}, {{{', '.join(kw)}}}, {ctx_arg})"
        doc = m.get("doc")
        lines.append(f"    def {name}({', '.join(sig_p)}) -> {pret}:")
        if doc:
            lines.append(f"        {doc!r}")
        lines.append("        ...")
        impl_lines.append(f"    def {name}({', '.join(sig_i)}) -> {iret}:")
        impl_lines.append(f"        {body}")
    if not program["methods"]:
        lines.append("    pass")
        impl_lines.append("    pass")
    ns.update(defaults)
    _build_counter[0] += 1
    code = "\n".join(lines) + "\n\n" + "\n".join(impl_lines) + "\n"
    exec(compile(code, f"<svcgen:{pname}:{_build_counter[0]}>", "exec"), ns)  # noqa: S102
    proto = ns[pname]
    impl_cls = ns[f"{pname}Impl"]
    proto.__module__ = "lib.svcgen"
    impl_cls.__module__ = "lib.svcgen"
    impl = impl_cls(program)
    impl._source = code
    return proto, impl


# ---------------------------------------------------------------------------
# Program generation
# ---------------------------------------------------------------------------

_LEVELS = ["ERROR", "WARN", "INFO", "DEBUG", "TRACE"]
_MSGS = ["", "hello", "multi\nline", "üñí", "x" * 200, "{}", "percent %s %d"]
_EXTRA_KEYS = ["k", "detail", "a.b", "level", "message", "self", "server_id", "request_id", "ünï", ""]


def gen_logs(rng: random.Random, maxn: int = 3, *, hostile_keys: bool = False) -> list[tuple[str, str, dict[str, str]]]:
    out = []
    for _ in range(rng.choice([0, 0, 1, 1, 2, maxn])):
        extra: dict[str, str] = {}
        for _ in range(rng.choice([0, 0, 1, 2])):
            keys = _EXTRA_KEYS if hostile_keys else _EXTRA_KEYS[:3] + _EXTRA_KEYS[8:9]
            extra[rng.choice(keys)] = rng.choice(["v", "", "1", "ü", "{}", "x" * 50])
        out.append((rng.choice(_LEVELS), rng.choice(_MSGS), extra))
    return out


def gen_exc(rng: random.Random) -> tuple[str, str]:
    return (
        rng.choice(["ValueError", "RuntimeError", "UserBoom", "KindError", "ZeroDivisionError", "TypeError", "ArrowInvalid"]),
        rng.choice(["boom", "", "üni ¢ode", "multi\nline\nmsg", "x" * 3000, "with 'quotes' \"dq\"", " lead/trail "]),
    )


def gen_method(rng: random.Random, idx: int, *, kinds: tuple[str, ...] = ("unary", "producer", "exchange"), simple_types: bool = True) -> dict[str, Any]:
    kind = rng.choice(kinds)
    name = f"{kind[0]}{idx}"
    params = []
    for j in range(rng.choice([0, 1, 1, 2, 3])):
        spec = rng.choice(tygen.SCALARS) if simple_types else tygen.gen_spec(rng, 1)
        pn = f"p{j}"
        if rng.random() < 0.3:
            params.append((pn, spec, True, tygen.gen_value(spec, rng)))
        else:
            params.append((pn, spec))
    # parameters with defaults must follow those without
    params.sort(key=lambda p: len(p) > 2 and bool(p[2]))
    m: dict[str, Any] = {"name": name, "kind": kind, "params": params}
    if kind == "unary":
        ret = rng.choice([None, ("int",), ("str",), ("float",), ("bytes",), ("bool",), ("opt", ("str",))])
        m["ret"] = ret
        if rng.random() < 0.25:
            act: tuple[Any, ...] = ("raise", *gen_exc(rng))
        elif ret is None:
            act = ("return", None)
        else:
            cands = [p[0] for p in params if p[1] == ret]
            if cands and rng.random() < 0.5:
                act = ("echo", rng.choice(cands))
            else:
                act = ("return", tygen.gen_value(ret, rng))
        m["u"] = {"logs": gen_logs(rng), "act": act}
        return m
    m["header"] = rng.random() < 0.4
    cols = rng.choice([["i"], ["i", "s"], ["s", "f", "i"], [], ["b"], ["i", "n"]])
    m["out_cols"] = cols
    r = rng.random()
    if r < 0.12:
        iact: tuple[Any, ...] = ("raise", *gen_exc(rng))
    else:
        iact = ("ok",)
    m["init"] = {"logs": gen_logs(rng), "act": iact}
    steps = []
    if kind == "producer":
        n = rng.choice([0, 1, 2, 3, 4, 6])
        for _ in range(n):
            a = rng.choice(["emit"] * 6 + ["raise", "emit_finish", "finish"])
            st: dict[str, Any] = {"logs": gen_logs(rng), "act": a}
            if a in ("emit", "emit_finish"):
                st["rows"] = rng.choice([0, 1, 1, 2, 5])
                st["pad"] = rng.choice([0, 0, 0, 50, 400])
                if rng.random() < 0.3:
                    st["meta"] = {rng.choice(["k", "app.key", "ü"]): rng.choice(["v", "", "ü", "x" * 40])}
            if a == "raise":
                st["exc"] = gen_exc(rng)
            steps.append(st)
            if a in ("raise", "emit_finish", "finish"):
                break
    else:
        m["in_cols"] = cols if cols else ["i"]
        m["out_cols"] = m["in_cols"]
        n = rng.choice([1, 2, 3])
        for _ in range(n):
            a = rng.choice(["emit"] * 7 + ["raise"])
            st = {"logs": gen_logs(rng), "act": a}
            if a == "raise":
                st["exc"] = gen_exc(rng)
            if a == "emit" and rng.random() < 0.3:
                st["meta"] = {"k": rng.choice(["v", "ü"])}
            steps.append(st)
    m["steps"] = steps
    return m


def gen_args(m: dict[str, Any], rng: random.Random) -> dict[str, Any]:
    args = {}
    for p in m["params"]:
        if len(p) > 2 and p[2] and rng.random() < 0.5:
            continue
        args[p[0]] = tygen.gen_value(p[1], rng)
    return args


def gen_call(m: dict[str, Any], rng: random.Random) -> dict[str, Any]:
    c: dict[str, Any] = {"m": m["name"], "args": gen_args(m, rng)}
    if m["kind"] == "producer":
        c["take"] = rng.choice([None, None, None, 0, 1, 2])
        c["end"] = "close" if c["take"] is None else rng.choice(["close", "cancel"])
    elif m["kind"] == "exchange":
        n = rng.choice([0, 1, 2, 3, 4])
        c["inputs"] = [make_rows("in", k, rng.choice([0, 1, 2, 3]), m["in_cols"]) for k in range(n)]
        c["end"] = rng.choice(["close", "close", "cancel"])
    return c


def gen_program(rng: random.Random, *, nmethods: int | None = None, ncalls: int | None = None, **kw: Any) -> dict[str, Any]:
    n = nmethods or rng.choice([1, 2, 3, 4, 5])
    methods = [gen_method(rng, i, **kw) for i in range(n)]
    calls = [gen_call(rng.choice(methods), rng) for _ in range(ncalls or rng.choice([1, 2, 3, 5]))]
    return {"name": "GenSvc", "methods": methods, "calls": calls}

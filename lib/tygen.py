"""Type-spec mini language for generated signatures: annotation objects, values, equality.

A *spec* is a nested tuple:
  ("int",) ("float",) ("str",) ("bytes",) ("bool",)
  ("arrow", name)            Annotated[base, ArrowType(...)] for name in ARROW_TYPES
  ("opt", T)  ("list", T)  ("dict", K, V)  ("set", T)
  ("enum", name)             name in ENUMS
  ("dc", name)               name in DATACLASSES (nested ArrowSerializableDataclass)
"""

from __future__ import annotations

import datetime as dt
import decimal
import math
import random
import struct
from dataclasses import dataclass, field, fields, is_dataclass
from enum import Enum
from typing import Annotated, Any

import pyarrow as pa

from vgi_rpc.utils import ArrowSerializableDataclass, ArrowType

Spec = tuple[Any, ...]


class Color(Enum):
    RED = "red"
    GREEN = "green"
    BLUE = "bleu"


class Level3(Enum):
    LOW = 1
    MID = 2
    HIGH = 30


class Odd(Enum):
    A = "B"
    B = "A"
    SPACE = "with space"


ENUMS: dict[str, type[Enum]] = {"Color": Color, "Level3": Level3, "Odd": Odd}


@dataclass(frozen=True)
class Point(ArrowSerializableDataclass):
    x: int
    y: float


@dataclass(frozen=True)
class Named(ArrowSerializableDataclass):
    name: str
    tags: list[str]
    color: Color | None = None
    blob: bytes = b""


@dataclass(frozen=True)
class Outer(ArrowSerializableDataclass):
    p: Point
    label: str | None
    pts: list[Point] = field(default_factory=list)


@dataclass(frozen=True)
class Point3(Point):
    """A dataclass extending another serializable dataclass (inherits x, y; adds fields of its own)."""

    z: int = 0
    tag: str = ""
    weight: float | None = None


DATACLASSES: dict[str, type] = {"Point": Point, "Named": Named, "Outer": Outer, "Point3": Point3}

ARROW_TYPES: dict[str, tuple[type, pa.DataType]] = {
    "int8": (int, pa.int8()),
    "int16": (int, pa.int16()),
    "int32": (int, pa.int32()),
    "uint8": (int, pa.uint8()),
    "uint16": (int, pa.uint16()),
    "uint32": (int, pa.uint32()),
    "uint64": (int, pa.uint64()),
    "float32": (float, pa.float32()),
    "date32": (dt.date, pa.date32()),
    "timestamp_us": (dt.datetime, pa.timestamp("us")),
    "timestamp_us_utc": (dt.datetime, pa.timestamp("us", tz="UTC")),
    "duration_us": (dt.timedelta, pa.duration("us")),
    "time64_us": (dt.time, pa.time64("us")),
    "decimal_10_2": (decimal.Decimal, pa.decimal128(10, 2)),
    "large_string": (str, pa.large_string()),
    "large_binary": (bytes, pa.large_binary()),
}

INT_RANGES = {
    "int8": (-(2**7), 2**7 - 1),
    "int16": (-(2**15), 2**15 - 1),
    "int32": (-(2**31), 2**31 - 1),
    "uint8": (0, 2**8 - 1),
    "uint16": (0, 2**16 - 1),
    "uint32": (0, 2**32 - 1),
    "uint64": (0, 2**64 - 1),
    "int": (-(2**63), 2**63 - 1),
}

SCALARS: list[Spec] = [("int",), ("float",), ("str",), ("bytes",), ("bool",)]
HASHABLE_SCALARS: list[Spec] = [("int",), ("str",), ("bytes",), ("bool",)]


def resolve(spec: Spec) -> Any:
    """Return the annotation object for *spec*."""
    k = spec[0]
    if k == "int":
        return int
    if k == "float":
        return float
    if k == "str":
        return str
    if k == "bytes":
        return bytes
    if k == "bool":
        return bool
    if k == "arrow":
        base, at = ARROW_TYPES[spec[1]]
        return Annotated[base, ArrowType(at)]
    if k == "opt":
        return resolve(spec[1]) | None
    if k == "list":
        return list[resolve(spec[1])]  # type: ignore[misc]
    if k == "set":
        return frozenset[resolve(spec[1])]  # type: ignore[misc]
    if k == "dict":
        return dict[resolve(spec[1]), resolve(spec[2])]  # type: ignore[misc]
    if k == "enum":
        return ENUMS[spec[1]]
    if k == "dc":
        return DATACLASSES[spec[1]]
    raise ValueError(spec)


def src(spec: Spec) -> str:
    """Python source expression for the annotation (names resolved in NAMESPACE)."""
    k = spec[0]
    if k in ("int", "float", "str", "bytes", "bool"):
        return k
    if k == "arrow":
        return f"AT_{spec[1]}"
    if k == "opt":
        return f"({src(spec[1])}) | None"
    if k == "list":
        return f"list[{src(spec[1])}]"
    if k == "set":
        return f"frozenset[{src(spec[1])}]"
    if k == "dict":
        return f"dict[{src(spec[1])}, {src(spec[2])}]"
    if k == "enum":
        return spec[1]
    if k == "dc":
        return spec[1]
    raise ValueError(spec)


def namespace() -> dict[str, Any]:
    ns: dict[str, Any] = dict(ENUMS)
    ns.update(DATACLASSES)
    for name in ARROW_TYPES:
        ns[f"AT_{name}"] = resolve(("arrow", name))
    return ns


# ---------------------------------------------------------------------------
# generation
# ---------------------------------------------------------------------------

_STRINGS = ["", "a", "héllo", "日本語", "\x00nul", "x" * 300, "line1\nline2", "😀", " lead", "trail ", "á"]
_BYTES = [b"", b"\x00", b"\xff\xfe", b"abc", bytes(range(256)), b"\x00" * 70]
_FLOATS = [0.0, -0.0, 1.5, -2.25, math.inf, -math.inf, math.nan, 1e308, 5e-324, 1.0000001, 3.4028235e38, 1e-40]


def gen_spec(rng: random.Random, depth: int = 2, *, param: bool = True) -> Spec:
    """Random spec; *depth* bounds container nesting."""
    choices = ["scalar"] * 5 + ["arrow"] * 3 + ["enum", "opt"]
    if depth > 0:
        choices += ["list", "dict", "set", "dc", "opt"]
    c = rng.choice(choices)
    if c == "scalar":
        return rng.choice(SCALARS)
    if c == "arrow":
        return ("arrow", rng.choice(sorted(ARROW_TYPES)))
    if c == "enum":
        return ("enum", rng.choice(sorted(ENUMS)))
    if c == "opt":
        inner = gen_spec(rng, depth - 1, param=param)
        return inner if inner[0] == "opt" else ("opt", inner)
    if c == "list":
        inner = gen_spec(rng, 0, param=param)
        return ("list", inner[1] if inner[0] == "opt" else inner)
    if c == "set":
        return ("set", rng.choice(HASHABLE_SCALARS + [("arrow", "int32"), ("arrow", "uint64")]))
    if c == "dict":
        return ("dict", rng.choice([("str",), ("int",), ("arrow", "int16")]), rng.choice(SCALARS + [("arrow", "float32")]))
    return ("dc", rng.choice(sorted(DATACLASSES)))


def gen_value(spec: Spec, rng: random.Random) -> Any:
    """Boundary-biased representable value of *spec*."""
    k = spec[0]
    if k == "int":
        lo, hi = INT_RANGES["int"]
        return rng.choice([0, 1, -1, lo, hi, lo + 1, hi - 1, rng.randint(-1000, 1000), rng.randint(lo, hi)])
    if k == "float":
        return rng.choice([*_FLOATS, rng.uniform(-1e6, 1e6)])
    if k == "str":
        return rng.choice([*_STRINGS, "".join(chr(rng.choice([65, 0x20AC, 0x1F600, 10, 0x7F])) for _ in range(rng.randint(0, 6)))])
    if k == "bytes":
        return rng.choice([*_BYTES, rng.randbytes(rng.randint(0, 40))])
    if k == "bool":
        return rng.random() < 0.5
    if k == "arrow":
        name = spec[1]
        if name in INT_RANGES:
            lo, hi = INT_RANGES[name]
            return rng.choice([lo, hi, 0, min(hi, 1), max(lo, -1) if lo < 0 else 0, rng.randint(lo, hi)])
        if name == "float32":
            vals = [0.0, -0.0, 1.5, -2.25, math.inf, -math.inf, math.nan, 3.4028234663852886e38, 1.401298464324817e-45, 0.1]
            v = rng.choice(vals)
            return struct.unpack("f", struct.pack("f", v))[0] if not (math.isnan(v) or math.isinf(v)) else v
        if name == "date32":
            return rng.choice([dt.date(1970, 1, 1), dt.date(1, 1, 1), dt.date(9999, 12, 31), dt.date(2024, 2, 29)])
        if name == "timestamp_us":
            return rng.choice([dt.datetime(1970, 1, 1), dt.datetime(2024, 2, 29, 23, 59, 59, 999999), dt.datetime(1, 1, 1), dt.datetime(9999, 12, 31, 23, 59, 59, 999999)])
        if name == "timestamp_us_utc":
            return rng.choice(
                [dt.datetime(1970, 1, 1, tzinfo=dt.UTC), dt.datetime(2024, 2, 29, 12, 0, 0, 123456, tzinfo=dt.UTC)]
            )
        if name == "duration_us":
            return rng.choice([dt.timedelta(0), dt.timedelta(microseconds=1), dt.timedelta(days=-3, seconds=5), dt.timedelta(days=99999)])
        if name == "time64_us":
            return rng.choice([dt.time(0, 0), dt.time(23, 59, 59, 999999), dt.time(12, 30, 15, 5)])
        if name == "decimal_10_2":
            return rng.choice([decimal.Decimal("0.00"), decimal.Decimal("-1.50"), decimal.Decimal("99999999.99"), decimal.Decimal("-99999999.99"), decimal.Decimal("3.14")])
        if name == "large_string":
            return rng.choice(_STRINGS)
        if name == "large_binary":
            return rng.choice(_BYTES)
    if k == "opt":
        return None if rng.random() < 0.35 else gen_value(spec[1], rng)
    if k == "list":
        return [gen_value(spec[1], rng) for _ in range(rng.choice([0, 0, 1, 2, 5]))]
    if k == "set":
        out = set()
        for _ in range(rng.choice([0, 1, 3, 6])):
            v = gen_value(spec[1], rng)
            out.add(v)
        return frozenset(out)
    if k == "dict":
        d: dict[Any, Any] = {}
        for _ in range(rng.choice([0, 1, 3])):
            d[gen_value(spec[1], rng)] = gen_value(spec[2], rng)
        return d
    if k == "enum":
        return rng.choice(list(ENUMS[spec[1]]))
    if k == "dc":
        if spec[1] == "Point":
            return Point(x=gen_value(("int",), rng), y=gen_value(("float",), rng))
        if spec[1] == "Point3":
            # the base class is serialised first in the same process (a derived class must not reuse anything cached for it)
            Point(x=1, y=2.0).serialize_to_bytes()
            return Point3(x=gen_value(("int",), rng), y=gen_value(("float",), rng), z=gen_value(("int",), rng), tag=gen_value(("str",), rng), weight=gen_value(("opt", ("float",)), rng))
        if spec[1] == "Named":
            return Named(
                name=gen_value(("str",), rng),
                tags=gen_value(("list", ("str",)), rng),
                color=gen_value(("opt", ("enum", "Color")), rng),
                blob=gen_value(("bytes",), rng),
            )
        if spec[1] == "Outer":
            return Outer(
                p=gen_value(("dc", "Point"), rng),
                label=gen_value(("opt", ("str",)), rng),
                pts=[gen_value(("dc", "Point"), rng) for _ in range(rng.choice([0, 1, 3]))],
            )
    raise ValueError(spec)


def gen_unrepresentable(spec: Spec, rng: random.Random) -> Any | None:
    """A value of the python base type that the declared Arrow width cannot hold (or None)."""
    k = spec[0]
    if k == "int":
        return rng.choice([2**63, -(2**63) - 1, 2**70])
    if k == "arrow" and spec[1] in INT_RANGES:
        lo, hi = INT_RANGES[spec[1]]
        return rng.choice([hi + 1, lo - 1])
    if k == "str":
        return "lone\ud800surrogate"
    if k == "arrow" and spec[1] == "decimal_10_2":
        return decimal.Decimal("123456789012.34")
    if k == "opt":
        return gen_unrepresentable(spec[1], rng)
    return None


# ---------------------------------------------------------------------------
# equality
# ---------------------------------------------------------------------------


def veq(a: Any, b: Any) -> bool:
    """Type-aware structural equality: NaN == NaN, -0.0 != +0.0, bool is not int."""
    if a is None or b is None:
        return a is None and b is None
    if isinstance(a, bool) or isinstance(b, bool):
        return isinstance(a, bool) and isinstance(b, bool) and a == b
    if isinstance(a, float) and isinstance(b, float):
        if math.isnan(a) or math.isnan(b):
            return math.isnan(a) and math.isnan(b)
        return struct.pack("d", a) == struct.pack("d", b)
    if isinstance(a, Enum) or isinstance(b, Enum):
        return a is b
    if is_dataclass(a) and not isinstance(a, type):
        if type(a) is not type(b):
            return False
        return all(veq(getattr(a, f.name), getattr(b, f.name)) for f in fields(a))
    if isinstance(a, (list, tuple)):
        return isinstance(b, (list, tuple)) and type(a) is type(b) and len(a) == len(b) and all(veq(x, y) for x, y in zip(a, b, strict=True))
    if isinstance(a, (set, frozenset)):
        if not isinstance(b, (set, frozenset)) or len(a) != len(b):
            return False
        rest = list(b)
        for x in a:
            for i, y in enumerate(rest):
                if veq(x, y):
                    del rest[i]
                    break
            else:
                return False
        return True
    if isinstance(a, dict):
        if not isinstance(b, dict) or len(a) != len(b):
            return False
        items = list(b.items())
        for k, v in a.items():
            for i, (k2, v2) in enumerate(items):
                if veq(k, k2) and veq(v, v2):
                    del items[i]
                    break
            else:
                return False
        return True
    if isinstance(a, pa.Schema):
        return isinstance(b, pa.Schema) and a.equals(b, check_metadata=True)
    if isinstance(a, pa.RecordBatch):
        return isinstance(b, pa.RecordBatch) and a.schema.equals(b.schema, check_metadata=True) and a.equals(b)
    if type(a) is not type(b):
        # int vs float etc. are different; str vs str subclasses etc. are not generated
        return False
    return bool(a == b)


def f32(v: float) -> float:
    """Nearest float32 (as a python float); inf on overflow."""
    if math.isnan(v) or math.isinf(v):
        return v
    try:
        return float(struct.unpack("f", struct.pack("f", v))[0])
    except OverflowError:
        return math.copysign(math.inf, v)

"""Worker process entry: rebuild the generated service from a pickled program and serve it.

usage: svcworker.py <program.pkl> <invlog|-> [--unix PATH | --tcp PORT | --http] [--threaded] [--idle-timeout S]
Without a transport flag it serves stdin/stdout (SubprocessTransport / WorkerPool).
"""

from __future__ import annotations

import os
import pickle
import sys

ROOT = os.path.dirname(os.path.dirname(os.path.abspath(__file__)))
if ROOT not in sys.path:
    sys.path.insert(0, ROOT)


def main() -> int:
    pf, invlog = sys.argv[1], sys.argv[2]
    rest = sys.argv[3:]
    if invlog != "-":
        os.environ["VERIF_INVLOG"] = invlog
    from lib import svcgen
    from vgi_rpc.rpc import RpcServer, serve_stdio, serve_tcp, serve_unix

    with open(pf, "rb") as fh:
        program = pickle.load(fh)
    proto, impl = svcgen.build(program)
    server = RpcServer(proto, impl, enable_describe=True)
    threaded = "--threaded" in rest
    idle = None
    if "--idle-timeout" in rest:
        idle = float(rest[rest.index("--idle-timeout") + 1])
    if "--unix" in rest:
        path = rest[rest.index("--unix") + 1]
        serve_unix(server, path, threaded=threaded, idle_timeout=idle, on_bound=lambda p: print(f"UNIX:{p}", flush=True))
    elif "--tcp" in rest:
        port = int(rest[rest.index("--tcp") + 1])
        serve_tcp(server, "127.0.0.1", port, threaded=threaded, idle_timeout=idle, on_bound=lambda h, p: print(f"TCP:{h}:{p}", flush=True))
    else:
        serve_stdio(server)
    return 0


if __name__ == "__main__":
    sys.exit(main())

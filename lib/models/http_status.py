"""Reference model: HTTP status / body-shape map for RPC routes (C15, C17).

Written from docs/WIRE_PROTOCOL.md section 10 ("Content type", "Request headers",
"Content-encoding negotiation / Requests", "Unary call (HTTP)") and section 13
("HTTP status code mapping" + its closing note), and from the C15 / C17 property
statements.  Nothing here is derived from the implementation.

A request is described by the *set of defects* the generator deliberately built
into it (a defect is a reason the spec gives for refusing the request).  The
spec fixes the status of every defect but not the order in which a server has
to look for them, so for a request with several defects every one of their
statuses is admissible; with none the call must be dispatched and answered 200.
A 5xx is never admissible for client-controlled input.
"""

from __future__ import annotations

ARROW_CT = "application/vnd.apache.arrow.stream"

# defect -> status, one line per row of the section 13 table / section 10 text
DEFECT_STATUS: dict[str, int] = {
    # "Authentication failure (including proxy proof) | 401"
    "auth_failure": 401,
    # "The server MUST reject requests with any other Content-Type with HTTP 415"
    "content_type_wrong": 415,
    "content_type_missing": 415,
    # "A server that does not support the named coding MUST answer 415"
    "encoding_unsupported": 415,
    # "A body that names a supported coding but fails to decompress is 400"
    "encoding_corrupt": 400,
    # "applies both to the encoded HTTP body and independently to the decoded body ...; either limit is a 413"
    "oversize_wire": 413,
    "oversize_decoded": 413,
    # "Unknown method | 404"
    "method_unknown": 404,
    # "Bad IPC, missing metadata, request-version mismatch, param validation | 400"
    "ipc_malformed": 400,
    "ipc_no_batch": 400,
    "metadata_method_missing": 400,
    # "The method name in the URL path MUST match ... A mismatch is a 400 error."
    "metadata_method_mismatch": 400,
    "metadata_version_missing": 400,
    "metadata_version_wrong": 400,
    "param_rejected": 400,
    # "protocol_version mismatch | 400"
    "protocol_version_mismatch": 400,
    # "Expired, tampered, or unresolvable state token | 400"; "MUST contain vgi_rpc.stream_state#b64"
    "token_missing": 400,
    "token_tampered": 400,
    "token_garbage": 400,
    "token_expired": 400,
    "call_token_unresolvable": 400,
}

# The statement lists "stream-vs-unary mismatched" methods in the quantifier but
# neither it nor section 13 names their status: the method exists (so "unknown
# method" does not literally apply) yet the addressed endpoint does not.  Both
# readings are admitted.
AMBIGUOUS_DEFECTS: dict[str, frozenset[int]] = {
    "method_kind_mismatch": frozenset({400, 404}),
}

# Statuses whose body is NOT required to be Arrow IPC (section 13 note).
NON_ARROW_STATUSES = frozenset({401, 415})


def admissible(defects: frozenset[str] | set[str] | list[str] | tuple[str, ...], *, maybe_valid: bool = False) -> frozenset[int]:
    """Statuses the spec admits for a request carrying exactly *defects*.

    ``maybe_valid`` is for mutated bodies that an independent Arrow reader still
    accepts (a flipped bit inside a data buffer): the request may be a valid call.
    """
    out: set[int] = set()
    for d in defects:
        if d in AMBIGUOUS_DEFECTS:
            out |= AMBIGUOUS_DEFECTS[d]
        else:
            out.add(DEFECT_STATUS[d])
    if not defects or maybe_valid:
        out.add(200)
    return frozenset(out)


def must_be_arrow(status: int) -> bool:
    """Section 13 note + statement: every response other than 401 and 415 has an Arrow IPC body."""
    return status not in NON_ARROW_STATUSES


def is_5xx(status: int) -> bool:
    return 500 <= status <= 599


def signature(defects: frozenset[str] | set[str] | list[str] | tuple[str, ...]) -> str:
    """Stable mechanism-key fragment for a defect set."""
    return "+".join(sorted(defects)) if defects else "none"


# ---------------------------------------------------------------------------
# C17: request size / content-decoding model
# ---------------------------------------------------------------------------

SUPPORTED_CODINGS = ("zstd", "gzip", "identity")  # "Codec tokens are the usual HTTP ones - zstd, gzip, and identity"


def coding_of(header_value: str | None) -> str | None:
    """The coding named by a Content-Encoding header, lower-cased (HTTP coding names are case-insensitive).

    None / empty -> no coding.  Anything that is not exactly one token is returned
    verbatim (lower-cased) and is therefore 'unknown'.
    """
    if header_value is None:
        return None
    v = header_value.strip().lower()
    return v or None


def size_defects(
    *,
    coding: str | None,
    enabled: tuple[str, ...],
    wire_len: int,
    decoded_len: int | None,
    cap: int | None,
    frame_honest: bool = True,
) -> tuple[frozenset[str], frozenset[int] | None]:
    """Defects of a request as far as size caps and content decoding go.

    decoded_len is None when the body cannot be decoded by the named coding.
    Returns (defects, extra_admissible): extra_admissible is a set of statuses
    that are *also* acceptable because the frame lies about itself (a frame whose
    declared content size disagrees with its content is both 'undecodable' and,
    when the larger of the two figures exceeds the cap, 'oversize').
    """
    defects: set[str] = set()
    extra: set[int] = set()
    if coding is not None and coding not in enabled:
        defects.add("encoding_unsupported")
    if cap is not None and wire_len > cap:
        defects.add("oversize_wire")
    if coding is not None and coding in enabled:
        if decoded_len is None:
            defects.add("encoding_corrupt")
        elif cap is not None and decoded_len > cap:
            defects.add("oversize_decoded")
        if not frame_honest:
            extra.add(400)
            if cap is not None:
                extra.add(413)
    return frozenset(defects), (frozenset(extra) if extra else None)

"""E5 reference model for C09 - the protocol-version gate.

Written from the property statement and docs/WIRE_PROTOCOL.md section 13 only:

* canonical version = MAJOR.MINOR.PATCH, non-negative decimal integers written with
  ASCII digits, no leading zeros, nothing before or after (no prerelease, no build
  metadata, no whitespace);
* a service that declares a version dispatches a call iff the client metadata value is
  present, decodes as UTF-8, is canonical, and has the same major and minor;
* ``__describe__`` is never gated; a service that declares no version never checks;
* a refusal names both versions and the side to upgrade (the older one).
"""

from __future__ import annotations

DIGITS = "0123456789"


def parse_component(s: str) -> int | None:
    if s == "" or any(c not in DIGITS for c in s):
        return None
    if len(s) > 1 and s[0] == "0":
        return None
    # int() of pure ASCII digits; avoid Python's int-string digit limit for absurd lengths
    if len(s) > 4000:
        return None
    return int(s)


def parse_canonical(s: str) -> tuple[int, int, int] | None:
    """Return (major, minor, patch) iff *s* is a canonical MAJOR.MINOR.PATCH string."""
    parts = s.split(".")
    if len(parts) != 3:
        return None
    out = []
    for p in parts:
        v = parse_component(p)
        if v is None:
            return None
        out.append(v)
    return (out[0], out[1], out[2])


def classify_client(value: bytes | None) -> tuple[str, tuple[int, int, int] | None]:
    """('absent'|'non_utf8'|'malformed'|'canonical', parsed)."""
    if value is None:
        return "absent", None
    try:
        s = value.decode("utf-8")
    except UnicodeDecodeError:
        return "non_utf8", None
    p = parse_canonical(s)
    if p is None:
        return "malformed", None
    return "canonical", p


def admits(server_version: str | None, client_value: bytes | None, method: str) -> bool:
    """Must the call be dispatched?"""
    if server_version is None:
        return True
    if method == "__describe__":
        return True
    sp = parse_canonical(server_version)
    assert sp is not None, "harness must declare canonical server versions"
    kind, cp = classify_client(client_value)
    if kind != "canonical" or cp is None:
        return False
    return cp[:2] == sp[:2]


def side_to_upgrade(server_version: str, client_value: bytes | None) -> str | None:
    """'client' / 'server' for two canonical versions that differ in major.minor, else None."""
    sp = parse_canonical(server_version)
    kind, cp = classify_client(client_value)
    if sp is None or kind != "canonical" or cp is None or cp[:2] == sp[:2]:
        return None
    return "client" if cp[:2] < sp[:2] else "server"

"""Reference model of the shared-memory segment allocator (C28).

Written from ``docs/WIRE_PROTOCOL.md`` section 11 ("Segment header format",
"Allocation strategy") and the property statement - not from ``vgi_rpc/shm.py``:

* the segment starts with a 65 536-byte header; the data region is
  ``[65536, 65536 + data_size)``; ``data_size`` is the uint64 at byte 8;
* ``num_allocs`` is the uint32 at byte 16, entries ``(offset: u64, length: u64)``
  follow from byte 24, little-endian, sorted by offset, offsets absolute;
* at most ``(65536 - 24) // 16 = 4094`` entries;
* allocation is first-fit over the gaps before the first entry, between
  consecutive entries and after the last entry; freeing removes the entry.

The model is a *tracking* model: ``place()`` records wherever the real
allocator put a region after checking that the placement is legal (inside one
free gap).  ``first_fit()`` says where the documented strategy would have put
it, ``max_gap()`` decides whether a refusal was justified.
"""

from __future__ import annotations

import struct

HEADER_BYTES = 65536
FIXED_FIELDS = 24
ENTRY_BYTES = 16
MAX_ENTRIES = (HEADER_BYTES - FIXED_FIELDS) // ENTRY_BYTES  # 4094
MAGIC = b"VGIS"


class HeaderView:
    """Decoded header of a segment (spec layout), independent of the code under test."""

    __slots__ = ("data_size", "entries", "magic", "num", "padding", "version")

    def __init__(self, buf: memoryview | bytes | bytearray) -> None:
        self.magic, self.version, self.data_size, self.num, self.padding = struct.unpack_from("<4sIQII", buf, 0)
        n = min(self.num, MAX_ENTRIES)  # never read past the header even if the count is corrupt
        flat = struct.unpack_from(f"<{2 * n}Q", buf, FIXED_FIELDS) if n else ()
        self.entries: list[tuple[int, int]] = [(flat[i], flat[i + 1]) for i in range(0, 2 * n, 2)]


def structural_defect(buf: memoryview | bytes | bytearray) -> str | None:
    """Return a short name of the first structural defect of the header table, or None.

    Checked: count within 4094, every entry has positive length, lies in the data
    region, entries strictly ordered by offset and pairwise disjoint.
    """
    h = HeaderView(buf)
    if h.magic != MAGIC:
        return "bad_magic"
    if h.num > MAX_ENTRIES:
        return "more_than_4094_entries"
    end = HEADER_BYTES + h.data_size
    prev_end = HEADER_BYTES
    prev_off = -1
    for off, length in h.entries:
        if length <= 0:
            return "non_positive_length"
        if off <= prev_off:
            return "not_sorted"
        if off < HEADER_BYTES:
            return "entry_inside_header"
        if off < prev_end:
            return "overlap"
        if off + length > end:
            return "entry_past_data_region"
        prev_off = off
        prev_end = off + length
    return None


class AllocModel:
    """Set of live regions of one segment, kept sorted by offset."""

    def __init__(self, data_size: int) -> None:
        self.data_size = data_size
        self.end = HEADER_BYTES + data_size
        self.live: list[tuple[int, int]] = []

    def copy(self) -> AllocModel:
        m = AllocModel(self.data_size)
        m.live = list(self.live)
        return m

    # -- gaps ---------------------------------------------------------------
    def gaps(self) -> list[tuple[int, int]]:
        """Free gaps as (start, length), in address order, zero-length ones omitted."""
        out = []
        prev = HEADER_BYTES
        for off, length in self.live:
            if off > prev:
                out.append((prev, off - prev))
            prev = off + length
        if self.end > prev:
            out.append((prev, self.end - prev))
        return out

    def max_gap(self) -> int:
        return max((g[1] for g in self.gaps()), default=0)

    def first_fit(self, size: int) -> int | None:
        """Offset the documented first-fit strategy yields (ignoring the entry limit)."""
        for start, length in self.gaps():
            if length >= size:
                return start
        return None

    def full(self) -> bool:
        return len(self.live) >= MAX_ENTRIES

    # -- transitions ----------------------------------------------------------
    def legal_placement(self, offset: int, size: int) -> bool:
        """True when [offset, offset+size) lies entirely inside one free gap."""
        if size <= 0:
            return False
        return any(start <= offset and offset + size <= start + length for start, length in self.gaps())

    def place(self, offset: int, size: int) -> None:
        # insert keeping order (binary search not needed at these sizes, but cheap)
        lo, hi = 0, len(self.live)
        while lo < hi:
            mid = (lo + hi) // 2
            if self.live[mid][0] < offset:
                lo = mid + 1
            else:
                hi = mid
        self.live.insert(lo, (offset, size))

    def free(self, offset: int) -> None:
        for i, (off, _) in enumerate(self.live):
            if off == offset:
                del self.live[i]
                return
        raise KeyError(offset)

"""A small sticky-session service for C25 (written from docs/sticky-sessions-spec.md section 4).

Imported only from inside check functions (it imports ``vgi_rpc`` at module level so
that the Protocol's annotations resolve through ``typing.get_type_hints``).
"""

from __future__ import annotations

from typing import Any, Protocol

from vgi_rpc.rpc import CallContext


class Counter:
    """Session state: a counter that logs its own close() calls."""

    def __init__(self, value: int, log: list[tuple[Any, ...]], sid: int) -> None:
        self.value = value
        self.closed = 0
        self.sid = sid
        self._log = log

    def close(self) -> None:
        self.closed += 1
        self._log.append(("state_close", self.sid))


def _who(ctx: CallContext) -> str:
    a = ctx.auth
    return "anon" if not a.authenticated else f"{a.domain}|{a.principal}"


class StickySvc(Protocol):
    """Sticky-session counter service."""

    def open(self, initial: int, ttl: float) -> int:
        """Open a session holding a counter."""
        ...

    def incr(self, by: int) -> int:
        """Add to the bound counter."""
        ...

    def close_it(self) -> int:
        """Close the bound session."""
        ...

    def plain(self, x: int) -> int:
        """A method that never touches the session."""
        ...


class StickyImpl:
    def __init__(self) -> None:
        self.inv: list[tuple[Any, ...]] = []
        self.states: list[Counter] = []

    def open(self, initial: int, ttl: float, ctx: CallContext) -> int:
        st = Counter(initial, self.inv, len(self.states))
        self.states.append(st)
        self.inv.append(("open", st.sid, _who(ctx)))
        ctx.open_session(st, ttl=None if ttl <= 0 else ttl)
        return st.sid

    def incr(self, by: int, ctx: CallContext) -> int:
        c = ctx.session
        self.inv.append(("incr", None if c is None else c.sid, _who(ctx), by))
        if c is None:
            raise RuntimeError("no session bound")
        c.value += by
        return int(c.value)

    def close_it(self, ctx: CallContext) -> int:
        c = ctx.session
        self.inv.append(("close_it", None if c is None else c.sid, _who(ctx)))
        if c is None:
            raise RuntimeError("no session bound")
        ctx.close_session()
        return int(c.value)

    def plain(self, x: int, ctx: CallContext) -> int:
        c = ctx.session
        self.inv.append(("plain", None if c is None else c.sid, _who(ctx), x))
        return x

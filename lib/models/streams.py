"""Reference model of the stream lifecycle (C10 / C11) and boundary recorders shared by C10, C11, C16.

The *model* half is written from the property statements and ``docs/WIRE_PROTOCOL.md``
(stream sections), never from the implementation:

* a producer step either emits one batch, emits and finishes, finishes, raises, or
  does nothing (the spec requires exactly one data batch per non-finishing step, so
  "nothing" is an error);  the client must see exactly the emitted batches in order
  and the end exactly at the finishing step;
* an exchange answers every input with exactly one output and may not finish;
* inputs are coerced to the declared schema when the field *set* matches and are
  rejected otherwise.

The *recorder* half observes the real code at its boundaries without touching it:
``Tee`` records every byte a socket/pipe server writes, ``RecClient`` is an HTTP
client object (the shape ``http_connect(client=...)`` accepts) that drives the WSGI
app through ``lib.httpdrv`` and keeps the raw body of every turn.
"""

from __future__ import annotations

import contextlib
import io
import threading
from collections.abc import Iterator
from typing import Any
from urllib.parse import urlparse

import pyarrow as pa
from pyarrow import ipc

from lib import httpdrv, svcgen

TOKEN_KEY = b"verif-shared-token-key-000000000"[:32]
STATE_KEY = "vgi_rpc.stream_state#b64"
CALL_STATE_KEY = "vgi_rpc.call_state#b64"
LOG_LEVEL_KEY = "vgi_rpc.log_level"
LOCATION_KEY = "vgi_rpc.location"

NO_DATA_MSG = "No data batch was emitted"
FINISH_REFUSED_MSG = "finish() is not allowed on exchange streams"


# ---------------------------------------------------------------------------
# normalisation
# ---------------------------------------------------------------------------


def user_meta(cm: Any) -> dict[str, str]:
    out: dict[str, str] = {}
    if cm is None:
        return out
    for k, v in cm.items():
        ks = k.decode(errors="replace") if isinstance(k, bytes) else str(k)
        if ks.startswith("vgi_rpc."):
            continue
        out[ks] = v.decode(errors="replace") if isinstance(v, bytes) else str(v)
    return out


def norm_rb(batch: pa.RecordBatch, cm: Any = None) -> dict[str, Any]:
    return {"schema": str(batch.schema), "rows": batch.num_rows, "data": batch.to_pydict(), "meta": user_meta(cm)}


def expected_emit(mname: str, pos: int, st: dict[str, Any], out_cols: list[str]) -> dict[str, Any]:
    """What a producer step at *pos* puts on the stream (statement: 'exactly the data batches the producer emitted')."""
    schema = svcgen.schema_of(out_cols)
    data = svcgen.make_rows(mname, pos, st.get("rows", 1), out_cols, st.get("pad", 0))
    rb = pa.RecordBatch.from_pydict(data, schema=schema)
    return {"schema": str(schema), "rows": rb.num_rows, "data": rb.to_pydict(), "meta": dict(st.get("meta") or {})}


# ---------------------------------------------------------------------------
# reference models
# ---------------------------------------------------------------------------


def model_producer(m: dict[str, Any]) -> list[list[Any]]:
    """Full client-visible event list of a producer that is iterated to the end.

    Events: ["batch", norm] ... then exactly one of ["end"] / ["error", type, message].
    """
    ev: list[list[Any]] = []
    for pos, st in enumerate(m["steps"]):
        act = st["act"]
        if act == "emit":
            ev.append(["batch", expected_emit(m["name"], pos, st, m["out_cols"])])
        elif act == "emit_finish":
            ev.append(["batch", expected_emit(m["name"], pos, st, m["out_cols"])])
            ev.append(["end"])
            return ev
        elif act == "finish":
            ev.append(["end"])
            return ev
        elif act == "raise":
            ev.append(["error", st["exc"][0], st["exc"][1]])
            return ev
        elif act == "nothing":
            ev.append(["error", "RuntimeError", NO_DATA_MSG])
            return ev
        else:  # pragma: no cover
            raise AssertionError(act)
    ev.append(["end"])  # past the script the scripted state finishes
    return ev


def model_exchange_step(m: dict[str, Any], k: int, canon_input: dict[str, list[Any]]) -> list[Any]:
    """Outcome of the k-th accepted input of an exchange (exactly one output per input, finish refused)."""
    steps = m["steps"]
    st = steps[min(k, len(steps) - 1)] if steps else {"act": "emit"}
    act = st["act"]
    if act == "emit":
        schema = svcgen.schema_of(m["out_cols"])
        data = svcgen._transform(pa.RecordBatch.from_pydict(canon_input, schema=svcgen.schema_of(m["in_cols"])), m["out_cols"], k)
        rb = pa.RecordBatch.from_pydict(data, schema=schema)
        return ["batch", {"schema": str(schema), "rows": rb.num_rows, "data": rb.to_pydict(), "meta": dict(st.get("meta") or {})}]
    if act == "raise":
        return ["error", st["exc"][0], st["exc"][1]]
    if act == "nothing":
        return ["error", "RuntimeError", NO_DATA_MSG]
    if act in ("finish", "emit_finish"):
        return ["error", "RuntimeError", FINISH_REFUSED_MSG]
    raise AssertionError(act)


# ---------------------------------------------------------------------------
# input-schema perturbations (C10)
# ---------------------------------------------------------------------------

_WIDER = {"i": pa.int32(), "f": pa.float32(), "s": pa.large_string(), "n": pa.int16(), "b": pa.large_binary()}
COERCIBLE = ("reorder", "retype", "nonnull", "reorder_retype")
REJECTED = ("extra", "missing", "rename")


def perturb_input(kind: str, in_cols: list[str], data: dict[str, list[Any]]) -> pa.RecordBatch | None:
    """Build the input batch for perturbation *kind*; None when the kind does not apply to this schema."""
    fields = [(c, svcgen.COLTYPES[c[0]]) for c in in_cols]
    if kind == "none":
        return pa.RecordBatch.from_pydict(data, schema=svcgen.schema_of(in_cols))
    if kind in ("reorder", "reorder_retype"):
        if len(fields) < 2:
            return None
        fields = list(reversed(fields))
    if kind in ("retype", "reorder_retype"):
        fields = [(c, _WIDER[c[0]]) for c, _t in fields]
    if kind == "nonnull":
        sch = pa.schema([pa.field(c, t, nullable=False) for c, t in fields])
        return pa.RecordBatch.from_pydict({c: data[c] for c, _ in fields}, schema=sch)
    if kind in ("reorder", "retype", "reorder_retype"):
        sch = pa.schema([pa.field(c, t) for c, t in fields])
        return pa.RecordBatch.from_pydict({c: data[c] for c, _ in fields}, schema=sch)
    nrows = len(next(iter(data.values()))) if data else 0
    if kind == "extra":
        sch = pa.schema([pa.field(c, t) for c, t in fields] + [pa.field("zextra", pa.int64())])
        return pa.RecordBatch.from_pydict({**{c: data[c] for c, _ in fields}, "zextra": list(range(nrows))}, schema=sch)
    if kind == "missing":
        keep = fields[:-1]
        sch = pa.schema([pa.field(c, t) for c, t in keep])
        if not keep:
            return pa.RecordBatch.from_pylist([{} for _ in range(nrows)], schema=sch)
        return pa.RecordBatch.from_pydict({c: data[c] for c, _ in keep}, schema=sch)
    if kind == "rename":
        c0, t0 = fields[0]
        sch = pa.schema([pa.field("other_" + c0, t0)] + [pa.field(c, t) for c, t in fields[1:]])
        return pa.RecordBatch.from_pydict({"other_" + c0: data[c0], **{c: data[c] for c, _ in fields[1:]}}, schema=sch)
    raise AssertionError(kind)


# ---------------------------------------------------------------------------
# boundary recorders
# ---------------------------------------------------------------------------


class Tee(io.RawIOBase):
    """Write-through recorder put in place of a server transport's writer."""

    def __init__(self, inner: Any) -> None:
        super().__init__()
        self._inner = inner
        self.buf = bytearray()

    def writable(self) -> bool:
        return True

    def write(self, b: Any) -> int:
        data = bytes(b)
        self.buf += data
        n = self._inner.write(data)
        return len(data) if n is None else n

    def flush(self) -> None:
        with contextlib.suppress(Exception):
            self._inner.flush()

    def close(self) -> None:
        with contextlib.suppress(Exception):
            self._inner.close()
        super().close()


class _Resp:
    __slots__ = ("content", "headers", "status_code")

    def __init__(self, status_code: int, content: bytes, headers: dict[str, str]) -> None:
        self.status_code = status_code
        self.content = content
        self.headers = headers


class RecClient:
    """HTTP client object for ``http_connect(client=...)`` that drives the WSGI app via httpdrv.

    Every request/response pair is appended to ``turns`` with the *raw* response body
    (before content decoding) - the HTTP boundary the size properties speak about.
    """

    def __init__(self, app: Any, default_headers: dict[str, str] | None = None, prefix: str = "") -> None:
        self.app = app
        self.prefix = prefix
        self.default_headers = dict(default_headers or {})
        self.turns: list[dict[str, Any]] = []
        self.on_request: Any = None  # optional callable() -> value stored as turn["mark"] (e.g. invocation-log length)

    def _do(self, verb: str, url: str, content: bytes | None, headers: dict[str, str] | None) -> _Resp:
        merged = {**self.default_headers, **(headers or {})}
        path = urlparse(url).path
        mark = self.on_request() if self.on_request is not None else None
        r = httpdrv.call(self.app, verb, path, merged, content or b"")
        if r.exc is not None:
            raise r.exc
        try:
            decoded = r.decoded_body()
        except Exception:  # noqa: BLE001 - recorded, the client will complain about the bytes
            decoded = r.body
        self.turns.append(
            {
                "verb": verb,
                "path": path,
                "status": r.status,
                "raw": r.body,
                "decoded": decoded,
                "coding": (r.header("content-encoding") or r.header("x-vgi-content-encoding") or "identity").lower(),
                "rpc_error": (r.header("x-vgi-rpc-error") or "").lower() == "true",
                "req_len": len(content or b""),
                "mark": mark,
            }
        )
        hd = {k.lower(): v for k, v in r.headers}
        return _Resp(r.status, decoded, hd)

    def post(self, url: str, *, content: bytes, headers: dict[str, str]) -> _Resp:
        return self._do("POST", url, content, headers)

    def get(self, url: str, *, headers: dict[str, str] | None = None) -> _Resp:
        return self._do("GET", url, None, headers)

    def options(self, url: str, *, headers: dict[str, str] | None = None) -> _Resp:
        return self._do("OPTIONS", url, None, headers)

    def delete(self, url: str, *, headers: dict[str, str] | None = None) -> _Resp:
        return self._do("DELETE", url, None, headers)

    def put(self, url: str, **kwargs: Any) -> _Resp:
        return _Resp(404, b"", {})

    def close(self) -> None:
        pass


def make_http(program: dict[str, Any], *, app_kwargs: dict[str, Any] | None = None, accept: str | None = None, server_external: Any = None, built: tuple[type, Any] | None = None) -> tuple[type, Any, RecClient]:
    """Build (protocol, impl, RecClient) for *program* served by the real WSGI app."""
    from vgi_rpc.http.server import make_wsgi_app
    from vgi_rpc.rpc import RpcServer

    proto, impl = built if built is not None else svcgen.build(program)
    server = RpcServer(proto, impl, external_location=server_external)
    kw = dict(app_kwargs or {})
    kw.setdefault("token_key", TOKEN_KEY)
    app = make_wsgi_app(server, **kw)
    dh = {"Accept-Encoding": accept} if accept else {}
    return proto, impl, RecClient(app, default_headers=dh)


@contextlib.contextmanager
def open_conn(program: dict[str, Any], tcfg: dict[str, Any], on_log: Any = None) -> Iterator[tuple[Any, Any, Any]]:
    """Yield (proxy, impl, wire) for pipe | unix | shm | http.

    ``wire`` is a ``Tee`` (socket transports: everything the server wrote) or a
    ``RecClient`` (HTTP: one entry per turn).
    """
    from vgi_rpc.rpc import RpcConnection, RpcServer, make_pipe_pair, make_unix_pair

    kind = tcfg["kind"]
    if kind in ("pipe", "unix", "shm"):
        proto, impl = svcgen.build(program)
        ct, st = make_unix_pair() if kind == "unix" else make_pipe_pair()
        tee = Tee(st._writer)
        st._writer = tee
        seg = None
        if kind == "shm":
            # pipe carrying pointer batches, data through a shared-memory segment both ends hold
            from vgi_rpc.rpc import ShmPipeTransport
            from vgi_rpc.shm import ShmSegment

            seg = ShmSegment.create(tcfg.get("shm_size", 1 << 20))
            ct, st = ShmPipeTransport(ct, seg), ShmPipeTransport(st, seg)
        server = RpcServer(proto, impl)

        def serve() -> None:
            try:
                server.serve(st)
            except Exception as exc:  # noqa: BLE001 - recorded
                impl._serve_died = exc

        th = threading.Thread(target=serve, daemon=True)
        th.start()
        try:
            with RpcConnection(proto, ct, on_log=on_log) as proxy:
                yield proxy, impl, tee
        finally:
            with contextlib.suppress(Exception):
                ct.close()
            th.join(timeout=5)
            with contextlib.suppress(Exception):
                st.close()
            if seg is not None:
                with contextlib.suppress(Exception):
                    seg.unlink()
                with contextlib.suppress(Exception):
                    seg.close()
    elif kind == "http":
        from vgi_rpc.http import http_connect

        proto, impl, client = make_http(program, app_kwargs=tcfg.get("app_kwargs"), accept=tcfg.get("accept"))
        with http_connect(proto, client=client, on_log=on_log, compression_level=tcfg.get("request_compression")) as proxy:
            yield proxy, impl, client
    else:
        raise ValueError(kind)


# ---------------------------------------------------------------------------
# wire decomposition
# ---------------------------------------------------------------------------


def split_streams(body: bytes) -> list[dict[str, Any]]:
    """Decompose concatenated IPC streams into streams of classified batches with byte offsets.

    Each stream: {"schema": pa.Schema, "batches": [{"kind": data|log|error|token|pointer, "rows", "start", "end", "md"}], "end": offset}
    """
    out: list[dict[str, Any]] = []
    rd = pa.BufferReader(body)
    n = len(body)
    while rd.tell() < n:
        # message offsets of this stream
        offs: list[tuple[int, int]] = []
        probe = pa.BufferReader(body)
        probe.seek(rd.tell())
        first = True
        while probe.tell() < n:
            s = probe.tell()
            try:
                msg = ipc.read_message(probe)
            except EOFError:
                break
            if first:
                first = False
                continue  # schema message
            if msg.type == "record batch":
                offs.append((s, probe.tell()))
        reader = ipc.open_stream(rd)
        cur: list[dict[str, Any]] = []
        i = 0
        while True:
            try:
                b, md = reader.read_next_batch_with_custom_metadata()
            except StopIteration:
                break
            mdd = {k.decode(): v for k, v in (md or {}).items()}
            if b.num_rows == 0 and LOG_LEVEL_KEY in mdd:
                kind = "error" if mdd[LOG_LEVEL_KEY] == b"EXCEPTION" else "log"
            elif b.num_rows == 0 and STATE_KEY in mdd:
                kind = "token"
            elif b.num_rows == 0 and LOCATION_KEY in mdd:
                kind = "pointer"
            else:
                kind = "data"
            s, e = offs[i] if i < len(offs) else (-1, -1)
            cur.append({"kind": kind, "rows": b.num_rows, "start": s, "end": e, "md": mdd, "batch": b})
            i += 1
        out.append({"schema": reader.schema, "batches": cur, "end": rd.tell()})
    return out


def run_with_watchdog(fn: Any, timeout: float) -> tuple[bool, Any]:
    """Run fn() in a daemon thread; (finished, result_or_exception)."""
    box: dict[str, Any] = {}

    def target() -> None:
        try:
            box["r"] = fn()
        except BaseException as exc:  # noqa: BLE001
            box["e"] = exc

    th = threading.Thread(target=target, daemon=True)
    th.start()
    th.join(timeout)
    if th.is_alive():
        return False, None
    if "e" in box:
        return True, box["e"]
    return True, box.get("r")

"""E5 reference model for C35 - which claim names designate credentials / personal data.

Written from the property statement and docs/access-log-spec.md section 4 ("claims"):
credential-shaped names (password, token, secret, key, authorization) and the OIDC
personal-data claims (email, phone, address, birthdate, gender, the name fields, picture,
profile, website) are sensitive *in any letter case and as substrings of the claim name*;
the bare claim ``name`` is sensitive as a whole name only (``hostname`` is not personal data).
"""

from __future__ import annotations

SUBSTRING_WORDS = [
    "password",
    "token",
    "secret",
    "key",
    "authorization",
    "email",
    "phone",
    "address",
    "birthdate",
    "gender",
    "given_name",
    "family_name",
    "middle_name",
    "nickname",
    "preferred_username",
    "picture",
    "profile",
    "website",
]
EXACT_WORDS = ["name"]

NEUTRAL_KEYS = ["sub", "iss", "aud", "ctx", "roles", "org", "tenant", "scope", "exp", "groups", "data", "items", "meta", "v", "realm", "amr", "acr"]


def is_sensitive(key: str) -> bool:
    k = key.lower()
    if k in EXACT_WORDS:
        return True
    return any(w in k for w in SUBSTRING_WORDS)


def _selfcheck() -> None:
    for k in NEUTRAL_KEYS:
        assert not is_sensitive(k), k


_selfcheck()

"""Token laboratory shared by the token properties C12 / C13 / C14 / C25.

Three things live here, all written from the property statements and the spec
documents (``docs/WIRE_PROTOCOL.md``, ``docs/sticky-sessions-spec.md``), none of
them copied from the implementation under test:

* the **identity model**: a fixed table of caller identities built to stress the
  identity framing (anonymous, ``("", "anonymous")``, concatenation collisions,
  NUL in the principal, ``None`` vs ``""``, unicode normal forms, case, trailing
  blanks) plus ``same_identity(i, j)`` - the oracle for "same caller identity
  (domain and principal)".  ``None``/``""`` pairs answer ``None`` (statement is
  silent -> the case is counted as unjudged);
* the **token mutation model**: generators for every mutation class named in the
  C12 / C25 quantifiers and ``equivalent_encoding()`` - a *lenient* stdlib base64
  reading that decides whether a textual variant still denotes the same sealed
  bytes ("equivalent encoding": either outcome is allowed, an accepted one must
  behave like the original);
* small harness utilities: a logical clock that is rebound over the module-level
  ``time`` name of the token modules, WSGI app construction with an
  ``authenticate`` callback that maps the ``X-Verif-Id`` request header to an
  identity of the table, request builders and a response normaliser.

Imports of ``vgi_rpc`` / ``pyarrow`` happen inside functions (manifest generator
imports check modules).
"""

from __future__ import annotations

import base64
import binascii
import random
import time as _real_time
import unicodedata
from typing import Any, Iterator

STATE_KEY = b"vgi_rpc.stream_state#b64"
CALL_KEY = b"vgi_rpc.call_state#b64"
CANCEL_KEY = b"vgi_rpc.cancel"
ID_HEADER = "X-Verif-Id"

# ---------------------------------------------------------------------------
# Identity model
# ---------------------------------------------------------------------------

#: (label, authenticated, domain, principal).  Domains are NUL-free (quantifier of C12).
IDENTITIES: list[tuple[str, bool, str | None, str | None]] = [
    ("anon", False, None, None),
    ("empty_dom_anonymous", True, "", "anonymous"),  # looks like the anonymous tail
    ("d_alice", True, "d", "alice"),
    ("d_bob", True, "d", "bob"),
    ("e_alice", True, "e", "alice"),
    ("a_bNULc", True, "a", "b\x00c"),  # NUL inside the principal
    ("a_b", True, "a", "b"),
    ("ab_c", True, "ab", "c"),  # "ab"+"c" == "a"+"bc"
    ("a_bc", True, "a", "bc"),
    ("none_x", True, None, "x"),  # None vs "" domain
    ("empty_x", True, "", "x"),
    ("d_none", True, "d", None),  # None vs "" principal
    ("d_empty", True, "d", ""),
    ("empty_empty", True, "", ""),
    ("d_nfc", True, "d", unicodedata.normalize("NFC", "café")),
    ("d_nfd", True, "d", unicodedata.normalize("NFD", "café")),
    ("d_astral", True, "d", "\U0001d4b6lice"),
    ("d_alice_sp", True, "d", "alice "),
    ("D_alice", True, "D", "alice"),
    ("d_x01alice", True, "d", "\x01alice"),
    ("anonymous_dom", True, "anonymous", ""),
    ("dalice_", True, "dalice", ""),  # "d"+"alice" == "dalice"+""
]
ID_INDEX = {lab: i for i, (lab, *_r) in enumerate(IDENTITIES)}
QUICK_IDS = ["anon", "empty_dom_anonymous", "d_alice", "d_bob", "e_alice", "a_bNULc", "a_b", "ab_c", "a_bc", "none_x", "empty_x", "d_nfc", "d_nfd"]


def same_identity(i: int, j: int) -> bool | None:
    """Oracle for 'same caller identity'.  None = statement silent (None vs '')."""
    if i == j:
        return True
    _, ai, di, pi = IDENTITIES[i]
    _, aj, dj, pj = IDENTITIES[j]
    if ai != aj:
        return False
    if not ai:
        return True  # both anonymous
    if di == dj and pi == pj:
        return True
    if (di or "") == (dj or "") and (pi or "") == (pj or ""):
        return None  # differ only by None vs "" - not a distinction the statement makes
    return False


def pair_relation(i: int, j: int) -> str:
    """Mechanism-level name of how two identities of the table differ (used in violation keys)."""
    _, ai, di, pi = IDENTITIES[i]
    _, aj, dj, pj = IDENTITIES[j]
    if ai != aj:
        return "anonymous_vs_authenticated"
    di, dj, pi, pj = di or "", dj or "", pi or "", pj or ""
    if di + pi == dj + pj or di + "\x00" + pi == dj + "\x00" + pj:
        return "concatenation_coincides"
    if di == dj:
        if unicodedata.normalize("NFC", pi) == unicodedata.normalize("NFC", pj):
            return "principal_unicode_normal_form"
        if pi.strip().lower() == pj.strip().lower():
            return "principal_case_or_blank"
        if pi.split("\x00")[0] == pj.split("\x00")[0]:
            return "principal_differs_after_nul"
        return "principal_differs"
    if pi == pj:
        return "domain_case" if di.lower() == dj.lower() else "domain_differs"
    return "domain_and_principal_differ"


def auth_label(i: int) -> str:
    """What ``svcgen._auth_of`` prints for identity *i*."""
    _, a, d, p = IDENTITIES[i]
    if not a:
        return "anon"
    return f"{d}|{p}"


def make_authenticate() -> Any:
    from vgi_rpc.rpc import AuthContext

    table = [AuthContext(domain=d, authenticated=a, principal=p) if a else AuthContext.anonymous() for (_l, a, d, p) in IDENTITIES]

    def authenticate(req: Any) -> Any:
        h = req.get_header(ID_HEADER)
        if h is None:
            return table[0]
        return table[int(h)]

    return authenticate


def hdrs(idx: int, extra: dict[str, str] | None = None) -> dict[str, str]:
    from lib import httpdrv

    h = {"Content-Type": httpdrv.ARROW_CT}
    if idx != 0:
        h[ID_HEADER] = str(idx)
    if extra:
        h.update(extra)
    return h


# ---------------------------------------------------------------------------
# Logical clock
# ---------------------------------------------------------------------------


class Clock:
    """Stand-in for the ``time`` module: ``time()`` is logical, the rest is real."""

    def __init__(self, start: float = 1_700_000_000.0) -> None:
        self.now = float(start)
        self.reads = 0

    def time(self) -> float:
        self.reads += 1
        return self.now

    def __getattr__(self, name: str) -> Any:
        return getattr(_real_time, name)


def install_clock(clock: Clock, *, sticky: bool = False) -> None:
    """Rebind the module-level ``time`` of the token modules to *clock*."""
    from vgi_rpc.http.server import _app_stream, _state_token

    _state_token.time = clock  # type: ignore[assignment]
    _app_stream.time = clock  # type: ignore[assignment]
    if sticky:
        from vgi_rpc.http.server import _sticky

        _sticky.time = clock  # type: ignore[assignment]


# ---------------------------------------------------------------------------
# Apps
# ---------------------------------------------------------------------------

_captured_apps: list[Any] = []


def make_app(proto: Any, impl: Any, *, key: bytes | None, server_id: str | None = None, **kw: Any) -> tuple[Any, Any]:
    """Build (wsgi_app, _HttpRpcApp handler) for *impl*; identity chosen by ``X-Verif-Id``."""
    import warnings

    from vgi_rpc.http import make_wsgi_app
    from vgi_rpc.http.server import _factory
    from vgi_rpc.rpc import RpcServer

    orig = _factory._HttpRpcApp
    box: list[Any] = []

    def recording(*a: Any, **k: Any) -> Any:
        h = orig(*a, **k)
        box.append(h)
        return h

    skw: dict[str, Any] = {}
    if server_id is not None:
        skw["server_id"] = server_id
    server = RpcServer(proto, impl, **skw)
    _factory._HttpRpcApp = recording  # type: ignore[assignment,misc]
    try:
        with warnings.catch_warnings():
            warnings.simplefilter("ignore")
            app = make_wsgi_app(server, token_key=key, authenticate=make_authenticate(), **kw)
    finally:
        _factory._HttpRpcApp = orig  # type: ignore[misc]
    handler = box[0] if box else None
    return app, handler


# ---------------------------------------------------------------------------
# Requests / responses
# ---------------------------------------------------------------------------


def init_stream(app: Any, method: str, idx: int) -> Any:
    import pyarrow as pa

    from lib import httpdrv

    return httpdrv.call(app, "POST", f"/{method}/init", hdrs(idx), httpdrv.request_body(method, pa.schema([]), None))


def tokens_of(resp: Any) -> tuple[bytes | None, bytes | None]:
    """(cursor, call) tokens found in a response body (last occurrence wins)."""
    from lib import httpdrv

    cur = call = None
    try:
        for stream in httpdrv.parse_ipc_multi(resp.decoded_body()):
            for _b, md in stream:
                if STATE_KEY.decode() in md:
                    cur = md[STATE_KEY.decode()]
                if CALL_KEY.decode() in md:
                    call = md[CALL_KEY.decode()]
    except Exception:  # noqa: BLE001
        pass
    return cur, call


def cont_body(in_cols: list[str] | None, cursor: bytes | None, call: bytes | None, *, cancel: bool = False, rows: dict[str, list[Any]] | None = None, extra: dict[bytes, bytes] | None = None) -> bytes:
    """Continuation / exchange / cancel request body with the two token slots byte-for-byte."""
    import pyarrow as pa

    from lib import httpdrv, svcgen

    md: dict[bytes, bytes] = {}
    if cursor is not None:
        md[STATE_KEY] = cursor
    if cancel:
        md[CANCEL_KEY] = b"1"
    if call is not None:
        md[CALL_KEY] = call
    if extra:
        md.update(extra)
    if in_cols:
        schema = svcgen.schema_of(in_cols)
        data = rows if rows is not None else svcgen.make_rows("in", 0, 2, in_cols)
        batch = pa.RecordBatch.from_pydict(data, schema=schema)
    else:
        batch = pa.RecordBatch.from_pydict({}, schema=pa.schema([]))
    return httpdrv.ipc_bytes(batch, md if md else None)


def exchange(app: Any, method: str, idx: int, body: bytes, extra_headers: dict[str, str] | None = None) -> Any:
    from lib import httpdrv

    return httpdrv.call(app, "POST", f"/{method}/exchange", hdrs(idx, extra_headers), body)


def outcome(resp: Any) -> dict[str, Any]:
    """Client-visible outcome of a stream response, tokens removed (they carry fresh nonces)."""
    from lib import httpdrv

    out: dict[str, Any] = {"status": resp.status, "rpc_error_header": resp.header("x-vgi-rpc-error"), "error": None, "batches": [], "cursor": False, "undecodable": False}
    if resp.exc is not None:
        out["escaped"] = repr(resp.exc)[:200]
        return out
    ct = (resp.header("content-type") or "").split(";")[0].strip()
    out["content_type"] = ct
    if ct != httpdrv.ARROW_CT:
        out["raw"] = resp.body[:200].decode(errors="replace")
        return out
    try:
        streams = httpdrv.parse_ipc_multi(resp.decoded_body())
    except Exception as exc:  # noqa: BLE001
        out["undecodable"] = True
        out["raw"] = repr(exc)[:200]
        return out
    for stream in streams:
        err = httpdrv.error_of(stream)
        if err is not None and out["error"] is None:
            out["error"] = (err["type"], err["extra"].get("exception_message", err["message"]), err["kind"])
        for b, md in stream:
            if md.get("vgi_rpc.log_level") is not None:
                if md.get("vgi_rpc.log_level") != b"EXCEPTION":
                    out["batches"].append(("log", md.get("vgi_rpc.log_level", b"").decode(), md.get("vgi_rpc.log_message", b"").decode(errors="replace")))
                continue
            if STATE_KEY.decode() in md:
                out["cursor"] = True
            user_md = {k: v.decode(errors="replace") for k, v in md.items() if not k.startswith("vgi_rpc.")}
            if b.num_rows == 0 and STATE_KEY.decode() in md and not user_md:
                continue
            out["batches"].append(("data", b.to_pydict(), user_md))
    return out


def is_rejection_400(o: dict[str, Any]) -> bool:
    return o["status"] == 400 and o.get("error") is not None and not o["batches"] and not o["cursor"]


# ---------------------------------------------------------------------------
# Token mutation model
# ---------------------------------------------------------------------------

_STD = b"ABCDEFGHIJKLMNOPQRSTUVWXYZabcdefghijklmnopqrstuvwxyz0123456789+/"
_URL = b"ABCDEFGHIJKLMNOPQRSTUVWXYZabcdefghijklmnopqrstuvwxyz0123456789-_"


def lenient_decodings(text: bytes) -> set[bytes]:
    """Every byte string a forgiving base64 reader could take *text* to mean."""
    outs: set[bytes] = set()
    cands = {text, text.strip(), text.replace(b"-", b"+").replace(b"_", b"/"), text.replace(b"+", b"-").replace(b"/", b"_")}
    for t in list(cands):
        stripped = bytes(c for c in t if c in _STD or c in _URL)
        cands.add(stripped)
        cands.add(t.rstrip(b"="))
    for t in cands:
        for pad in (b"", b"=", b"==", b"==="):
            for fn in (base64.b64decode, base64.urlsafe_b64decode):
                try:
                    outs.add(fn(t + pad))
                except (binascii.Error, ValueError):
                    pass
            try:
                outs.add(base64.b64decode(t + pad, validate=False))
            except (binascii.Error, ValueError):
                pass
    return outs


def equivalent_encoding(text: bytes, sealed: bytes) -> bool:
    """True when *text* still denotes exactly the original sealed bytes under a lenient reading."""
    return sealed in lenient_decodings(text)


def enc_std(raw: bytes) -> bytes:
    return base64.b64encode(raw)


def enc_url_nopad(raw: bytes) -> bytes:
    return base64.urlsafe_b64encode(raw).rstrip(b"=")


def raw_mutations(sealed: bytes, rng: random.Random, *, exhaustive: bool, budget: int = 0) -> Iterator[tuple[str, bytes]]:
    """(class, mutated sealed bytes).  Classes name the *shape* of the edit and the envelope region."""

    def region(pos: int) -> str:
        if pos == 0:
            return "version"
        if pos < 25:
            return "nonce"
        if pos >= len(sealed) - 16:
            return "tag"
        return "ciphertext"

    n = len(sealed)
    if exhaustive:
        for pos in range(n):
            for bit in range(8):
                m = bytearray(sealed)
                m[pos] ^= 1 << bit
                yield f"bitflip:{region(pos)}", bytes(m)
        for ln in range(n):
            yield ("truncate:empty" if ln == 0 else f"truncate:into_{region(ln)}"), sealed[:ln]
        for ln in range(1, n):
            yield f"drop_prefix:from_{region(ln)}", sealed[ln:]
    else:
        for _ in range(budget):
            pos = rng.randrange(n)
            m = bytearray(sealed)
            m[pos] ^= 1 << rng.randrange(8)
            yield f"bitflip:{region(pos)}", bytes(m)
        for _ in range(max(4, budget // 8)):
            ln = rng.randrange(n)
            yield ("truncate:empty" if ln == 0 else f"truncate:into_{region(ln)}"), sealed[:ln]
    # byte substitutions
    for pos in sorted({0, 1, 12, 24, 25, 26, n // 2, n - 17, n - 16, n - 1} | {rng.randrange(n) for _ in range(12)}):
        if 0 <= pos < n:
            for val in (0x00, 0xFF, (sealed[pos] + 1) & 0xFF, rng.randrange(256)):
                if val != sealed[pos]:
                    m = bytearray(sealed)
                    m[pos] = val
                    yield f"substitute:{region(pos)}", bytes(m)
    # every other version byte
    for v in range(256):
        if v != sealed[0]:
            yield "substitute:version_all", bytes([v]) + sealed[1:]
    # extensions
    for tail in (b"\x00", b"\xff", b"\x00" * 16, sealed[-16:], sealed, rng.randbytes(7), rng.randbytes(64)):
        yield "extend:append", sealed + tail
    for head in (b"\x00", sealed[:1], sealed[:25], rng.randbytes(5)):
        yield "extend:prepend", head + sealed
    mid = n // 2
    yield "extend:insert_mid", sealed[:mid] + b"\x00" + sealed[mid:]
    yield "delete:mid_byte", sealed[:mid] + sealed[mid + 1 :]
    yield "permute:swap_halves", sealed[:1] + sealed[mid:] + sealed[1:mid]
    yield "permute:reverse_body", sealed[:25] + sealed[25:][::-1]
    yield "garbage:zeros", b"\x00" * n
    yield "garbage:random", rng.randbytes(n)
    yield "garbage:version_only", sealed[:1]
    yield "garbage:min_len_zero_body", sealed[:25] + b"\x00" * 16


def text_mutations(text: bytes, rng: random.Random, *, exhaustive: bool, budget: int = 0) -> Iterator[tuple[str, bytes]]:
    """(class, mutated token text) - edits of the base64 text itself, incl. re-encodings."""
    n = len(text)
    if exhaustive:
        for pos in range(n):
            for bit in range(8):
                m = bytearray(text)
                m[pos] ^= 1 << bit
                yield ("textflip:last_char" if pos >= n - 3 else "textflip:char"), bytes(m)
        for ln in range(n):
            yield "texttrunc", text[:ln]
    else:
        for _ in range(budget):
            pos = rng.randrange(n)
            m = bytearray(text)
            m[pos] ^= 1 << rng.randrange(8)
            yield ("textflip:last_char" if pos >= n - 3 else "textflip:char"), bytes(m)
        for _ in range(max(4, budget // 8)):
            yield "texttrunc", text[: rng.randrange(n)]
    # unused trailing bits of the final quantum (classic malleability of base64)
    body = text.rstrip(b"=")
    pad = text[len(body) :]
    if body:
        last = body[-1:]
        alpha = _URL if (b"-" in text or b"_" in text) else _STD
        if last[0] in alpha:
            k = alpha.index(last[0])
            for d in (1, 2, 3, 4, 8, 15):
                yield "reencode:trailing_bits", body[:-1] + bytes([alpha[k ^ d]]) + pad
    raw_std = text.replace(b"-", b"+").replace(b"_", b"/")
    raw_url = text.replace(b"+", b"-").replace(b"/", b"_")
    yield "reencode:urlsafe_alphabet", raw_url
    yield "reencode:std_alphabet", raw_std
    yield "reencode:strip_padding", body
    yield "reencode:extra_padding", text + b"="
    yield "reencode:extra_padding2", text + b"=="
    yield "reencode:pad_to_4", body + b"=" * (-len(body) % 4)
    yield "reencode:leading_space", b" " + text
    yield "reencode:trailing_space", text + b" "
    yield "reencode:trailing_newline", text + b"\n"
    yield "reencode:crlf_wrapped", b"\r\n".join(text[i : i + 76] for i in range(0, n, 76))
    yield "reencode:inner_space", text[: n // 2] + b" " + text[n // 2 :]
    yield "reencode:inner_junk", text[: n // 2] + b"!" + text[n // 2 :]
    yield "reencode:inner_nul", text[: n // 2] + b"\x00" + text[n // 2 :]
    yield "reencode:inner_pad", text[: (n // 2) & ~3] + b"=" + text[(n // 2) & ~3 :]
    yield "reencode:inner_pad4", text[: (n // 2) & ~3] + b"====" + text[(n // 2) & ~3 :]
    yield "reencode:after_padding_data", text + b"QUJD"
    yield "reencode:twice", base64.b64encode(text)
    yield "reencode:hex", binascii.hexlify(base64.b64decode(raw_std + b"=" * (-len(raw_std) % 4), validate=False))
    yield "reencode:swapcase", text.swapcase()
    yield "reencode:high_bit", bytes((c | 0x80) for c in text)
    yield "reencode:utf8_bom", b"\xef\xbb\xbf" + text
    yield "reencode:empty", b""
    yield "reencode:only_padding", b"===="


def open_sealed(raw: bytes, key: bytes, aad: bytes, version: int) -> bytes | None:
    """Open an envelope with the harness' copy of the key (uses the repo's AEAD primitive as a tool)."""
    from vgi_rpc import crypto

    try:
        return crypto.open_bytes(raw, key, aad=aad, version=version)
    except crypto.SealError:
        return None

"""Reference model: response content-encoding negotiation (C19).

Written from docs/WIRE_PROTOCOL.md section 10 "Content-encoding negotiation /
Responses" and the "Response headers" table, plus the C19 statement:

  * the client offers codings in ``Accept-Encoding`` and/or ``X-VGI-Accept-Encoding``;
  * the server picks the first offered coding it can produce, honouring client
    preference order, with ``X-VGI-Accept-Encoding`` taking precedence;
  * if the first match is ``identity`` the body is sent uncompressed (the server
    must not continue down the list); no overlap means an uncompressed body;
  * the coding is stamped on ``Content-Encoding``, or on ``X-VGI-Content-Encoding``
    when the client negotiated through the custom header; nothing for identity.

Where the text is silent the model answers ``AMBIGUOUS`` (the check does not
judge such a case):

  * q-values.  The spec speaks of list order only; RFC 9110 orders by q and makes
    ``q=0`` mean "not acceptable".  A request is judged only when both readings
    lead to the same decision (coding and announcing header).
  * the ``*`` wildcard, when it is reached before a deciding entry.
  * which header announces a coding that was offered in *both* request headers
    (the text says the custom header takes precedence "in deciding which response
    header to stamp", yet a coding also offered in the standard header is equally
    "negotiated" there): either header is accepted.
"""

from __future__ import annotations

from dataclasses import dataclass

KNOWN = ("zstd", "gzip", "identity")
AMBIGUOUS = "ambiguous"

STD_HEADER = "Content-Encoding"
VGI_HEADER = "X-VGI-Content-Encoding"


@dataclass(frozen=True)
class Offer:
    token: str  # lower-cased coding name ('' for an empty list element)
    q: float | None  # None when no q parameter
    q_valid: bool = True


def parse_offers(value: str | None) -> list[Offer]:
    """Split an Accept-Encoding style header into offers (RFC 9110 list syntax, names case-insensitive)."""
    out: list[Offer] = []
    if not value:
        return out
    for raw in value.split(","):
        item = raw.strip()
        if not item:
            continue
        parts = [p.strip() for p in item.split(";")]
        token = parts[0].lower()
        q: float | None = None
        ok = True
        for p in parts[1:]:
            k, _, v = p.partition("=")
            if k.strip().lower() == "q":
                try:
                    q = float(v.strip())
                except ValueError:
                    ok = False
        out.append(Offer(token, q, ok))
    return out


def _list_order(offers: list[Offer]) -> list[str]:
    """Reading 1 (the spec's words): list order is preference order; parameters carry no meaning."""
    return [o.token for o in offers]


def _q_order(offers: list[Offer]) -> list[str] | None:
    """Reading 2 (RFC 9110): order by q descending (stable), q=0 means 'not acceptable'.  None if a q is malformed."""
    keyed = []
    for idx, o in enumerate(offers):
        if not o.q_valid:
            return None
        q = 1.0 if o.q is None else o.q
        if q < 0.0 or q > 1.0:
            return None
        if q == 0.0:
            continue
        keyed.append((-q, idx, o.token))
    keyed.sort()
    return [t for _q, _i, t in keyed]


@dataclass(frozen=True)
class Outcome:
    coding: str | None  # 'zstd' | 'gzip' | None (uncompressed) | AMBIGUOUS
    headers: frozenset[str]  # admissible announcing headers (empty when coding is None)
    why: str


def _walk(vgi_tokens: list[str], std_tokens: list[str], offered_vgi: set[str], offered_std: set[str], producible: tuple[str, ...] | frozenset[str]) -> Outcome:
    # X-VGI-Accept-Encoding first, then Accept-Encoding, each in preference order
    for source, tokens in (("vgi", vgi_tokens), ("std", std_tokens)):
        for t in tokens:
            if t == "*":
                return Outcome(AMBIGUOUS, frozenset(), "wildcard")
            if t == "identity":
                return Outcome(None, frozenset(), f"identity_first:{source}")
            if t in producible and t in KNOWN:
                in_vgi = t in offered_vgi
                in_std = t in offered_std
                if in_vgi and in_std:
                    hdrs = frozenset({STD_HEADER, VGI_HEADER})
                elif in_vgi:
                    hdrs = frozenset({VGI_HEADER})
                else:
                    hdrs = frozenset({STD_HEADER})
                return Outcome(t, hdrs, f"first_producible:{source}")
    return Outcome(None, frozenset(), "no_overlap")


def negotiate(vgi_value: str | None, std_value: str | None, producible: tuple[str, ...] | frozenset[str]) -> Outcome:
    """Expected response coding and announcing header(s) for one request.

    The decision is computed under both readings of a parameterised list (list order / q order); when they
    disagree - or a malformed q makes the second reading undefined - the case is AMBIGUOUS.
    """
    vgi = parse_offers(vgi_value)
    std = parse_offers(std_value)
    offered_vgi = {o.token for o in vgi}
    offered_std = {o.token for o in std}
    by_list = _walk(_list_order(vgi), _list_order(std), offered_vgi, offered_std, producible)
    has_q = any(o.q is not None or not o.q_valid for o in vgi + std)
    if not has_q:
        return by_list
    qv, qs = _q_order(vgi), _q_order(std)
    if qv is None or qs is None:
        return Outcome(AMBIGUOUS, frozenset(), "q_values")
    by_q = _walk(qv, qs, {t for t in qv}, {t for t in qs}, producible)
    if by_q.coding == by_list.coding and (by_q.coding is None or by_q.headers == by_list.headers):
        if by_list.coding == AMBIGUOUS:
            return by_list
        return Outcome(by_list.coding, by_list.headers, by_list.why + ":q_agrees")
    return Outcome(AMBIGUOUS, frozenset(), "q_values")

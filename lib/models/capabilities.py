"""Reference model: capability headers implied by a server configuration (C40).

Written from the "Capability discovery" table of docs/WIRE_PROTOCOL.md section 10
(header | type | emitted | description) and the C40 statement; not from
``make_wsgi_app``.  A configuration is a plain dict:

  max_request_bytes / max_response_bytes / max_externalized_response_bytes / max_upload_bytes : int | None
  storage : bool            a storage backend is wired up on the RpcServer
  upload_provider : bool    an upload-URL provider is configured
  encodings : tuple[str]    codings the server will *produce*, in preference order
  sticky : bool, sticky_ttl : number, sticky_echo : tuple[str] (header names, may be empty)
  proof_required : bool, introspection : bool
"""

from __future__ import annotations

from typing import Any

H_MAX_REQ = "VGI-Max-Request-Bytes"
H_MAX_RESP = "VGI-Max-Response-Bytes"
H_MAX_EXT = "VGI-Max-Externalized-Response-Bytes"
H_EXT_ENABLED = "VGI-Externalization-Enabled"
H_ENCODINGS = "VGI-Supported-Encodings"
H_UPLOAD = "VGI-Upload-URL-Support"
H_MAX_UPLOAD = "VGI-Max-Upload-Bytes"
H_PROOF = "VGI-Proxy-Proof-Required"
H_STICKY = "VGI-Sticky-Enabled"
H_STICKY_TTL = "VGI-Sticky-Default-TTL"
H_STICKY_ECHO = "VGI-Sticky-Echo-Headers"
H_INTROSPECT = "VGI-Token-Introspection"

ALL_HEADERS = (
    H_MAX_REQ,
    H_MAX_RESP,
    H_MAX_EXT,
    H_EXT_ENABLED,
    H_ENCODINGS,
    H_UPLOAD,
    H_MAX_UPLOAD,
    H_PROOF,
    H_STICKY,
    H_STICKY_TTL,
    H_STICKY_ECHO,
    H_INTROSPECT,
)

# headers whose value is a comma-separated list (compared as a list of trimmed items)
LIST_HEADERS = frozenset({H_ENCODINGS, H_STICKY_ECHO})


def expected_headers(cfg: dict[str, Any]) -> dict[str, str]:
    """Exactly the capability headers a server configured as *cfg* must put on every response."""
    out: dict[str, str] = {}
    if cfg.get("max_request_bytes") is not None:  # Integer | when configured
        out[H_MAX_REQ] = str(int(cfg["max_request_bytes"]))
    if cfg.get("max_response_bytes") is not None:
        out[H_MAX_RESP] = str(int(cfg["max_response_bytes"]))
    if cfg.get("max_externalized_response_bytes") is not None:
        out[H_MAX_EXT] = str(int(cfg["max_externalized_response_bytes"]))
    out[H_EXT_ENABLED] = "true" if cfg.get("storage") else "false"  # always
    out[H_ENCODINGS] = ", ".join(cfg.get("encodings", ()))  # always; identity never listed; may be empty
    if cfg.get("upload_provider"):  # "true" | when enabled
        out[H_UPLOAD] = "true"
        if cfg.get("max_upload_bytes") is not None:  # when enabled + configured
            out[H_MAX_UPLOAD] = str(int(cfg["max_upload_bytes"]))
    if cfg.get("proof_required"):
        out[H_PROOF] = "true"
    if cfg.get("sticky"):
        out[H_STICKY] = "true"
        out[H_STICKY_TTL] = str(int(cfg.get("sticky_ttl", 300)))  # Integer seconds | when sticky enabled
        if cfg.get("sticky_echo"):  # "when configured"
            out[H_STICKY_ECHO] = ", ".join(cfg["sticky_echo"])
    if cfg.get("introspection"):
        out[H_INTROSPECT] = "true"
    return out


def norm_value(name: str, value: str) -> Any:
    """Comparable form of a header value (lists are compared item-wise, whitespace-insensitively)."""
    if name in LIST_HEADERS:
        return tuple(p.strip() for p in value.split(",") if p.strip())
    return value.strip()


def diff(expected: dict[str, str], observed: dict[str, list[str]]) -> list[tuple[str, str, Any, Any]]:
    """Compare; *observed* maps lower-cased header name -> list of values seen on the response.

    Returns [(kind, header, expected, observed)] with kind in missing | unexpected | value | duplicated.
    """
    out: list[tuple[str, str, Any, Any]] = []
    for name in ALL_HEADERS:
        got = observed.get(name.lower(), [])
        exp = expected.get(name)
        if exp is None:
            if got:
                out.append(("unexpected", name, None, got))
            continue
        if not got:
            out.append(("missing", name, exp, None))
            continue
        if len(got) > 1:
            out.append(("duplicated", name, exp, got))
            continue
        if norm_value(name, got[0]) != norm_value(name, exp):
            out.append(("value", name, exp, got[0]))
    return out


def expected_probe(cfg: dict[str, Any]) -> dict[str, Any]:
    """What the client's capability probe must read back (fields of HttpServerCapabilities that mirror configuration)."""
    sticky = bool(cfg.get("sticky"))
    upload = bool(cfg.get("upload_provider"))
    return {
        "max_request_bytes": cfg.get("max_request_bytes"),
        "max_response_bytes": cfg.get("max_response_bytes"),
        "max_externalized_response_bytes": cfg.get("max_externalized_response_bytes"),
        "externalization_enabled": bool(cfg.get("storage")),
        "upload_url_support": upload,
        "max_upload_bytes": cfg.get("max_upload_bytes") if upload else None,
        "supported_encodings": tuple(cfg.get("encodings", ())),
        "sticky_enabled": sticky,
        "sticky_default_ttl": int(cfg.get("sticky_ttl", 300)) if sticky else None,
        "sticky_echo_headers": tuple(cfg.get("sticky_echo", ())) if sticky else (),
    }

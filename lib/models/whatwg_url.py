"""E5 reference model - WHATWG URL *origin resolver* for a restricted sub-grammar.

Written from the WHATWG URL Standard (https://url.spec.whatwg.org/, sections
"URL parsing" / basic URL parser state machine, "host parsing", "IPv4 parser",
"IPv6 parser", "origin"), not from ``urllib``.  Purpose: decide which origin a
browser navigates to when it receives ``Location: <input>`` on a response for
``base`` - and, for same-origin results, which path.

Sub-grammar covered (anything else -> ``unknown``; the caller must not judge it):

* leading/trailing C0-control-or-space stripping, ASCII tab / LF / CR removal;
* special schemes ``http https ws wss ftp`` (case-insensitive); any other scheme
  is reported as ``nonspecial`` (opaque origin), ``file`` is ``unknown``;
* scheme-relative, path-absolute and path-relative references against an
  http(s) base; ``\\`` treated as ``/`` for special schemes in every state that
  says so (relative, relative slash, special authority (ignore) slashes,
  authority terminator, path);
* authority: userinfo (last ``@`` wins), host, port (digits, <= 65535, default elided);
* hosts: ASCII domains (percent-decoded, lower-cased, forbidden-code-point
  check, "ends in a number" -> IPv4 parser with decimal/octal/hex parts),
  bracketed IPv6 literals (incl. embedded IPv4);
* non-ASCII in the authority, ``xn--`` labels (IDNA processing) -> ``unknown``;
* path: dot-segment removal incl. ``%2e`` spellings, for the "same-origin path
  under prefix" judgement.

Result kinds:
  ``origin``     - scheme/host/port tuple origin (+ normalised path)
  ``nonspecial`` - non-special scheme: opaque origin, never same-origin/loopback
  ``failure``    - the parser returns failure: the browser does not navigate
  ``unknown``    - outside the sub-grammar
"""

from __future__ import annotations

import ipaddress
from dataclasses import dataclass

SPECIAL_PORTS = {"http": 80, "https": 443, "ws": 80, "wss": 443, "ftp": 21}
_ALPHA = frozenset("abcdefghijklmnopqrstuvwxyzABCDEFGHIJKLMNOPQRSTUVWXYZ")
_DIGIT = frozenset("0123456789")
_SCHEME_TAIL = _ALPHA | _DIGIT | frozenset("+-.")
_HEX = frozenset("0123456789abcdefABCDEF")
_FORBIDDEN_HOST = frozenset(chr(i) for i in range(0x21)) | frozenset('#/:<>?@[\\]^|') | {"\x7f"}
_FORBIDDEN_DOMAIN = _FORBIDDEN_HOST | {"%"}


@dataclass(frozen=True)
class Resolved:
    kind: str  # origin | nonspecial | failure | unknown
    scheme: str = ""
    host: str = ""
    port: int | None = None  # None = scheme default
    path: str | None = None  # normalised path ("/a/b"), None if not computed
    why: str = ""

    @property
    def origin(self) -> str:
        """ASCII serialisation of a tuple origin."""
        if self.kind != "origin":
            return f"<{self.kind}:{self.why or self.scheme}>"
        return f"{self.scheme}://{self.host}" + (f":{self.port}" if self.port is not None else "")


def _fail(why: str) -> Resolved:
    return Resolved("failure", why=why)


def _unknown(why: str) -> Resolved:
    return Resolved("unknown", why=why)


# ---------------------------------------------------------------------------
# host parsing
# ---------------------------------------------------------------------------


def _percent_decode(s: str) -> bytes:
    out = bytearray()
    i = 0
    raw = s.encode("utf-8", "surrogatepass")
    while i < len(raw):
        b = raw[i]
        if b == 0x25 and i + 2 < len(raw) and chr(raw[i + 1]) in _HEX and chr(raw[i + 2]) in _HEX:
            out.append(int(raw[i + 1 : i + 3].decode("ascii"), 16))
            i += 3
        else:
            out.append(b)
            i += 1
    return bytes(out)


def _parse_ipv4_number(part: str) -> int | None:
    """WHATWG IPv4 number parser; None = failure."""
    if part == "":
        return None
    radix = 10
    if len(part) >= 2 and part[0] == "0" and part[1] in "xX":
        part = part[2:]
        radix = 16
    elif len(part) >= 2 and part[0] == "0":
        part = part[1:]
        radix = 8
    if part == "":
        return 0
    allowed = {10: _DIGIT, 16: _HEX, 8: frozenset("01234567")}[radix]
    if any(c not in allowed for c in part):
        return None
    return int(part, radix)


def _ends_in_a_number(domain: str) -> bool:
    parts = domain.split(".")
    if parts[-1] == "":
        if len(parts) == 1:
            return False
        parts.pop()
    last = parts[-1]
    if last != "" and all(c in _DIGIT for c in last):
        return True
    return _parse_ipv4_number(last) is not None and last != ""


def _parse_ipv4(domain: str) -> str | None:
    parts = domain.split(".")
    if parts[-1] == "" and len(parts) > 1:
        parts.pop()
    if len(parts) > 4:
        return None
    nums = []
    for p in parts:
        n = _parse_ipv4_number(p)
        if n is None:
            return None
        nums.append(n)
    if any(n > 255 for n in nums[:-1]):
        return None
    if nums[-1] >= 256 ** (5 - len(nums)):
        return None
    ipv4 = nums[-1]
    for i, n in enumerate(nums[:-1]):
        ipv4 += n * 256 ** (3 - i)
    return ".".join(str((ipv4 >> s) & 0xFF) for s in (24, 16, 8, 0))


def _parse_host(raw: str) -> tuple[str, str]:
    """-> (kind, value) with kind in host|failure|unknown."""
    if raw.startswith("["):
        if not raw.endswith("]"):
            return "failure", "ipv6-unclosed"
        inner = raw[1:-1]
        if not inner or any(c not in _HEX and c not in ":." for c in inner):
            return "failure", "ipv6-invalid-code-point"
        try:
            addr = ipaddress.IPv6Address(inner)
        except ValueError:
            return "failure", "ipv6-invalid"
        # WHATWG forbids an IPv4 tail with leading zeros / fewer than 4 parts; ipaddress agrees on both.
        return "host", f"[{_ipv6_hex_form(addr)}]"
    if any(ord(c) > 0x7F for c in raw):
        return "unknown", "non-ascii-host"
    decoded = _percent_decode(raw)
    if any(b > 0x7F for b in decoded):
        return "unknown", "non-ascii-host-after-percent-decoding"
    domain = decoded.decode("ascii").lower()
    if domain == "":
        return "failure", "host-empty"
    if any(label.startswith("xn--") for label in domain.split(".")):
        return "unknown", "punycode-label"
    if any(c in _FORBIDDEN_DOMAIN for c in domain):
        return "failure", "forbidden-domain-code-point"
    if _ends_in_a_number(domain):
        v4 = _parse_ipv4(domain)
        if v4 is None:
            return "failure", "ipv4-invalid"
        return "host", v4
    return "host", domain


def _ipv6_hex_form(addr: ipaddress.IPv6Address) -> str:
    """WHATWG IPv6 serializer: eight hex pieces, the first longest run (length > 1) of zero pieces compressed to '::'."""
    pieces = [(int(addr) >> (16 * (7 - i))) & 0xFFFF for i in range(8)]
    best_start, best_len = -1, 0
    i = 0
    while i < 8:
        if pieces[i] == 0:
            j = i
            while j < 8 and pieces[j] == 0:
                j += 1
            if j - i > best_len:
                best_start, best_len = i, j - i
            i = j
        else:
            i += 1
    if best_len < 2:
        return ":".join(f"{p:x}" for p in pieces)
    head = ":".join(f"{p:x}" for p in pieces[:best_start])
    tail = ":".join(f"{p:x}" for p in pieces[best_start + best_len :])
    return f"{head}::{tail}"


# ---------------------------------------------------------------------------
# path
# ---------------------------------------------------------------------------

_SINGLE_DOT = {".", "%2e"}
_DOUBLE_DOT = {"..", ".%2e", "%2e.", "%2e%2e"}


def _path_segments(start: list[str], rest: str, special: bool) -> list[str]:
    """Path state over *rest* (already without query/fragment); *start* = inherited segments."""
    segs = list(start)
    buf = []
    chars = list(rest) + [None]  # type: ignore[list-item]
    for idx, c in enumerate(chars):
        if c is None or c == "/" or (special and c == "\\"):
            seg = "".join(buf)
            buf = []
            low = seg.lower()
            if low in _DOUBLE_DOT:
                if segs:
                    segs.pop()
                if c is None:
                    segs.append("")
            elif low in _SINGLE_DOT:
                if c is None:
                    segs.append("")
            else:
                segs.append(seg)
        else:
            buf.append(c)
    return segs


def _cut_query_fragment(s: str) -> str:
    for i, c in enumerate(s):
        if c in "?#":
            return s[:i]
    return s


# ---------------------------------------------------------------------------
# resolver
# ---------------------------------------------------------------------------


def resolve(inp: str, base: Resolved | None) -> Resolved:
    """Resolve *inp* against *base* (an ``origin`` result with a path, or None)."""
    if base is not None and base.kind != "origin":
        return _unknown("base-not-tuple-origin")
    # 1. strip leading/trailing C0 control or space; 2. remove tab / LF / CR
    s = inp
    i, j = 0, len(s)
    while i < j and ord(s[i]) <= 0x20:
        i += 1
    while j > i and ord(s[j - 1]) <= 0x20:
        j -= 1
    s = s[i:j]
    s = "".join(c for c in s if c not in "\t\n\r")

    # scheme start / scheme state
    scheme = None
    rest = s
    if s and s[0] in _ALPHA:
        k = 1
        while k < len(s) and s[k] in _SCHEME_TAIL:
            k += 1
        if k < len(s) and s[k] == ":":
            scheme = s[:k].lower()
            rest = s[k + 1 :]
    if scheme is not None:
        if scheme == "file":
            return _unknown("file-scheme")
        if scheme not in SPECIAL_PORTS:
            return Resolved("nonspecial", scheme=scheme, why=scheme)
        if base is not None and base.scheme == scheme:
            # special relative or authority state
            if rest.startswith("//"):
                return _authority(scheme, _skip_slashes(rest[2:]))
            return _relative(scheme, rest, base)
        # special authority slashes state -> special authority ignore slashes state
        if rest.startswith("//"):
            rest = rest[2:]
        return _authority(scheme, _skip_slashes(rest))
    # no scheme state
    if base is None:
        return _fail("missing-scheme-non-relative-URL")
    return _relative(base.scheme, s, base)


def _skip_slashes(s: str) -> str:
    k = 0
    while k < len(s) and s[k] in "/\\":
        k += 1
    return s[k:]


def _relative(scheme: str, rest: str, base: Resolved) -> Resolved:
    """relative state / relative slash state for a special scheme."""
    base_segs = (base.path or "/").split("/")[1:]
    c = rest[0] if rest else None
    if c == "/" or c == "\\":
        # relative slash state
        c2 = rest[1] if len(rest) > 1 else None
        if c2 == "/" or c2 == "\\":
            return _authority(scheme, _skip_slashes(rest[2:]))
        segs = _path_segments([], _cut_query_fragment(rest[1:]), True)
        return Resolved("origin", scheme, base.host, base.port, "/" + "/".join(segs))
    if c is None or c in "?#":
        return Resolved("origin", scheme, base.host, base.port, base.path or "/")
    # path-relative: base path without its last segment
    segs = _path_segments(base_segs[:-1], _cut_query_fragment(rest), True)
    return Resolved("origin", scheme, base.host, base.port, "/" + "/".join(segs))


def _authority(scheme: str, s: str) -> Resolved:
    """authority state -> host state -> port state (-> path) for a special scheme."""
    end = len(s)
    for idx, c in enumerate(s):
        if c in "/?#\\":
            end = idx
            break
    auth, tail = s[:end], s[end:]
    if "@" in auth:
        hostport = auth.rsplit("@", 1)[1]
        if hostport == "":
            return _fail("host-missing-after-credentials")
    else:
        hostport = auth
    if any(ord(c) > 0x7F for c in hostport):
        return _unknown("non-ascii-host")
    # host state: first ':' outside brackets starts the port
    inside = False
    split_at = None
    for idx, c in enumerate(hostport):
        if c == "[":
            inside = True
        elif c == "]":
            inside = False
        elif c == ":" and not inside:
            split_at = idx
            break
    host_raw = hostport if split_at is None else hostport[:split_at]
    port_raw = None if split_at is None else hostport[split_at + 1 :]
    if host_raw == "":
        return _fail("host-missing")
    kind, host = _parse_host(host_raw)
    if kind == "unknown":
        return _unknown(host)
    if kind == "failure":
        return _fail(host)
    port: int | None = None
    if port_raw is not None and port_raw != "":
        if any(c not in _DIGIT for c in port_raw):
            return _fail("port-invalid")
        port = int(port_raw)
        if port > 65535:
            return _fail("port-out-of-range")
        if port == SPECIAL_PORTS[scheme]:
            port = None
    segs = _path_segments([], _cut_query_fragment(tail)[1:], True) if tail[:1] in ("/", "\\") else [""]
    return Resolved("origin", scheme, host, port, "/" + "/".join(segs))


def parse_absolute(url: str) -> Resolved:
    return resolve(url, None)


def is_loopback_host(host: str) -> bool:
    """Liberal reading of 'loopback': localhost names, 127.0.0.0/8, ::1 (being liberal only makes the oracle weaker)."""
    h = host.rstrip(".")
    if h == "localhost" or h.endswith(".localhost"):
        return True
    if h.startswith("["):
        try:
            return ipaddress.IPv6Address(h[1:-1]).is_loopback
        except ValueError:
            return False
    parts = h.split(".")
    return len(parts) == 4 and all(p.isdigit() for p in parts) and parts[0] == "127"

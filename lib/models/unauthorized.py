"""Reference composition model for HTTP 401s (C21), written from docs/unauthorized-spec.md
and docs/proxy-proof-spec.md section 8.  Nothing here imports the code under test.

An authenticator *tree* is JSON-able:

    {"t": "leaf", "kind": <leaf kind>, ...}
    {"t": "chain", "members": [tree, ...]}                       # OR
    {"t": "require_all", "mode": "allow"|"require", "inner": tree|None}   # gate AND inner

A *request* is a dict of credential states:
    authz  in none | basic | bearer_good | bearer_bad
    xfcc   in none | empty | ok
    pem    in none | junk
    proof  in none | valid | bad

``evaluate(tree, request)`` returns an ``Outcome``:
    kind         accept | reject | unavailable
    reason       closed-set code for a reject
    swallowable  whether an enclosing OR chain moves on to the next alternative
                 (credential failures) or must stop (precondition / permission failures,
                 outages) - proxy-proof-spec section 8 / unauthorized-spec section 3.1
"""

from __future__ import annotations

from dataclasses import dataclass
from typing import Any

CLOSED_SET = (
    "missing_credential",
    "invalid_credential",
    "expired_credential",
    "insufficient_scope",
    "proxy_required",
    "unauthorized",
)

PROOF_HEADER = "VGI-Proxy-Proof"
XFCC_HEADER = "x-forwarded-client-cert"
PEM_HEADER = "X-SSL-Client-Cert"
CUSTOM_PROXY_HEADER = "X-Edge-Verified"


@dataclass(frozen=True)
class Outcome:
    kind: str
    reason: str | None = None
    swallowable: bool = True


ACCEPT = Outcome("accept")


def combine(codes: list[str]) -> str:
    """Section 3.1: missing_credential only when every alternative agreed; else the first other code."""
    if not codes:
        return "unauthorized"
    if all(c == "missing_credential" for c in codes):
        return "missing_credential"
    for c in codes:
        if c != "missing_credential":
            return c
    return "unauthorized"


def _leaf(node: dict[str, Any], req: dict[str, str]) -> Outcome:
    kind = node["kind"]
    if kind == "accept":
        return ACCEPT
    if kind == "failure":  # AuthFailure(reason): a credential failure with a declared code
        return Outcome("reject", node["reason"], True)
    if kind == "value_error":  # unclassified credential failure
        return Outcome("reject", "unauthorized", True)
    if kind == "value_error_declared":  # ValueError subclass declaring its code through the documented attribute
        return Outcome("reject", node["reason"], True)
    if kind == "value_error_junk_attr":  # attribute present but not a member of the closed set
        return Outcome("reject", "unauthorized", True)
    if kind == "permission_error":  # identified but not permitted; never an alternative's "try next"
        return Outcome("reject", "insufficient_scope", False)
    if kind == "permission_error_declared":
        return Outcome("reject", node["reason"], False)
    if kind == "unavailable":
        return Outcome("unavailable", None, False)
    if kind == "bearer":
        a = req.get("authz", "none")
        if a == "none":
            return Outcome("reject", "missing_credential", True)
        if a == "bearer_good":
            return ACCEPT
        return Outcome("reject", "invalid_credential", True)
    if kind == "xfcc":
        x = req.get("xfcc", "none")
        if x == "none":
            return Outcome("reject", "proxy_required", True)
        if x == "empty":
            return Outcome("reject", "invalid_credential", True)
        return ACCEPT
    if kind == "pem":
        p = req.get("pem", "none")
        if p == "none":
            return Outcome("reject", "proxy_required", True)
        return Outcome("reject", "invalid_credential", True)
    if kind == "custom_proxy":  # third-party authenticator that declared a proxy header; fails with a chosen code
        return Outcome("reject", node["reason"], True)
    raise AssertionError(kind)


def evaluate(node: dict[str, Any] | None, req: dict[str, str]) -> Outcome:
    if node is None:
        return ACCEPT
    t = node["t"]
    if t == "leaf":
        return _leaf(node, req)
    if t == "chain":
        codes: list[str] = []
        for m in node["members"]:
            o = evaluate(m, req)
            if o.kind in ("accept", "unavailable"):
                return o
            if not o.swallowable:
                return o
            codes.append(o.reason or "unauthorized")
        return Outcome("reject", combine(codes), True)
    if t == "require_all":
        proven = req.get("proof", "none") == "valid"
        if node["mode"] == "require" and not proven:
            return Outcome("reject", "proxy_required", False)
        if node.get("inner") is None:
            return ACCEPT
        return evaluate(node["inner"], req)
    raise AssertionError(t)


def declared_headers(node: dict[str, Any] | None) -> list[str]:
    """Section 5.1: built-in mTLS / proof authenticators declare their header; composition carries it through."""
    if node is None:
        return []
    t = node["t"]
    out: list[str] = []
    if t == "leaf":
        if node["kind"] == "xfcc":
            out.append(XFCC_HEADER)
        elif node["kind"] == "pem":
            out.append(PEM_HEADER)
        elif node["kind"] == "custom_proxy":
            out.append(CUSTOM_PROXY_HEADER)
    elif t == "chain":
        for m in node["members"]:
            out.extend(declared_headers(m))
    elif t == "require_all":
        if node["mode"] == "require":  # allow mode never denies, so it contributes nothing (section 5.1)
            out.append(PROOF_HEADER)
        out.extend(declared_headers(node.get("inner")))
    return list(dict.fromkeys(out))


def alternatives_seen(node: dict[str, Any], req: dict[str, str]) -> list[str]:
    """Stand-alone codes of a chain's direct members (for the 'missing only if all missing' clause)."""
    out = []
    for m in node.get("members", []):
        o = evaluate(m, req)
        out.append(o.kind if o.kind != "reject" else (o.reason or "unauthorized"))
    return out


def shape(node: dict[str, Any] | None) -> str:
    if node is None:
        return "none"
    if node["t"] == "leaf":
        k = node["kind"]
        return k + (":" + node["reason"] if "reason" in node else "")
    if node["t"] == "chain":
        return "chain(" + ",".join(shape(m) for m in node["members"]) + ")"
    return f"require_all[{node['mode']}](" + shape(node.get("inner")) + ")"


def wants_html_strict(accept: str | None) -> bool:
    """Section 4.2: JSON is mandatory unless Accept contains text/html."""
    return "text/html" in (accept or "").lower()

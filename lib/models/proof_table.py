"""E5 reference model - proxy-proof verifier, written from docs/proxy-proof-spec.md only.

Sections used: 3 (token format / charsets / 512-byte bound), 4 (canonical string),
6 (nine-step table, first failing step decides the reason), 9 (claims of a verified
proof), 10 (nonce window = ``skew`` seconds, hard capacity, SHOULD evict oldest).

Nothing here imports ``vgi_rpc``.  No ``re``: every charset is an explicit set so the
model does not share regex pitfalls (``$`` vs ``\\Z``, ``\\d`` vs ``[0-9]``) with the
implementation under test.

Three-valued: ``Verdict.kind`` is ``"ok"``, ``"reject"`` or ``"unknown"``.  ``unknown``
marks places where the specification text does not decide:

* a MAC field that is a *non-canonical* base64url spelling (non-zero trailing bits)
  of the correct 32 bytes - "recomputed MAC does not match" can be read on the
  decoded bytes (match) or on the transmitted field (no match);
* a nonce presented again exactly ``skew`` seconds after it was remembered
  ("entries expire after skew seconds": boundary not fixed);
* a nonce whose first acceptance has left the window but which was *presented* (and
  refused as a replay) inside the window - "already seen" could mean either;
* a nonce evicted by the capacity cap (eviction policy is a SHOULD).
A nonce that took part in an ``unknown`` verdict is tainted: later verdicts that
depend on it are ``unknown`` too.
"""

from __future__ import annotations

import hashlib
import hmac
from dataclasses import dataclass, field

_UPPER = "ABCDEFGHIJKLMNOPQRSTUVWXYZ"
_LOWER = "abcdefghijklmnopqrstuvwxyz"
_DIGITS = "0123456789"
B64URL_ALPHABET = _UPPER + _LOWER + _DIGITS + "-_"
_B64URL = frozenset(B64URL_ALPHABET)
_KID_CHARS = _B64URL  # [A-Za-z0-9_-]
_TS_CHARS = frozenset(_DIGITS)
_ORIGIN_CHARS = frozenset(_UPPER + _LOWER + _DIGITS + "._:/-")

MAX_HEADER_BYTES = 512
DOMAIN_PREFIX = b"vgi.proxy.proof.v1"
DERIVE_LABEL = b"vgi.proxy.proof.v1/"

REASONS = ("no_proof", "malformed", "unknown_kid", "expired", "not_yet_valid", "bad_mac", "replayed")


def b64url_nopad(raw: bytes) -> str:
    """Unpadded base64url, implemented bit-wise (independent of the ``base64`` module)."""
    bits = 0
    nbits = 0
    out = []
    for byte in raw:
        bits = (bits << 8) | byte
        nbits += 8
        while nbits >= 6:
            nbits -= 6
            out.append(B64URL_ALPHABET[(bits >> nbits) & 0x3F])
    if nbits:
        out.append(B64URL_ALPHABET[(bits << (6 - nbits)) & 0x3F])
    return "".join(out)


def b64url_decode_bits(text: str) -> tuple[bytes, int]:
    """Decode unpadded base64url chars -> (whole bytes, value of the left-over trailing bits)."""
    bits = 0
    nbits = 0
    out = bytearray()
    for ch in text:
        bits = (bits << 6) | B64URL_ALPHABET.index(ch)
        nbits += 6
        if nbits >= 8:
            nbits -= 8
            out.append((bits >> nbits) & 0xFF)
            bits &= (1 << nbits) - 1
    return bytes(out), bits


def canonical(kid: str, ts: str, nonce: str, origin_id: str) -> bytes:
    """Spec section 4: NUL separated with the domain prefix."""
    return DOMAIN_PREFIX + b"\x00" + kid.encode("ascii") + b"\x00" + ts.encode("ascii") + b"\x00" + nonce.encode("ascii") + b"\x00" + origin_id.encode("ascii")


def mac_field(secret: bytes, kid: str, ts: str, nonce: str, origin_id: str) -> str:
    return b64url_nopad(hmac.new(secret, canonical(kid, ts, nonce, origin_id), hashlib.sha256).digest())


def mint(secret: bytes, kid: str, origin_id: str, ts: str, nonce: str) -> str:
    """Spec section 3 token for already-valid fields (no validation here: the generator owns that)."""
    return f"v1.{kid}.{ts}.{nonce}.{mac_field(secret, kid, ts, nonce, origin_id)}"


def derive(base_key: bytes, proxy_id: str, origin_id: str) -> bytes:
    """Spec section 5.1."""
    return hmac.new(base_key, DERIVE_LABEL + proxy_id.encode("ascii") + b"\x00" + origin_id.encode("ascii"), hashlib.sha256).digest()


def valid_origin(origin_id: str) -> bool:
    return 1 <= len(origin_id) <= 255 and all(c in _ORIGIN_CHARS for c in origin_id)


def _byte_len(value: str) -> int:
    try:
        return len(value.encode("utf-8", "surrogatepass"))
    except Exception:  # noqa: BLE001 - cannot happen with surrogatepass, kept total
        return len(value) * 4


@dataclass
class Verdict:
    kind: str  # "ok" | "reject" | "unknown"
    reason: str  # reason code, "ok", or why unknown
    step: str  # label of the deciding table row
    claims: dict[str, str] | None = None


@dataclass
class _NonceRec:
    accepted_at: float
    last_seen: float
    tainted: bool = False


@dataclass
class ProofModel:
    """Verifier state of one worker: configuration + history of remembered nonces."""

    secrets: dict[str, tuple[bytes, str]]
    origin_id: str
    skew: int
    replay_enabled: bool = True
    capacity: int = 100_000
    nonces: dict[str, _NonceRec] = field(default_factory=dict)
    evicted: dict[str, float] = field(default_factory=dict)

    # -- steps 1-4: pure string checks ----------------------------------------
    def parse(self, instances: list[str]) -> Verdict | tuple[str, str, str, str]:
        if len(instances) == 0:
            return Verdict("reject", "no_proof", "s1_absent")
        if len(instances) > 1:
            return Verdict("reject", "malformed", "s2_multi")
        value = instances[0]
        if value == "":
            return Verdict("reject", "malformed", "s2_empty")
        if _byte_len(value) > MAX_HEADER_BYTES or len(value) > MAX_HEADER_BYTES:
            return Verdict("reject", "malformed", "s2_too_long")
        fields = value.split(".")
        if len(fields) != 5:
            return Verdict("reject", "malformed", "s3_field_count")
        version, kid, ts, nonce, mac = fields
        if version != "v1":
            return Verdict("reject", "malformed", "s3_version")
        if not (1 <= len(kid) <= 64 and all(c in _KID_CHARS for c in kid)):
            return Verdict("reject", "malformed", "s4_kid")
        if not (1 <= len(ts) <= 20 and all(c in _TS_CHARS for c in ts)):
            return Verdict("reject", "malformed", "s4_ts")
        if not (len(nonce) == 22 and all(c in _B64URL for c in nonce)):
            return Verdict("reject", "malformed", "s4_nonce")
        if not (len(mac) == 43 and all(c in _B64URL for c in mac)):
            return Verdict("reject", "malformed", "s4_mac")
        return kid, ts, nonce, mac

    # -- full table ------------------------------------------------------------
    def verify(self, instances: list[str], now_wall: int, now_mono: float) -> Verdict:
        parsed = self.parse(instances)
        if isinstance(parsed, Verdict):
            return parsed
        kid, ts, nonce, mac = parsed
        entry = self.secrets.get(kid)
        if entry is None:
            return Verdict("reject", "unknown_kid", "s5_unknown_kid")
        secret, label = entry
        ts_int = 0
        for ch in ts:
            ts_int = ts_int * 10 + (ord(ch) - 48)
        if now_wall - ts_int > self.skew:
            return Verdict("reject", "expired", "s6_expired")
        if ts_int - now_wall > self.skew:
            return Verdict("reject", "not_yet_valid", "s7_not_yet_valid")
        want = hmac.new(secret, canonical(kid, ts, nonce, self.origin_id), hashlib.sha256).digest()
        got_bytes, trailing = b64url_decode_bits(mac)
        if got_bytes != want:
            return Verdict("reject", "bad_mac", "s8_bad_mac")
        if trailing != 0:
            # whether this presentation reached the nonce step is undecided too
            self.taint(nonce, now_mono)
            return Verdict("unknown", "noncanonical_b64_mac_trailing_bits", "s8_bad_mac")
        claims = {"verified": "true", "proxy": label, "kid": kid, "origin_id": self.origin_id, "reason": "ok"}
        if not self.replay_enabled:
            return Verdict("ok", "ok", "ok", claims)
        return self._nonce_step(nonce, now_mono, claims)

    def taint(self, nonce: str, now: float) -> None:
        """Record that *nonce* was presented at *now* in a way whose effect on the remembered set is undecided
        (the verifier may or may not have remembered it): verdicts that depend on it become ``unknown``."""
        if not self.replay_enabled:
            return
        rec = self.nonces.get(nonce)
        if rec is not None:
            rec.tainted = True
            rec.last_seen = max(rec.last_seen, now)
            self._taint_if_insert_could_evict(nonce, now)
        else:
            self.evicted.pop(nonce, None)
            self._remember(nonce, now, tainted=True)

    def _nonce_step(self, nonce: str, now: float, claims: dict[str, str]) -> Verdict:
        ttl = float(self.skew)
        rec = self.nonces.get(nonce)
        if rec is None:
            ev_at = self.evicted.pop(nonce, None)
            if ev_at is not None and now - ev_at <= ttl:
                self._remember(nonce, now, tainted=True)
                return Verdict("unknown", "nonce_evicted_by_capacity", "s9_replayed")
            self._remember(nonce, now)
            return Verdict("ok", "ok", "ok", claims)
        if rec.tainted:
            rec.last_seen = now
            # the real cache may not hold this nonce: then this presentation is accepted and INSERTED, and with the
            # cache at capacity the insertion evicts another live entry - which one is not decidable
            self._taint_if_insert_could_evict(nonce, now)
            return Verdict("unknown", "nonce_tainted_by_earlier_unknown", "s9_replayed")
        age = now - rec.accepted_at
        if age < 0:
            rec.tainted = True
            return Verdict("unknown", "monotonic_clock_went_backwards", "s9_replayed")
        if age < ttl:
            rec.last_seen = now
            return Verdict("reject", "replayed", "s9_replayed")
        if age == ttl:
            rec.tainted = True
            rec.last_seen = now
            return Verdict("unknown", "nonce_window_boundary", "s9_replayed")
        # first acceptance has left the window
        if now - rec.last_seen < ttl or now - rec.last_seen == ttl:
            if rec.last_seen != rec.accepted_at:
                rec.tainted = True
                rec.last_seen = now
                return Verdict("unknown", "nonce_presented_in_window_after_acceptance_left_it", "s9_replayed")
        del self.nonces[nonce]
        self._remember(nonce, now)
        return Verdict("ok", "ok", "ok", claims)

    def _taint_if_insert_could_evict(self, nonce: str, now: float) -> None:
        ttl = float(self.skew)
        others = [k for k, r in self.nonces.items() if k != nonce and (now - r.accepted_at < ttl or (r.tainted and now - r.last_seen < ttl))]
        if len(others) + 1 > self.capacity:
            for k in others:
                self.nonces[k].tainted = True

    def _remember(self, nonce: str, now: float, tainted: bool = False) -> None:
        ttl = float(self.skew)
        # drop entries that have left the window (they cannot matter any more)
        for k in [k for k, r in self.nonces.items() if now - max(r.accepted_at, r.last_seen) > ttl]:
            del self.nonces[k]
        # possibly-remembered (tainted) entries count as live from their last presentation on: the model must
        # never believe the real cache holds fewer entries than it may hold
        live = [k for k, r in self.nonces.items() if k != nonce and (now - r.accepted_at < ttl or (r.tainted and now - r.last_seen < ttl))]
        while len(live) >= self.capacity:
            if tainted or any(self.nonces[k].tainted for k in live):
                # which entry the cap evicts (if any) is not decidable: everything live becomes undecided
                for k in live:
                    self.nonces[k].tainted = True
                break
            oldest = min(live, key=lambda k: self.nonces[k].accepted_at)
            live.remove(oldest)
            self.evicted[oldest] = self.nonces[oldest].accepted_at
            del self.nonces[oldest]
        self.nonces[nonce] = _NonceRec(now, now, tainted)

"""E5 - reference model of the documented Python-annotation -> Arrow mapping.

Written from README "Supported types", docs/api/serialization.md and WIRE_PROTOCOL.md
section 4/5 (never from vgi_rpc.rpc._types):  str -> utf8, bytes -> binary, int -> int64,
float -> float64, bool -> bool, list[T] / frozenset[T] -> list(T), dict[K, V] -> map(K, V),
Enum -> dictionary(int16, utf8), Optional[T] -> T with nullable = true,
Annotated[T, ArrowType(x)] -> x, and at the RPC parameter / return level a dataclass is a
``binary`` column holding a complete IPC stream.  Specs are lib.tygen spec tuples.
"""

from __future__ import annotations

from typing import Any


def arrow_of(spec: tuple[Any, ...]) -> Any:
    import pyarrow as pa

    from lib import tygen

    k = spec[0]
    if k == "int":
        return pa.int64()
    if k == "float":
        return pa.float64()
    if k == "str":
        return pa.string()
    if k == "bytes":
        return pa.binary()
    if k == "bool":
        return pa.bool_()
    if k == "arrow":
        return tygen.ARROW_TYPES[spec[1]][1]
    if k == "opt":
        return arrow_of(spec[1])
    if k in ("list", "set"):
        return pa.list_(arrow_of(spec[1]))
    if k == "dict":
        return pa.map_(arrow_of(spec[1]), arrow_of(spec[2]))
    if k == "enum":
        return pa.dictionary(pa.int16(), pa.string())
    if k == "dc":
        return pa.binary()
    raise ValueError(spec)


def params_schema(params: list[tuple[Any, ...]]) -> Any:
    """Declared request schema: one column per parameter, in order; nullable iff ``X | None``."""
    import pyarrow as pa

    return pa.schema([pa.field(p[0], arrow_of(p[1]), nullable=(p[1][0] == "opt")) for p in params])


def result_field(ret: tuple[Any, ...] | None) -> Any | None:
    """The single ``result`` column of a unary response (None for ``-> None``)."""
    import pyarrow as pa

    if ret is None:
        return None
    return pa.field("result", arrow_of(ret), nullable=(ret[0] == "opt"))


def fields_schema(fields: list[tuple[str, tuple[Any, ...]]]) -> Any:
    """Schema of a flat dataclass (header) from (name, spec) pairs."""
    import pyarrow as pa

    return pa.schema([pa.field(n, arrow_of(s), nullable=(s[0] == "opt")) for n, s in fields])

"""XFCC generator model (C43).

The oracle for C43 is the *structure the generator built*: a header is a list of
elements, an element is a list of (key, value) pairs, and ``render`` turns it into
an ``x-forwarded-client-cert`` value following the Envoy grammar:

    header  = element *( "," element )
    element = pair *( ";" pair )
    pair    = key "=" value            ; keys are case-insensitive
    value   = token / DQUOTE *( qdtext / "\\" DQUOTE / "\\" "\\" ) DQUOTE
              ; a value containing "," ";" "=" or DQUOTE is double-quoted and
              ; DQUOTE inside it is written backslash-DQUOTE
    Cert / URI / By values are URL-encoded before quoting.

Nothing here parses a header; expectations are computed from the generated
structure only.
"""

from __future__ import annotations

import random
from dataclasses import dataclass, field
from typing import Any
from urllib.parse import quote

KNOWN = ("hash", "cert", "subject", "uri", "dns", "by")
URLENC = ("cert", "uri", "by")
KEY_SPELLINGS = {
    "hash": ["Hash", "hash", "HASH"],
    "cert": ["Cert", "cert", "CERT"],
    "subject": ["Subject", "subject", "SUBJECT", "sUbJeCt"],
    "uri": ["URI", "uri", "Uri"],
    "dns": ["DNS", "dns", "Dns"],
    "by": ["By", "by", "BY"],
    "chain": ["Chain", "chain"],
    "x-unknown": ["X-Unknown", "Foo"],
}

PLAIN = "abcdefghijklmnopqrstuvwxyzABCDEFGHIJKLMNOPQRSTUVWXYZ0123456789-._:/@"
DELIMS = [",", ";", "=", '"', " "]


@dataclass
class Pair:
    key: str  # canonical lower-case key
    value: str  # the logical (decoded, unescaped) value
    spelling: str = ""
    force_quote: bool = False
    backslash_style: str = "escaped"  # "escaped": \ -> \\ ; "literal": \ left as is (Envoy only escapes DQUOTE)
    urlsafe: str = ""


@dataclass
class Element:
    pairs: list[Pair] = field(default_factory=list)

    def expected(self) -> dict[str, Any]:
        """The fields a correct extraction yields for this element."""
        out: dict[str, Any] = {"hash": None, "cert": None, "subject": None, "uri": None, "by": None, "dns": ()}
        dns: list[str] = []
        for p in self.pairs:
            if p.key == "dns":
                dns.append(p.value)
            elif p.key in out:
                out[p.key] = p.value
        out["dns"] = tuple(dns)
        return out

    def duplicate_keys(self) -> set[str]:
        seen: set[str] = set()
        dup: set[str] = set()
        for p in self.pairs:
            if p.key != "dns" and p.key in seen:
                dup.add(p.key)
            seen.add(p.key)
        return dup


def needs_quote(text: str) -> bool:
    return any(c in text for c in ',;="\\') or text != text.strip()


def render_value(p: Pair) -> str:
    text = p.value
    if p.key in URLENC:
        text = quote(text, safe=p.urlsafe)
    if p.force_quote or needs_quote(text):
        if p.backslash_style == "escaped":
            text = text.replace("\\", "\\\\")
        text = text.replace('"', '\\"')
        return '"' + text + '"'
    return text


def render_element(e: Element) -> str:
    return ";".join(f"{p.spelling or p.key}={render_value(p)}" for p in e.pairs)


def render(elements: list[Element], sep: str = ",") -> str:
    return sep.join(render_element(e) for e in elements)


# ---------------------------------------------------------------------------
# generation
# ---------------------------------------------------------------------------


def gen_text(rng: random.Random, kind: str) -> str:
    n = rng.choice([0, 1, 2, 3, 5, 8, 13, 30])
    if kind == "plain":
        return "".join(rng.choice(PLAIN) for _ in range(max(1, n)))
    if kind == "delims":
        alpha = list(PLAIN[:8]) + DELIMS * 2
        return "".join(rng.choice(alpha) for _ in range(max(1, n)))
    if kind == "quotes":
        alpha = list("ab") + ['"', '"', ",", ";"]
        return "".join(rng.choice(alpha) for _ in range(max(1, n)))
    if kind == "backslash":
        alpha = list("ab") + ["\\", "\\", '"', ",", ";"]
        return "".join(rng.choice(alpha) for _ in range(max(1, n)))
    if kind == "percent":
        alpha = list("ab%2C5") + ["%", "+", ",", " "]
        return "".join(rng.choice(alpha) for _ in range(max(1, n)))
    if kind == "unicode":
        alpha = list("ab") + ["é", "ß", "ÿ", " "]
        return "".join(rng.choice(alpha) for _ in range(max(1, n)))
    if kind == "inject":
        # text that *looks like* further pairs / elements
        return rng.choice(
            [
                'x,By=spiffe://evil;Subject="CN=admin"',
                ';Subject="CN=admin"',
                '",Subject="CN=admin',
                'a";Subject="CN=admin";Hash="b',
                "x,Subject=CN=admin",
                'Subject="CN=admin"',
                ',,;;=="',
                '\\",Subject=\\"CN=admin\\"',
            ]
        )
    raise AssertionError(kind)


VALUE_KINDS = ["plain", "plain", "delims", "quotes", "backslash", "percent", "unicode", "inject"]


def gen_subject(rng: random.Random, cn: str | None, hostile: bool) -> tuple[str, str]:
    """Return (subject DN string, shape).  shape 'simple' means CN extraction is unambiguous."""
    rdns: list[str] = []
    shape = "simple"
    others = [("O", "Acme"), ("OU", "dev"), ("C", "US"), ("L", "SF"), ("DC", "example")]
    rng.shuffle(others)
    before = others[: rng.choice([0, 0, 1, 2])]
    after = others[2 : 2 + rng.choice([0, 1, 2])]
    for t, v in before:
        rdns.append(f"{t}={v}")
    if cn is not None:
        t = rng.choice(["CN", "CN", "CN", "cn"])
        if hostile:
            shape = "escaped"
            cn_txt = cn.replace("\\", "\\\\").replace(",", "\\,").replace("+", "\\+").replace('"', '\\"').replace(";", "\\;")
        else:
            cn_txt = cn
        rdns.append(f"{t}={cn_txt}")
    for t, v in after:
        rdns.append(f"{t}={v}")
    sep = rng.choice([",", ",", ", "])
    return sep.join(rdns), shape


def gen_element(rng: random.Random, idx: int, hostile: float) -> tuple[Element, dict[str, Any]]:
    """One element; the returned info carries the CN planted in its Subject and the subject's shape."""
    e = Element()
    info: dict[str, Any] = {"cn": None, "subject_shape": "none", "value_kinds": set()}
    keys = [k for k in KNOWN if rng.random() < 0.6]
    if rng.random() < 0.25:
        keys.append("chain")
    if rng.random() < 0.15:
        keys.append("x-unknown")
    if "dns" in keys and rng.random() < 0.5:
        keys.extend(["dns"] * rng.choice([1, 2]))
    if rng.random() < 0.06 and "uri" in keys:
        keys.append("uri")  # duplicate non-list key: expectation for that key is not judged
    rng.shuffle(keys)
    for k in keys:
        kind = rng.choice(VALUE_KINDS) if rng.random() < hostile else "plain"
        if k == "subject":
            cn: str | None
            if rng.random() < 0.85:
                if kind in ("plain", "unicode", "percent"):
                    cn = f"el{idx}-" + gen_text(rng, "plain")
                    host = False
                else:
                    cn = f"el{idx}-" + gen_text(rng, kind)
                    host = True
                if cn != cn.strip() or "  " in cn:
                    cn = cn.strip().replace("  ", " ") or f"el{idx}"
            else:
                cn, host = None, False
            value, shape = gen_subject(rng, cn, host)
            info["cn"] = cn
            info["subject_shape"] = shape if cn is not None else "no-cn"
        elif k == "dns":
            value = gen_text(rng, kind if kind != "percent" else "plain")
        elif k == "cert":
            value = "-----BEGIN CERTIFICATE-----\n" + gen_text(rng, "plain") + "\n-----END CERTIFICATE-----\n" if kind == "plain" else gen_text(rng, kind)
        else:
            value = gen_text(rng, kind)
        if value != value.strip() and rng.random() < 0.5:
            value = value.strip()
        p = Pair(k, value)
        p.spelling = rng.choice(KEY_SPELLINGS[k])
        p.force_quote = rng.random() < 0.3 or k == "subject" and rng.random() < 0.7
        if "\\" in value and rng.random() < 0.25:
            p.backslash_style = "literal"
        p.urlsafe = rng.choice(["", "", "/:", "/:,;=", "/:@ "])
        info["value_kinds"].add(kind)
        e.pairs.append(p)
    return e, info


def gen_header(rng: random.Random, hostile: float = 0.5) -> tuple[list[Element], list[dict[str, Any]], str]:
    n = rng.choice([1, 1, 2, 2, 3, 4])
    elements: list[Element] = []
    infos: list[dict[str, Any]] = []
    for i in range(n):
        e, info = gen_element(rng, i, hostile)
        if not e.pairs:
            e.pairs.append(Pair("hash", f"h{i}", "Hash"))
        elements.append(e)
        infos.append(info)
    sep = rng.choice([",", ",", ", ", " , "])
    return elements, infos, sep

"""E6 - verdicts, evidence files, replays and known findings.

A check creates one ``Check`` object, feeds it cases / monitor hits /
violations (directly or by merging shard results) and calls ``finish()``,
which writes ``evidence/<id>.json`` and returns the process exit code:

  0  held (possibly with KNOWN-FINDING lines)
  1  at least one violation whose mechanism key is not listed in
     ``known_findings.json``  ->  ``VIOLATION property=<id> replay=<path>``
  2  inconclusive (a deciding monitor was never reached, a shard died, ...)
"""

from __future__ import annotations

import hashlib
import json
import os
import random
import re
import sys
import time
from typing import Any

ROOT = os.path.dirname(os.path.dirname(os.path.abspath(__file__)))
EVIDENCE_DIR = os.environ.get("VERIF_EVIDENCE_DIR") or os.path.join(ROOT, "evidence")
REPLAY_DIR = os.environ.get("VERIF_REPLAY_DIR") or os.path.join(ROOT, "replays")
KNOWN_FINDINGS = os.path.join(ROOT, "known_findings.json")

MAX_SAMPLES = 6
MAX_WITNESS_PER_KEY = 3


def jsonable(obj: Any, depth: int = 0) -> Any:
    """Best-effort conversion of arbitrary objects to JSON-compatible values."""
    if depth > 8:
        return repr(obj)[:200]
    if obj is None or isinstance(obj, (bool, int, str)):
        return obj
    if isinstance(obj, float):
        if obj != obj or obj in (float("inf"), float("-inf")):
            return repr(obj)
        return obj
    if isinstance(obj, (bytes, bytearray, memoryview)):
        b = bytes(obj)
        if len(b) > 96:
            return {"bytes_hex_prefix": b[:96].hex(), "len": len(b)}
        return {"bytes_hex": b.hex()}
    if isinstance(obj, dict):
        return {str(k): jsonable(v, depth + 1) for k, v in list(obj.items())[:200]}
    if isinstance(obj, (list, tuple, set, frozenset)):
        seq = list(obj)
        out = [jsonable(v, depth + 1) for v in seq[:200]]
        if len(seq) > 200:
            out.append(f"... {len(seq) - 200} more")
        return out
    return repr(obj)[:400]


def load_known_findings() -> dict[str, Any]:
    try:
        with open(KNOWN_FINDINGS) as fh:
            return json.load(fh)
    except FileNotFoundError:
        return {"findings": [], "fixed": []}


class Check:
    """Accumulates what one run of one property's check observed."""

    def __init__(self, pid: str, tier: str, seed: int, level: str = "exploration", rule: str = "") -> None:
        self.pid = pid
        self.tier = tier
        self.seed = seed
        self.level = level
        self.rule = rule
        self.rng = random.Random(f"{pid}:{seed}")
        self.t0 = time.time()
        self.evaluations = 0
        self.classes: set[str] = set()
        self.hits: dict[str, int] = {}
        self.required: set[str] = set()
        self.samples: list[Any] = []
        self.unjudged: dict[str, int] = {}
        self.violations: dict[str, dict[str, Any]] = {}  # key -> {what, count, witnesses}
        self.inconclusive: list[str] = []
        self.extra: dict[str, Any] = {}
        self.assumptions: list[str] = []
        self.exhaustive: dict[str, bool] = {}

    # -- recording ---------------------------------------------------------
    def case(self, cls: str | None = None, n: int = 1) -> None:
        """Count one judged case; *cls* is its non-trivial equivalence class."""
        self.evaluations += n
        if cls is not None:
            self.classes.add(cls)

    def hit(self, monitor: str, n: int = 1) -> None:
        self.hits[monitor] = self.hits.get(monitor, 0) + n

    def require(self, *monitors: str) -> None:
        """Monitors that must have been reached at least once for 'held'."""
        self.required.update(monitors)

    def sample(self, obj: Any) -> None:
        if len(self.samples) < MAX_SAMPLES:
            self.samples.append(jsonable(obj))

    def skip(self, reason: str, n: int = 1) -> None:
        self.unjudged[reason] = self.unjudged.get(reason, 0) + n

    def violation(self, key: str, what: str, witness: Any = None) -> None:
        """Record a violation classified by mechanism *key* (no random values in it)."""
        v = self.violations.setdefault(key, {"what": what, "count": 0, "witnesses": []})
        v["count"] += 1
        if len(v["witnesses"]) < MAX_WITNESS_PER_KEY and witness is not None:
            v["witnesses"].append(jsonable(witness))

    def inconclusive_because(self, reason: str) -> None:
        if reason not in self.inconclusive:
            self.inconclusive.append(reason)

    # -- shard merge ---------------------------------------------------------
    def merge(self, res: dict[str, Any]) -> None:
        self.evaluations += int(res.get("evaluations", 0))
        self.classes.update(res.get("classes", []))
        for k, v in res.get("hits", {}).items():
            self.hits[k] = self.hits.get(k, 0) + int(v)
        for s in res.get("samples", []):
            self.sample(s)
        for k, v in res.get("unjudged", {}).items():
            self.unjudged[k] = self.unjudged.get(k, 0) + int(v)
        for key, v in res.get("violations", {}).items():
            mine = self.violations.setdefault(key, {"what": v["what"], "count": 0, "witnesses": []})
            mine["count"] += v["count"]
            for w in v["witnesses"]:
                if len(mine["witnesses"]) < MAX_WITNESS_PER_KEY:
                    mine["witnesses"].append(w)
        for r in res.get("inconclusive", []):
            self.inconclusive_because(r)
        for k, v in res.get("extra_counts", {}).items():
            self.extra[k] = self.extra.get(k, 0) + v

    def to_result(self) -> dict[str, Any]:
        """Serialise as a shard result (used by workers that build a Check of their own)."""
        return {
            "evaluations": self.evaluations,
            "classes": sorted(self.classes),
            "hits": self.hits,
            "samples": self.samples,
            "unjudged": self.unjudged,
            "violations": self.violations,
            "inconclusive": self.inconclusive,
            "extra_counts": {k: v for k, v in self.extra.items() if isinstance(v, (int, float))},
        }

    # -- finish --------------------------------------------------------------
    def finish(self) -> int:
        os.makedirs(EVIDENCE_DIR, exist_ok=True)
        known = load_known_findings()
        known_keys = {(f["property"], f["key"]): f for f in known.get("findings", [])}
        lines: list[str] = []
        unlisted: list[str] = []
        known_seen: list[str] = []
        for key, v in sorted(self.violations.items()):
            kf = known_keys.get((self.pid, key))
            if kf is not None:
                known_seen.append(key)
                lines.append(f"KNOWN-FINDING: property={self.pid} {key}: {kf.get('what', v['what'])} (seen {v['count']}x)")
            else:
                unlisted.append(key)
        for m in sorted(self.required):
            if self.hits.get(m, 0) == 0:
                self.inconclusive_because(f"monitor '{m}' was never reached")
        if self.evaluations == 0:
            self.inconclusive_because("no case was evaluated")

        replay_paths: list[str] = []
        if unlisted:
            os.makedirs(REPLAY_DIR, exist_ok=True)
            for key in unlisted:
                v = self.violations[key]
                safe = re.sub(r"[^A-Za-z0-9_.-]+", "_", key)[:80]
                h = hashlib.sha1(key.encode()).hexdigest()[:8]
                path = os.path.join(REPLAY_DIR, f"{self.pid}_{safe}_{h}.json")
                with open(path, "w") as fh:
                    json.dump(
                        {
                            "property": self.pid,
                            "tier": self.tier,
                            "seed": self.seed,
                            "key": key,
                            "what": v["what"],
                            "count": v["count"],
                            "witnesses": v["witnesses"],
                        },
                        fh,
                        indent=1,
                    )
                replay_paths.append(path)
                lines.append(f"VIOLATION property={self.pid} replay={path}")
                lines.append(f"  key={key}: {v['what']} (seen {v['count']}x)")

        distinct = len(self.classes)
        coverage: dict[str, Any] = {
            "evaluations": self.evaluations,
            "distinct_nontrivial": distinct,
            "rule": self.rule,
            "samples": self.samples if self.samples else [],
            "monitor_hits": dict(sorted(self.hits.items())),
            "unjudged": self.unjudged,
            "known_findings_seen": known_seen,
            "unlisted_violation_keys": unlisted,
            "inconclusive_reasons": self.inconclusive,
        }
        if self.exhaustive:
            coverage["exhaustive_subspaces"] = self.exhaustive
            coverage["exhaustive"] = all(self.exhaustive.values())
        reserved = {
            "evaluations", "distinct_nontrivial", "rule", "samples", "states", "transitions", "traces_validated_against_impl",
            "obligations", "discharged", "checker_cmd", "trusted_base", "programs", "disagreements_checked", "explanation", "exhaustive",
        }  # fmt: skip
        coverage.update({(f"x_{k}" if k in reserved else k): jsonable(v) for k, v in self.extra.items()})
        if not coverage["samples"]:
            # a check that recorded no explicit sample still shows what it ran: some of its case classes
            coverage["samples"] = [{"case_class": c} for c in sorted(self.classes)[:MAX_SAMPLES]]
        ev = {
            "property_id": self.pid,
            "tier": self.tier,
            "seed": self.seed,
            "level": self.level,
            "coverage": coverage,
            "assumptions": self.assumptions,
            "wall_s": round(time.time() - self.t0, 3),
            "violations": len(unlisted),
        }
        with open(os.path.join(EVIDENCE_DIR, f"{self.pid}.json"), "w") as fh:
            json.dump(ev, fh, indent=1, sort_keys=True)
            fh.write("\n")

        for ln in lines:
            print(ln)
        verdict = "held"
        code = 0
        if unlisted:
            verdict, code = "violated", 1
        elif self.inconclusive:
            verdict, code = "inconclusive", 2
            print(f"INCONCLUSIVE property={self.pid} reason={'; '.join(self.inconclusive)}")
        print(
            f"[{self.pid}] {verdict}: tier={self.tier} seed={self.seed} evaluations={self.evaluations} "
            f"distinct={distinct} monitors={dict(sorted(self.hits.items()))} unjudged={self.unjudged} "
            f"known={known_seen} wall={ev['wall_s']}s"
        )
        sys.stdout.flush()
        return code

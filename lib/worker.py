"""Shard entry point: python -m lib.worker <module> <func> <in.json> <out.json>."""

from __future__ import annotations

import faulthandler
import importlib
import json
import os
import sys


def main() -> int:
    faulthandler.enable()
    module, func, inp, outp = sys.argv[1:5]
    with open(inp) as fh:
        job = json.load(fh)
    mod = importlib.import_module(module)
    res = getattr(mod, func)(job)
    with open(outp, "w") as fh:
        json.dump(res, fh)
        fh.flush()
        os.fsync(fh.fileno())
    sys.stdout.flush()
    sys.stderr.flush()
    # Skip interpreter finalisation: checks leave daemon threads parked inside pyarrow /
    # socket reads, and tearing the runtime down under them can crash the process.
    os._exit(0)


if __name__ == "__main__":
    sys.exit(main())

"""Harness-owned child process entry points (E4).

  child.py stub --unix PATH --idle-timeout S      a tiny launcher-contract worker (binds, prints UNIX:<path>,
                                                  appends start/end lines to $VERIF_SPAWNLOG, accepts until $VERIF_STUB_LIFE s)
  child.py launch <state_dir> <seed> <delay_us> <start_at> <worker argv...>
                                                  calls vgi_rpc.launcher.launch() with seeded line-delay injection on
                                                  launcher.py, prints one JSON line {path, connect_ok, error}
"""

from __future__ import annotations

import json
import os
import random
import socket
import sys
import time

ROOT = os.path.dirname(os.path.dirname(os.path.abspath(__file__)))


def _log(line: str) -> None:
    p = os.environ.get("VERIF_SPAWNLOG")
    if p:
        fd = os.open(p, os.O_WRONLY | os.O_APPEND | os.O_CREAT, 0o644)
        try:
            os.write(fd, (line + "\n").encode())
        finally:
            os.close(fd)


def stub(argv: list[str]) -> int:
    path = argv[argv.index("--unix") + 1]
    life = float(os.environ.get("VERIF_STUB_LIFE", "4"))
    s = socket.socket(socket.AF_UNIX, socket.SOCK_STREAM)
    try:
        s.bind(path)
    except OSError as exc:
        _log(f"bindfail {os.getpid()} {time.time():.6f} {exc.errno}")
        return 1
    s.listen(int(os.environ.get("VERIF_STUB_BACKLOG", "16")))
    _log(f"start {os.getpid()} {time.time():.6f} {path}")
    print(f"UNIX:{path}", flush=True)
    s.settimeout(0.2)
    end = time.time() + life
    wedge_after = float(os.environ.get("VERIF_STUB_WEDGE_AFTER", "0") or 0)
    wedge_at = time.time() + wedge_after if wedge_after > 0 else None
    while time.time() < end:
        if wedge_at is not None and time.time() >= wedge_at:
            # a worker that still holds its listening socket but no longer accepts (stopped, deadlocked)
            _log(f"wedged {os.getpid()} {time.time():.6f} {path}")
            time.sleep(max(0.0, end - time.time()))
            _log(f"end {os.getpid()} {time.time():.6f} {path}")
            return 0  # the path may belong to a successor by now: leave it alone
        try:
            c, _ = s.accept()
            c.close()
            # like a real worker, whose idle timer restarts with every connection: a worker that has just
            # accepted one (the launcher's probe) keeps accepting for a while instead of vanishing in the same instant
            end = max(end, time.time() + 1.5)
        except TimeoutError:
            continue
        except OSError:
            break
    _log(f"end {os.getpid()} {time.time():.6f} {path}")
    s.close()
    try:
        os.unlink(path)
    except OSError:
        pass
    return 0


def launch(argv: list[str]) -> int:
    state_dir, seed, delay_us, start_at = argv[0], int(argv[1]), int(argv[2]), float(argv[3])
    worker_argv = argv[4:]
    if os.environ.get("VERIF_REPO"):
        sys.path.insert(0, os.environ["VERIF_REPO"])
    import vgi_rpc.launcher as L

    rng = random.Random(seed)
    if delay_us > 0:
        mon = sys.monitoring
        mon.use_tool_id(4, "verif-delay")
        target = L.__file__

        def on_line(code: object, lineno: int) -> object:
            if code.co_filename != target:  # type: ignore[attr-defined]
                return mon.DISABLE
            r = rng.random()
            if r < 0.25:
                time.sleep(rng.random() * delay_us / 1e6)
            elif r < 0.35:
                time.sleep(0)
            return None

        mon.register_callback(4, mon.events.LINE, on_line)
        mon.set_events(4, mon.events.LINE)
    now = time.time()
    if start_at > now:
        time.sleep(start_at - now)
    out: dict[str, object] = {"pid": os.getpid()}
    try:
        cfg = L.LaunchConfig(worker_argv=tuple(worker_argv), state_dir=state_dir, idle_timeout=5.0, worker_startup_timeout=20.0, connect_timeout=20.0)
        path = L.launch(cfg)
        out["path"] = path
        out["t_return"] = time.time()
        s = socket.socket(socket.AF_UNIX, socket.SOCK_STREAM)
        s.settimeout(2.0)
        try:
            s.connect(path)
            out["connect_ok"] = True
        except OSError as exc:
            out["connect_ok"] = False
            out["connect_err"] = repr(exc)
        finally:
            s.close()
    except Exception as exc:  # noqa: BLE001
        out["error"] = f"{type(exc).__name__}: {exc}"
    print(json.dumps(out), flush=True)
    return 0


if __name__ == "__main__":
    mode = sys.argv[1]
    sys.exit(stub(sys.argv[2:]) if mode == "stub" else launch(sys.argv[2:]))

"""E1 - run a program's call script over a transport configuration, recording client-visible traces.

A trace is a list (one entry per call) of event lists:
  ["log", level, message, extras]   ["header", {...}]   ["batch", pydict, user_meta]
  ["result", value]   ["error", error_type, message]   ["end"]   ["cancelled"] ["closed"]
Framework-owned log extras and batch metadata are stripped by an allow-list
approach (everything starting with ``vgi_rpc.`` and the tracing ids are dropped).
"""

from __future__ import annotations

import contextlib
import os
import pickle
import subprocess
import sys
import tempfile
import threading
from collections.abc import Iterator
from typing import Any

import pyarrow as pa

from lib import svcgen
from vgi_rpc.rpc import (
    AnnotatedBatch,
    RpcConnection,
    RpcError,
    RpcServer,
    ShmPipeTransport,
    SubprocessTransport,
    make_pipe_pair,
    make_tcp_pair,
    make_unix_pair,
)

ROOT = os.path.dirname(os.path.dirname(os.path.abspath(__file__)))
FRAMEWORK_EXTRAS = {"server_id", "request_id"}


def norm_meta(cm: pa.KeyValueMetadata | None) -> dict[str, str]:
    if cm is None:
        return {}
    out = {}
    for k, v in cm.items():
        ks = k.decode(errors="replace") if isinstance(k, bytes) else str(k)
        if ks.startswith("vgi_rpc."):
            continue
        out[ks] = v.decode(errors="replace") if isinstance(v, bytes) else str(v)
    return out


def norm_log(msg: Any) -> list[Any]:
    extra = {k: v for k, v in (msg.extra or {}).items() if k not in FRAMEWORK_EXTRAS}
    return ["log", msg.level.value, msg.message, extra]


def norm_batch(ab: AnnotatedBatch) -> list[Any]:
    return ["batch", {"schema": str(ab.batch.schema), "rows": ab.batch.num_rows, "data": ab.batch.to_pydict()}, norm_meta(ab.custom_metadata)]


class OnLogRaise(Exception):
    """Raised by the harness' on_log callback at a chosen delivery index."""


def run_calls(proxy: Any, program: dict[str, Any], *, collect_log: list[Any] | None = None, calls: list[dict[str, Any]] | None = None) -> list[list[Any]]:
    """Drive *calls* through *proxy*; proxy must have been created with on_log=collect_log.append-like sink."""
    methods = {m["name"]: m for m in program["methods"]}
    traces: list[list[Any]] = []
    sink = collect_log if collect_log is not None else []
    for call in calls if calls is not None else program["calls"]:
        ev: list[Any] = []
        sink.clear()
        m = methods.get(call["m"])
        kind = m["kind"] if m is not None else call.get("kind", "unary")

        def flush(ev: list[Any] = ev) -> None:
            ev.extend(sink)
            sink.clear()

        try:
            fn = getattr(proxy, call["m"])
            if kind == "unary":
                try:
                    res = fn(**call["args"])
                    flush()
                    ev.append(["result", res])
                except RpcError as e:
                    flush()
                    ev.append(["error", e.error_type, e.error_message])
            elif kind == "producer":
                try:
                    sess = fn(**call["args"])
                except RpcError as e:
                    flush()
                    ev.append(["error", e.error_type, e.error_message])
                    traces.append(ev)
                    continue
                flush()
                if getattr(sess, "header", None) is not None:
                    h = sess.header
                    ev.append(["header", {"label": h.label, "n": h.n}])
                take = call.get("take")
                n = 0
                try:
                    if take is None:
                        for ab in sess:
                            flush()
                            ev.append(norm_batch(ab))
                            if call.get("release", True):
                                ab.release()
                        flush()
                        ev.append(["end"])
                    else:
                        it = iter(sess)
                        ended = False
                        while n < take:
                            try:
                                ab = next(it)
                            except StopIteration:
                                flush()
                                ev.append(["end"])
                                ended = True
                                break
                            flush()
                            ev.append(norm_batch(ab))
                            if call.get("release", True):
                                ab.release()
                            n += 1
                        if not ended:
                            end = call.get("end", "close")
                            if end == "abandon":
                                ev.append(["abandoned"])
                            for op in [] if end == "abandon" else end.split("+"):  # e.g. "cancel+close": cancel(), then close()
                                if op == "cancel":
                                    sess.cancel()
                                    sink.clear()
                                    ev.append(["cancelled"])
                                elif op == "close":
                                    sess.close()
                                    sink.clear()
                                    ev.append(["closed"])
                                else:
                                    raise ValueError(f"unknown end op {op!r}")
                except RpcError as e:
                    flush()
                    ev.append(["error", e.error_type, e.error_message])
            elif kind == "exchange":
                try:
                    sess = fn(**call["args"])
                except RpcError as e:
                    flush()
                    ev.append(["error", e.error_type, e.error_message])
                    traces.append(ev)
                    continue
                flush()
                if getattr(sess, "header", None) is not None:
                    h = sess.header
                    ev.append(["header", {"label": h.label, "n": h.n}])
                in_schema = svcgen.schema_of(m["in_cols"]) if m is not None else None
                failed = False
                try:
                    for inp in call.get("inputs", []):
                        if isinstance(inp, dict) and "__cols__" in inp:
                            # an input whose columns differ from the declared input schema: {"__cols__": {name: arrow type name}, ...}
                            cols = inp["__cols__"]
                            b = pa.RecordBatch.from_pydict({k: v for k, v in inp.items() if k != "__cols__"}, schema=pa.schema([pa.field(k, getattr(pa, t)()) for k, t in cols.items()]))
                        else:
                            b = inp if isinstance(inp, pa.RecordBatch) else pa.RecordBatch.from_pydict(inp, schema=in_schema)
                        ab = sess.exchange(AnnotatedBatch(batch=b))
                        flush()
                        ev.append(norm_batch(ab))
                        ab.release()
                except RpcError as e:
                    flush()
                    ev.append(["error", e.error_type, e.error_message])
                    failed = True
                if not failed:
                    for op in call.get("end", "close").split("+"):
                        if op == "cancel":
                            sess.cancel()
                            sink.clear()
                            ev.append(["cancelled"])
                        else:
                            sess.close()
                            sink.clear()
                            ev.append(["closed"])
        except OnLogRaise:
            flush()
            ev.append(["on_log_raised"])
        traces.append(ev)
    return traces


# ---------------------------------------------------------------------------
# transports
# ---------------------------------------------------------------------------


@contextlib.contextmanager
def open_transport(program: dict[str, Any], cfg: dict[str, Any], on_log: Any) -> Iterator[tuple[Any, Any]]:
    """Yield (proxy, impl_or_None) for the transport configuration *cfg*.

    cfg["kind"] in pipe | unix | tcp | shm | subprocess | http.
    """
    kind = cfg["kind"]
    ext = cfg.get("external_location")
    if kind in ("pipe", "unix", "tcp", "shm"):
        proto, impl = svcgen.build(program)
        if kind == "pipe":
            ct, st = make_pipe_pair()
        elif kind == "unix":
            ct, st = make_unix_pair()
        elif kind == "tcp":
            ct, st = make_tcp_pair()
        else:
            from vgi_rpc.shm import ShmSegment

            cp, sp = make_pipe_pair()
            seg = ShmSegment.create(cfg.get("shm_size", 1 << 20))
            ct, st = ShmPipeTransport(cp, seg), ShmPipeTransport(sp, seg)
        server = RpcServer(proto, impl, external_location=ext, enable_describe=cfg.get("describe", False))
        th = threading.Thread(target=_serve_quiet, args=(server, st), daemon=True)
        th.start()
        try:
            with RpcConnection(proto, ct, on_log=on_log, external_location=ext) as proxy:
                yield proxy, impl
        finally:
            with contextlib.suppress(Exception):
                ct.close()
            th.join(timeout=5)
            with contextlib.suppress(Exception):
                st.close()
            if kind == "shm":
                impl._shm_alloc_count = _alloc_count(seg)
                with contextlib.suppress(Exception):
                    seg.unlink()
                with contextlib.suppress(Exception):
                    seg.close()
    elif kind == "subprocess":
        proto, _impl = svcgen.build(program)
        with tempfile.TemporaryDirectory(prefix="verif-sub-") as td:
            pf = os.path.join(td, "program.pkl")
            with open(pf, "wb") as fh:
                pickle.dump(program, fh)
            tr = SubprocessTransport([sys.executable, os.path.join(ROOT, "lib", "svcworker.py"), pf, os.path.join(td, "inv.jsonl")])
            try:
                with RpcConnection(proto, tr, on_log=on_log, external_location=ext) as proxy:
                    yield proxy, None
            finally:
                with contextlib.suppress(Exception):
                    tr.close()
    elif kind == "http":
        from vgi_rpc.http import http_connect
        from vgi_rpc.http._testing import make_sync_client

        proto, impl = svcgen.build(program)
        server = RpcServer(proto, impl, external_location=cfg.get("server_external_location", ext), enable_describe=cfg.get("describe", False))
        kw = dict(cfg.get("app_kwargs", {}))
        client = make_sync_client(server, **kw)
        impl._http_client = client
        with http_connect(
            proto,
            client=client,
            on_log=on_log,
            external_location=ext,
            compression_level=cfg.get("request_compression", None),
        ) as proxy:
            yield proxy, impl
    else:
        raise ValueError(kind)


def _serve_quiet(server: RpcServer, transport: Any) -> None:
    try:
        server.serve(transport)
    except Exception as exc:  # recorded for C04/C05 style monitors
        server.implementation._serve_died = exc  # type: ignore[attr-defined]


def _alloc_count(seg: Any) -> int:
    try:
        return int(seg.allocator.num_allocs)  # type: ignore[attr-defined]
    except Exception:
        return -1


def run_program(program: dict[str, Any], cfg: dict[str, Any], *, calls: list[dict[str, Any]] | None = None) -> dict[str, Any]:
    """Run the whole call script on one transport configuration."""
    logs: list[Any] = []

    def on_log(msg: Any) -> None:
        logs.append(norm_log(msg))

    with open_transport(program, cfg, on_log) as (proxy, impl):
        traces = run_calls(proxy, program, collect_log=logs, calls=calls)
        inv = list(impl.inv) if impl is not None else None
    return {"traces": traces, "inv": inv, "impl": impl}


def kill_stray_children() -> None:
    with contextlib.suppress(Exception):
        subprocess.run(["pkill", "-f", "lib.svcworker"], check=False)

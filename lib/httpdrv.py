"""E2 - raw WSGI driver: arbitrary (verb, path, headers, body) against the Falcon app.

``call(app, verb, path, headers, body)`` invokes the WSGI callable directly and
returns a ``Resp`` with the status code, the header list exactly as handed to
``start_response`` and the undecoded body bytes - i.e. the HTTP boundary before
any client decoding.  ``ipc_*`` helpers build / parse Arrow IPC bodies.
"""

from __future__ import annotations

import io
import time
from dataclasses import dataclass, field
from typing import Any

import pyarrow as pa
from pyarrow import ipc

ARROW_CT = "application/vnd.apache.arrow.stream"


@dataclass
class Resp:
    status: int
    headers: list[tuple[str, str]]
    body: bytes
    t_call: float = 0.0
    t_return: float = 0.0
    exc: BaseException | None = None
    _h: dict[str, str] = field(default_factory=dict)

    def header(self, name: str) -> str | None:
        if not self._h:
            for k, v in self.headers:
                self._h.setdefault(k.lower(), v)
        return self._h.get(name.lower())

    def all_headers(self, name: str) -> list[str]:
        return [v for k, v in self.headers if k.lower() == name.lower()]

    def decoded_body(self) -> bytes:
        """Body with Content-Encoding / X-VGI-Content-Encoding undone (zstd, gzip)."""
        enc = (self.header("content-encoding") or self.header("x-vgi-content-encoding") or "").strip().lower()
        if enc in ("", "identity"):
            return self.body
        if enc == "zstd":
            import zstandard

            return zstandard.ZstdDecompressor().stream_reader(io.BytesIO(self.body)).read()
        if enc == "gzip":
            import zlib

            return zlib.decompress(self.body, 31)
        raise ValueError(f"unknown response coding {enc!r}")


class _NoLenStream(io.BytesIO):
    """wsgi.input for chunked requests (no Content-Length)."""


def call(
    app: Any,
    verb: str,
    path: str,
    headers: dict[str, str] | list[tuple[str, str]] | None = None,
    body: bytes | None = b"",
    *,
    query: str = "",
    chunked: bool = False,
    remote_addr: str = "127.0.0.1",
    scheme: str = "http",
    host: str = "localhost",
) -> Resp:
    """Invoke the WSGI app once; never raises (an escaped exception is stored in ``exc`` with status 599)."""
    hdrs = list(headers.items()) if isinstance(headers, dict) else list(headers or [])
    body = body or b""
    environ: dict[str, Any] = {
        "REQUEST_METHOD": verb,
        "SCRIPT_NAME": "",
        "PATH_INFO": path,
        "RAW_URI": path + (("?" + query) if query else ""),
        "QUERY_STRING": query,
        "SERVER_NAME": host,
        "SERVER_PORT": "80" if scheme == "http" else "443",
        "SERVER_PROTOCOL": "HTTP/1.1",
        "REMOTE_ADDR": remote_addr,
        "HTTP_HOST": host,
        "wsgi.version": (1, 0),
        "wsgi.url_scheme": scheme,
        "wsgi.input": io.BytesIO(body),
        "wsgi.errors": io.StringIO(),
        "wsgi.multithread": True,
        "wsgi.multiprocess": False,
        "wsgi.run_once": False,
    }
    has_cl = False
    for k, v in hdrs:
        kl = k.lower()
        if kl == "content-type":
            environ["CONTENT_TYPE"] = v
        elif kl == "content-length":
            environ["CONTENT_LENGTH"] = v
            has_cl = True
        else:
            key = "HTTP_" + k.upper().replace("-", "_")
            environ[key] = (environ[key] + "," + v) if key in environ and kl != "host" else v
    if chunked:
        environ["HTTP_TRANSFER_ENCODING"] = "chunked"
        environ["wsgi.input_terminated"] = True
        environ.pop("CONTENT_LENGTH", None)
    elif not has_cl and verb in ("POST", "PUT", "PATCH", "DELETE"):
        environ["CONTENT_LENGTH"] = str(len(body))
    captured: dict[str, Any] = {}

    def start_response(status: str, response_headers: list[tuple[str, str]], exc_info: Any = None) -> Any:
        captured["status"] = status
        captured["headers"] = list(response_headers)
        return lambda b: None

    t0 = time.monotonic()
    try:
        result = app(environ, start_response)
        chunks = []
        try:
            for c in result:
                chunks.append(c)
        finally:
            close = getattr(result, "close", None)
            if close is not None:
                close()
        out = b"".join(chunks)
        status = int(str(captured.get("status", "599")).split()[0])
        return Resp(status, captured.get("headers", []), out, t0, time.monotonic())
    except BaseException as exc:  # noqa: BLE001 - boundary recorder
        return Resp(599, captured.get("headers", []), b"", t0, time.monotonic(), exc=exc)


# ---------------------------------------------------------------------------
# IPC helpers
# ---------------------------------------------------------------------------


def ipc_bytes(batch: pa.RecordBatch, metadata: dict[bytes, bytes] | None = None, *, extra_batches: list[tuple[pa.RecordBatch, dict[bytes, bytes] | None]] | None = None) -> bytes:
    """One IPC stream: schema + batch (+custom metadata) [+ extra batches] + EOS."""
    sink = io.BytesIO()
    with ipc.new_stream(sink, batch.schema) as w:
        if metadata is not None:
            w.write_batch(batch, custom_metadata=pa.KeyValueMetadata(metadata))
        else:
            w.write_batch(batch)
        for b, md in extra_batches or []:
            if md is not None:
                w.write_batch(b, custom_metadata=pa.KeyValueMetadata(md))
            else:
                w.write_batch(b)
    return sink.getvalue()


def request_body(
    method: str,
    schema: pa.Schema,
    row: dict[str, Any] | None,
    *,
    extra_md: dict[bytes, bytes] | None = None,
    version: bytes | None = b"1",
    include_method: bool = True,
) -> bytes:
    """A request body as the Python client would write it (one row)."""
    md: dict[bytes, bytes] = {}
    if include_method:
        md[b"vgi_rpc.method"] = method.encode()
    if version is not None:
        md[b"vgi_rpc.request_version"] = version
    if extra_md:
        md.update(extra_md)
    if len(schema) == 0:
        batch = pa.RecordBatch.from_pydict({}, schema=schema)
    else:
        batch = pa.RecordBatch.from_pydict({k: [v] for k, v in (row or {}).items()}, schema=schema)
    return ipc_bytes(batch, md)


def parse_ipc(body: bytes) -> list[tuple[pa.RecordBatch, dict[str, bytes]]]:
    """All (batch, metadata) pairs of one IPC stream; raises on undecodable bytes."""
    out = []
    reader = ipc.open_stream(io.BytesIO(body))
    while True:
        try:
            b, md = reader.read_next_batch_with_custom_metadata()
        except StopIteration:
            break
        out.append((b, {k.decode(): v for k, v in (md or {}).items()}))
    return out


def parse_ipc_multi(body: bytes) -> list[list[tuple[pa.RecordBatch, dict[str, bytes]]]]:
    """Several concatenated IPC streams (HTTP init response: [header stream] + data stream)."""
    streams = []
    buf = pa.BufferReader(body)
    while buf.tell() < len(body):
        reader = ipc.open_stream(buf)
        cur = []
        while True:
            try:
                b, md = reader.read_next_batch_with_custom_metadata()
            except StopIteration:
                break
            cur.append((b, {k.decode(): v for k, v in (md or {}).items()}))
        streams.append(cur)
    return streams


def error_of(batches: list[tuple[pa.RecordBatch, dict[str, bytes]]]) -> dict[str, Any] | None:
    """Decode the first EXCEPTION-level batch, if any: {type, message, kind, extra}."""
    import json

    for b, md in batches:
        if b.num_rows == 0 and md.get("vgi_rpc.log_level") == b"EXCEPTION":
            extra: dict[str, Any] = {}
            try:
                extra = json.loads(md.get("vgi_rpc.log_extra", b"{}").decode())
            except Exception:  # noqa: BLE001
                extra = {}
            return {
                "type": extra.get("exception_type"),
                "message": md.get("vgi_rpc.log_message", b"").decode(errors="replace"),
                "kind": (md.get("vgi_rpc.error_kind") or b"").decode(errors="replace") or None,
                "extra": extra,
            }
    return None

"""E3 - deterministic cooperative scheduler for real threads running real code.

Exactly one registered *actor* thread runs at a time (baton passing on per-actor
semaphores).  Yield points come from
  * ``sys.monitoring`` events (PY_START and/or LINE) restricted to chosen files,
  * shim synchronisation objects (``shim_threading(sched)`` returns a module-like
    object whose Lock / RLock are scheduler aware; rebind the module-level name
    ``threading`` of the module under test to it *before* constructing objects),
  * explicit ``sched.point(label)`` calls from harness-supplied callbacks.
A virtual clock (``shim_time(sched)``) only advances when an actor says so.

One ``Scheduler`` object = one execution.  A *strategy* decides at every point
which runnable actor continues; the decision list is recorded, so an execution
is replayable from its decisions.  ``explore_dfs`` enumerates schedules up to a
preemption bound by stateless re-execution; ``explore_pct`` / ``explore_random``
sample.
"""

from __future__ import annotations

import random
import sys
import threading
import types
from collections.abc import Callable, Iterable
from typing import Any

_real_threading = threading
TOOL_ID = 3


class Deadlock(Exception):
    """No runnable actor although some actors are not finished."""


class ReplayDiverged(Exception):
    """The recorded decision list no longer fits the execution."""


class _Abort(BaseException):
    """Raised inside actors to unwind them when an execution is torn down."""


class Actor:
    def __init__(self, name: str, fn: Callable[[], Any], idx: int) -> None:
        self.name = name
        self.fn = fn
        self.idx = idx
        self.sem = _real_threading.Semaphore(0)
        self.done = False
        self.blocked_on: Any = None
        self.exc: BaseException | None = None
        self.result: Any = None
        self.thread: threading.Thread | None = None
        self.steps = 0


class Strategy:
    """Chooses the next actor at a yield point.  ``choose`` returns an index into *runnable*."""

    def choose(self, sched: Scheduler, current: Actor | None, runnable: list[Actor], label: str) -> int:
        raise NotImplementedError


class FixedStrategy(Strategy):
    """Replay a decision list: at yield point number k continue with actor index decisions[k].

    After the list is exhausted: keep running the current actor when runnable,
    else the lowest-index runnable actor (non-preemptive default).
    """

    def __init__(self, decisions: list[int], strict: bool = False) -> None:
        self.decisions = decisions
        self.strict = strict
        self.k = 0

    def choose(self, sched: Scheduler, current: Actor | None, runnable: list[Actor], label: str) -> int:
        k = self.k
        self.k += 1
        if k < len(self.decisions):
            want = self.decisions[k]
            for i, a in enumerate(runnable):
                if a.idx == want:
                    return i
            if self.strict:
                raise ReplayDiverged(f"decision {k}: actor {want} not runnable at {label}")
        if current is not None and current in runnable:
            return runnable.index(current)
        return 0


class RandomStrategy(Strategy):
    def __init__(self, rng: random.Random, switch_prob: float = 0.3) -> None:
        self.rng = rng
        self.p = switch_prob

    def choose(self, sched: Scheduler, current: Actor | None, runnable: list[Actor], label: str) -> int:
        if current is not None and current in runnable and self.rng.random() > self.p:
            return runnable.index(current)
        return self.rng.randrange(len(runnable))


class PCTStrategy(Strategy):
    """PCT: random priorities, d-1 priority change points among the first *horizon* steps."""

    def __init__(self, rng: random.Random, nactors: int, depth: int = 3, horizon: int = 400) -> None:
        prios = list(range(depth, depth + nactors))
        rng.shuffle(prios)
        self.prio = dict(enumerate(prios))
        self.change = sorted(rng.randrange(1, max(2, horizon)) for _ in range(max(0, depth - 1)))
        self.step = 0
        self.low = depth - 1

    def choose(self, sched: Scheduler, current: Actor | None, runnable: list[Actor], label: str) -> int:
        self.step += 1
        while self.change and self.change[0] <= self.step:
            self.change.pop(0)
            if current is not None:
                self.prio[current.idx] = self.low
                self.low -= 1
        best = max(range(len(runnable)), key=lambda i: self.prio.get(runnable[i].idx, 0))
        return best


class Scheduler:
    """One controlled execution of a set of actors."""

    def __init__(self, strategy: Strategy, *, max_steps: int = 20000, watchdog_s: float = 20.0) -> None:
        self.strategy = strategy
        self.actors: list[Actor] = []
        self.by_thread: dict[int, Actor] = {}
        self.current: Actor | None = None
        self.trace: list[tuple[int, str]] = []  # (actor idx chosen, label) per yield point
        self.decisions: list[int] = []
        self.options: list[list[int]] = []  # runnable actor idxs at each point
        self.cur_at: list[int] = []  # actor that reached the point (-1 at start)
        self.switch_labels: set[tuple[str, str]] = set()
        self.preemptions = 0
        self.max_steps = max_steps
        self.watchdog_s = watchdog_s
        self.events: list[tuple[Any, ...]] = []  # monitor event log (harness appends)
        self.now = 1_000_000.0  # virtual clock
        self.aborting = False
        self.deadlock = False
        self.step_limit_hit = False
        self._main_sem = _real_threading.Semaphore(0)
        self._mon_files: tuple[str, ...] = ()
        self._mon_events = 0
        self.in_sched = False

    # -- registration --------------------------------------------------------
    def actor(self, name: str, fn: Callable[[], Any]) -> Actor:
        a = Actor(name, fn, len(self.actors))
        self.actors.append(a)
        return a

    def log(self, *event: Any) -> None:
        cur = self.current
        self.events.append((cur.name if cur else "?", *event))

    # -- core ---------------------------------------------------------------
    def _runnable(self) -> list[Actor]:
        return [a for a in self.actors if not a.done and a.blocked_on is None]

    def me(self) -> Actor | None:
        return self.by_thread.get(_real_threading.get_ident())

    def point(self, label: str) -> None:
        """A yield point reached by the current actor (no-op for non-actor threads)."""
        me = self.me()
        if me is None or me is not self.current or self.in_sched:
            return
        if self.aborting:
            raise _Abort()
        self._switch(me, label, blocked=False)

    def _switch(self, me: Actor | None, label: str, blocked: bool) -> None:
        self.in_sched = True
        try:
            if len(self.trace) >= self.max_steps:
                self.step_limit_hit = True
                self.aborting = True
                self._release_everyone()
                raise _Abort()
            runnable = self._runnable()
            if not runnable:
                if all(a.done for a in self.actors):
                    self._main_sem.release()
                    return
                self.deadlock = True
                self.aborting = True
                self._release_everyone()
                if me is not None and not me.done:
                    raise _Abort()
                return
            try:
                i = self.strategy.choose(self, None if blocked else me, runnable, label)
            except ReplayDiverged as exc:
                self.diverged = str(exc)
                self.aborting = True
                self._release_everyone()
                raise _Abort() from None
            nxt = runnable[i]
            self.trace.append((nxt.idx, label))
            self.decisions.append(nxt.idx)
            self.options.append([a.idx for a in runnable])
            self.cur_at.append(-1 if me is None else me.idx)
            if me is not None and nxt is not me:
                if not blocked and not me.done:
                    self.preemptions += 1
                self.switch_labels.add((me.name, label))
            self.current = nxt
        finally:
            self.in_sched = False
        if nxt is me:
            return
        nxt.sem.release()
        if me is not None and not me.done:
            me.sem.acquire()
            if self.aborting:
                raise _Abort()

    def _release_everyone(self) -> None:
        for a in self.actors:
            a.sem.release()
        self._main_sem.release()

    def _actor_main(self, a: Actor) -> None:
        self.by_thread[_real_threading.get_ident()] = a
        a.sem.acquire()
        try:
            if not self.aborting:
                a.result = a.fn()
        except _Abort:
            pass
        except BaseException as exc:  # noqa: BLE001 - recorded for the check
            a.exc = exc
        finally:
            a.done = True
            if not self.aborting:
                try:
                    self._switch(a, f"exit:{a.name}", blocked=True)
                except _Abort:
                    pass

    def run(self) -> None:
        """Start all actors and run the schedule to completion (or deadlock / step limit)."""
        for a in self.actors:
            a.thread = _real_threading.Thread(target=self._actor_main, args=(a,), daemon=True, name=f"actor-{a.name}")
            a.thread.start()
        try:
            self._switch(None, "start", blocked=True)
        except _Abort:
            pass
        ok = self._main_sem.acquire(timeout=self.watchdog_s)
        if not ok:
            self.aborting = True
            self.watchdog_fired = True
            self._release_everyone()
        for a in self.actors:
            assert a.thread is not None
            a.thread.join(timeout=2.0)

    watchdog_fired = False
    diverged: str | None = None

    # -- sys.monitoring yield points ---------------------------------------------
    def monitor_files(self, files: Iterable[str], *, line: bool = False, funcs: set[str] | None = None) -> None:
        """Turn PY_START (and LINE) events in *files* into yield points while run() is active."""
        self._mon_files = tuple(files)
        mon = sys.monitoring
        try:
            mon.use_tool_id(TOOL_ID, "verif-sched")
        except ValueError:
            pass
        files_t = self._mon_files

        def on_start(code: types.CodeType, offset: int) -> Any:
            if not code.co_filename.endswith(files_t):
                return mon.DISABLE
            if funcs is not None and code.co_name not in funcs:
                return None
            self._mon_events += 1
            self.point(f"call:{code.co_name}")
            return None

        def on_line(code: types.CodeType, lineno: int) -> Any:
            if not code.co_filename.endswith(files_t):
                return mon.DISABLE
            if funcs is not None and code.co_name not in funcs:
                return None
            self._mon_events += 1
            self.point(f"line:{code.co_name}:{lineno}")
            return None

        ev = mon.events.PY_START
        mon.register_callback(TOOL_ID, mon.events.PY_START, on_start)
        if line:
            mon.register_callback(TOOL_ID, mon.events.LINE, on_line)
            ev |= mon.events.LINE
        mon.set_events(TOOL_ID, ev)
        mon.restart_events()

    @staticmethod
    def unmonitor() -> None:
        mon = sys.monitoring
        try:
            mon.set_events(TOOL_ID, 0)
            mon.register_callback(TOOL_ID, mon.events.PY_START, None)
            mon.register_callback(TOOL_ID, mon.events.LINE, None)
            mon.free_tool_id(TOOL_ID)
        except ValueError:
            pass


# ---------------------------------------------------------------------------
# shim synchronisation objects
# ---------------------------------------------------------------------------


class ShimLock:
    """Scheduler-aware non-reentrant lock."""

    def __init__(self, sched_ref: list[Scheduler | None], name: str = "lock") -> None:
        self._s = sched_ref
        self._owner: Actor | None | str = None
        self._name = name
        self._real = _real_threading.Lock()

    def _sched(self) -> Scheduler | None:
        s = self._s[0]
        if s is None or s.me() is None:
            return None
        return s

    def acquire(self, blocking: bool = True, timeout: float = -1) -> bool:
        s = self._sched()
        if s is None:
            return self._real.acquire(blocking, timeout)
        me = s.me()
        s.point(f"lock.acquire:{self._name}")
        while self._owner is not None:
            if not blocking or timeout == 0:
                return False
            assert me is not None
            me.blocked_on = self
            s._switch(me, f"lock.blocked:{self._name}", blocked=True)
        self._owner = me
        return True

    def release(self) -> None:
        s = self._sched()
        if s is None:
            self._real.release()
            return
        if self._owner is None:
            raise RuntimeError("release unlocked lock")
        self._owner = None
        for a in s.actors:
            if a.blocked_on is self:
                a.blocked_on = None
        s.point(f"lock.release:{self._name}")

    def locked(self) -> bool:
        return self._owner is not None or self._real.locked()

    def __enter__(self) -> bool:
        return self.acquire()

    def __exit__(self, *exc: Any) -> None:
        self.release()


class ShimRLock(ShimLock):
    def __init__(self, sched_ref: list[Scheduler | None], name: str = "rlock") -> None:
        super().__init__(sched_ref, name)
        self._count = 0
        self._real = _real_threading.RLock()  # type: ignore[assignment]

    def acquire(self, blocking: bool = True, timeout: float = -1) -> bool:
        s = self._sched()
        if s is None:
            return self._real.acquire(blocking, timeout)
        me = s.me()
        if self._owner is me:
            self._count += 1
            return True
        ok = super().acquire(blocking, timeout)
        if ok:
            self._count = 1
        return ok

    def release(self) -> None:
        s = self._sched()
        if s is None:
            self._real.release()
            return
        if self._owner is not s.me():
            raise RuntimeError("cannot release un-acquired lock")
        self._count -= 1
        if self._count == 0:
            super().release()

    def locked(self) -> bool:
        return self._owner is not None


class _NoThread:
    """Stand-in for threading.Thread inside modules under schedule: never starts."""

    created: list[_NoThread] = []

    def __init__(self, *a: Any, target: Any = None, args: tuple[Any, ...] = (), kwargs: dict[str, Any] | None = None, **kw: Any) -> None:
        self.target = target
        self.args = args
        self.kwargs = kwargs or {}
        self.daemon = kw.get("daemon", True)
        self.name = kw.get("name", "nothread")
        self.started = False
        _NoThread.created.append(self)

    def start(self) -> None:
        self.started = True

    def join(self, timeout: float | None = None) -> None:
        return None

    def is_alive(self) -> bool:
        return False


def shim_threading(sched_ref: list[Scheduler | None], *, threads: str = "real") -> types.ModuleType:
    """A copy of ``threading`` whose Lock/RLock are scheduler aware.

    ``sched_ref`` is a one-element list holding the scheduler of the *current*
    execution (so objects built once can be re-used across executions).
    threads="none" replaces Thread by a stand-in that never runs its target
    (subclasses of threading.Thread defined in the module keep the real base).
    """
    mod = types.ModuleType("threading_shim")
    mod.__dict__.update({k: v for k, v in _real_threading.__dict__.items() if not k.startswith("__")})
    counter = [0]

    def Lock() -> ShimLock:  # noqa: N802
        counter[0] += 1
        return ShimLock(sched_ref, f"L{counter[0]}")

    def RLock() -> ShimRLock:  # noqa: N802
        counter[0] += 1
        return ShimRLock(sched_ref, f"R{counter[0]}")

    mod.Lock = Lock  # type: ignore[attr-defined]
    mod.RLock = RLock  # type: ignore[attr-defined]
    if threads == "none":
        mod.Thread = _NoThread  # type: ignore[attr-defined]
    return mod


def shim_time(sched_ref: list[Scheduler | None], real_time: types.ModuleType) -> types.ModuleType:
    """A copy of ``time`` whose time()/monotonic() read the scheduler's virtual clock."""
    mod = types.ModuleType("time_shim")
    mod.__dict__.update({k: v for k, v in real_time.__dict__.items() if not k.startswith("__")})

    def now() -> float:
        s = sched_ref[0]
        return s.now if s is not None else real_time.time()

    mod.time = now  # type: ignore[attr-defined]
    mod.monotonic = now  # type: ignore[attr-defined]

    def sleep(sec: float) -> None:
        s = sched_ref[0]
        if s is not None and s.me() is not None:
            s.point("sleep")
            return
        real_time.sleep(sec)

    mod.sleep = sleep  # type: ignore[attr-defined]
    return mod


# ---------------------------------------------------------------------------
# exploration
# ---------------------------------------------------------------------------


def explore_dfs(
    make_run: Callable[[Strategy], Scheduler],
    *,
    bound: int = 2,
    max_schedules: int = 5000,
    on_done: Callable[[Scheduler], None] | None = None,
) -> dict[str, Any]:
    """Bounded-preemption DFS by stateless re-execution.

    ``make_run(strategy)`` must build a fresh execution (fresh objects under test),
    run it and return the finished Scheduler.  A schedule is identified by its
    decision list; alternatives are explored at every point where more than one
    actor was runnable, as long as the number of preemptions (switching away
    from a still-runnable current actor) stays <= bound.
    """
    stack: list[list[int]] = [[]]
    seen: set[tuple[int, ...]] = set()
    n = 0
    truncated = False
    hist: dict[int, int] = {}
    while stack:
        if n >= max_schedules:
            truncated = True
            break
        prefix = stack.pop()
        s = make_run(FixedStrategy(prefix))
        n += 1
        key = tuple(s.decisions)
        if key in seen:
            continue
        seen.add(key)
        hist[s.preemptions] = hist.get(s.preemptions, 0) + 1
        if on_done is not None:
            on_done(s)
        # children: for each point at/after len(prefix), try the other options
        pre = _preemptions_prefix(s)
        for k in range(len(prefix), len(s.decisions)):
            opts = s.options[k]
            if len(opts) < 2:
                continue
            cur = s.cur_at[k]
            for alt in opts:
                if alt == s.decisions[k]:
                    continue
                # cost of choosing alt at k: preemption iff current actor was runnable and alt != current
                cost = pre[k] + (1 if (cur in opts and alt != cur) else 0)
                if cost > bound:
                    continue
                child = s.decisions[:k] + [alt]
                stack.append(child)
    return {"schedules": n, "distinct": len(seen), "truncated": truncated, "preemption_hist": hist}


def _preemptions_prefix(s: Scheduler) -> list[int]:
    """pre[k] = number of preemptions among decisions[0:k]."""
    pre = [0]
    for k in range(len(s.decisions)):
        cur = s.cur_at[k]
        p = 1 if (cur in s.options[k] and s.decisions[k] != cur) else 0
        pre.append(pre[-1] + p)
    return pre


def explore_sampled(
    make_run: Callable[[Strategy], Scheduler],
    strategies: Iterable[Strategy],
    on_done: Callable[[Scheduler], None] | None = None,
) -> dict[str, Any]:
    seen: set[tuple[int, ...]] = set()
    n = 0
    for st in strategies:
        s = make_run(st)
        n += 1
        seen.add(tuple(s.decisions))
        if on_done is not None:
            on_done(s)
    return {"schedules": n, "distinct": len(seen)}

"""Run a check's case list over a pool of fresh subprocesses (never multiprocessing.Pool).

``pmap(module, func, jobs)`` calls ``module.func(job)`` for every job, each shard
in its own interpreter (``python -m lib.worker``), at most ``ncpu`` at a time.
A shard that dies or times out yields ``{"inconclusive": [...]}`` for its jobs.
"""

from __future__ import annotations

import json
import os
import subprocess
import sys
import tempfile
from concurrent.futures import ThreadPoolExecutor
from typing import Any

ROOT = os.path.dirname(os.path.dirname(os.path.abspath(__file__)))
PY = os.environ.get("VERIF_PYTHON", "/venv/bin/python")


def child_env(extra: dict[str, str] | None = None) -> dict[str, str]:
    env = dict(os.environ)
    env["PYTHONHASHSEED"] = "0"
    pp = [ROOT, os.path.join(ROOT, ".deps")]
    if env.get("VERIF_REPO"):
        pp.insert(0, env["VERIF_REPO"])
    if env.get("PYTHONPATH"):
        pp.append(env["PYTHONPATH"])
    env["PYTHONPATH"] = os.pathsep.join(pp)
    env.setdefault("VGI_RPC_VERIF", "1")
    if extra:
        env.update(extra)
    return env


def ncpu() -> int:
    if os.environ.get("VERIF_WORKERS"):
        return max(1, int(os.environ["VERIF_WORKERS"]))
    try:
        return max(1, len(os.sched_getaffinity(0)))
    except AttributeError:
        return os.cpu_count() or 1


def _run_one(module: str, func: str, job: Any, timeout: float, env: dict[str, str]) -> dict[str, Any]:
    with tempfile.TemporaryDirectory(prefix="verif-shard-") as td:
        inp = os.path.join(td, "in.json")
        outp = os.path.join(td, "out.json")
        with open(inp, "w") as fh:
            json.dump(job, fh)
        try:
            cp = subprocess.run(
                [PY, "-m", "lib.worker", module, func, inp, outp],
                cwd=ROOT,
                env=env,
                stdout=subprocess.PIPE,
                stderr=subprocess.STDOUT,
                timeout=timeout,
            )
        except subprocess.TimeoutExpired:
            return {"inconclusive": [f"shard {module}.{func} timed out after {timeout}s"]}
        if cp.returncode != 0 or not os.path.exists(outp):
            tail = cp.stdout.decode(errors="replace")[-1500:]
            return {"inconclusive": [f"shard {module}.{func} exited {cp.returncode}: {tail}"]}
        with open(outp) as fh:
            return json.load(fh)


def pmap(
    module: str,
    func: str,
    jobs: list[Any],
    *,
    timeout: float = 600.0,
    workers: int | None = None,
    env: dict[str, str] | None = None,
) -> list[dict[str, Any]]:
    e = child_env(env)
    n = workers or ncpu()
    if len(jobs) == 0:
        return []
    with ThreadPoolExecutor(max_workers=min(n, len(jobs))) as ex:
        futs = [ex.submit(_run_one, module, func, j, timeout, e) for j in jobs]
        return [f.result() for f in futs]


def split(items: list[Any], nshards: int) -> list[list[Any]]:
    nshards = max(1, min(nshards, len(items)))
    return [items[i::nshards] for i in range(nshards)]


if __name__ == "__main__":
    print(sys.argv)

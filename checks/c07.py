"""C07 - implementation errors reach the client faithfully.

Generated services (lib/svcgen) raise a scripted exception at every dispatch site
(unary, unary after logging, stream init with/without header, producer / exchange step 0
and step k, after logging) for exception classes x message strings, over pipe, unix
socketpair, shm-pipe and HTTP (uncapped and with a small ``max_response_bytes``).

Two independent monitors per call:

* wire level - pipe-like transports: every byte the client reads is tee'd and re-parsed, the
  EXCEPTION batch's ``vgi_rpc.error_kind`` / ``log_extra.exception_type`` / ``log_message``
  are compared with the exception raised server side.  HTTP: the client runs on top of
  lib/httpdrv (raw WSGI boundary); each response is judged for status 200 + ``X-VGI-RPC-Error``
  when its body carries an EXCEPTION batch and for absence of the marker otherwise.
* client level - the ``RpcError`` the typed client raises: ``error_type``, ``error_message``
  and, for typed errors, a readable ``error_kind`` (docs/WIRE_PROTOCOL.md section 8).
"""

from __future__ import annotations

import random
from typing import Any

from lib import shard
from lib.evidence import Check

PID = "C07"
ENGINE = "E1-svcgen-rig+E2-raw-drivers"
TECHNIQUE = "scripted raise at every dispatch site; wire tee / raw HTTP boundary and client RpcError compared with the raised exception"
LEVEL_TEXT = (
    "Exploration: exception classes (built-in, user-defined, typed framework errors) x message shapes x dispatch "
    "sites x transports (pipe, unix, shm, HTTP, capped HTTP) were executed against the real server and client; "
    "held means on every execution counted the client RpcError matched class name, text and error kind, the wire "
    "carried the kind, and HTTP used 200 + X-VGI-RPC-Error exactly on responses carrying an EXCEPTION batch."
)
LEVEL_NOTE = "expected text = str() of a locally constructed twin exception; pyarrow IPC parsing trusted for the wire tee"
CATEGORY = "exploration"
RULE = (
    "case = (site, exception class, message shape, transport); all pairs (site x class), (site x transport), "
    "(class x message) are covered, the rest sampled by seed; distinct class = (site, exception group, message shape, transport)"
)

SITES = [
    "unary",
    "unary_logged",
    "init_p",
    "init_ph",
    "init_x",
    "init_xh",
    "init_logged",
    "step0_p",
    "step0_ph",
    "stepk_p",
    "stepk_p_logged",
    "step0_x",
    "stepk_x",
    "stepk_xh_logged",
]
TRANSPORTS = ["pipe", "unix", "shm", "http", "http_cap"]
LOGS = [("INFO", "before the failure", {"k": "v"}), ("WARN", "second", {})]

MESSAGES: dict[str, str] = {
    "plain": "boom",
    "empty": "",
    "unicode": "\u00fc\u00f1\u00ed \u00a2ode \U0001f600 \u05e2\u05d1\u05e8\u05d9\u05ea \u202ex",
    "multiline": "multi\nline\r\nmsg\n",
    "long100k": "L" * 100_000,
    "nul": "nul\x00inside",
    "spaces": "  lead/trail  ",
    "format_chars": "percent %s %d {} {0} \\n \\",
    "quotes": "with 'quotes' \"dq\" <tag> & ;",
    "json_like": '{"exception_type": "Fake", "error_kind": "fake_kind"}',
    # what str(FileNotFoundError) looks like for a non-UTF-8 file name (surrogateescape): not encodable as UTF-8
    "surrogate": "no such file: /data/caf\udce9.parquet",
}


def site_group(site: str) -> str:
    return "unary" if site.startswith("unary") else "init" if site.startswith("init") else "step"


def _register_exceptions() -> dict[str, dict[str, Any]]:
    """Extend svcgen.EXCEPTIONS (in-process only) and describe every entry: group + expected kind."""
    import pyarrow as pa

    from lib import svcgen
    from vgi_rpc.rpc import MethodNotImplementedError, ProtocolVersionError, ServerDrainingError, SessionLostError, VersionError

    class SubKind(svcgen.KindError):
        """Inherits error_kind from KindError."""

    class InstanceKind(Exception):
        def __init__(self, msg: str) -> None:
            super().__init__(msg)
            self.error_kind = "instance_kind"

    class NonStrKind(Exception):
        error_kind = 7

    class StrOverride(Exception):
        def __str__(self) -> str:
            return "custom-str<" + (self.args[0] if self.args else "") + ">"

    weird = type("Weird Name \u00e9", (Exception,), {})

    def two_args(msg: str) -> BaseException:
        return ValueError(msg, 42)

    def no_args(msg: str) -> BaseException:
        return RuntimeError()

    def with_cause(msg: str) -> BaseException:
        e = RuntimeError(msg)
        e.__cause__ = KeyError("inner cause")
        return e

    def os_error(msg: str) -> BaseException:
        return OSError(2, msg)

    def unicode_decode(msg: str) -> BaseException:
        return UnicodeDecodeError("utf-8", b"\xff", 0, 1, msg or "reason")

    def exc_group(msg: str) -> BaseException:
        return ExceptionGroup(msg or "eg", [ValueError("inner")])  # noqa: F821  (Python >= 3.11)

    table: dict[str, tuple[Any, str]] = {
        # name -> (factory/class, group)
        "ValueError": (ValueError, "builtin"),
        "RuntimeError": (RuntimeError, "builtin"),
        "KeyError": (KeyError, "builtin"),
        "TypeError": (TypeError, "builtin"),
        "AttributeError": (AttributeError, "builtin"),
        "ZeroDivisionError": (ZeroDivisionError, "builtin"),
        "AssertionError": (AssertionError, "builtin"),
        "NotImplementedError": (NotImplementedError, "builtin"),
        "StopIteration": (StopIteration, "builtin_control"),
        "EOFError": (EOFError, "builtin_io"),
        "BrokenPipeError": (BrokenPipeError, "builtin_io"),
        "ConnectionResetError": (ConnectionResetError, "builtin_io"),
        "TimeoutError": (TimeoutError, "builtin_io"),
        "PermissionError": (PermissionError, "builtin_io"),
        "MemoryError": (MemoryError, "builtin"),
        "RecursionError": (RecursionError, "builtin"),
        "ArrowInvalid": (pa.ArrowInvalid, "arrow"),
        "ArrowTypeError": (pa.ArrowTypeError, "arrow"),
        "UserBoom": (svcgen.UserBoom, "user"),
        "WeirdName": (weird, "user"),
        "StrOverride": (StrOverride, "user"),
        "TwoArgs": (two_args, "args_shape"),
        "NoArgs": (no_args, "args_shape"),
        "WithCause": (with_cause, "args_shape"),
        "OSErrno": (os_error, "args_shape"),
        "UnicodeDecode": (unicode_decode, "args_shape"),
        "ExcGroup": (exc_group, "args_shape"),
        "VersionError": (VersionError, "framework_untyped"),
        "NonStrKind": (NonStrKind, "user_nonstr_kind"),
        "KindError": (svcgen.KindError, "user_kind"),
        "SubKind": (SubKind, "user_kind"),
        "InstanceKind": (InstanceKind, "user_kind"),
        "MethodNotImplementedError": (MethodNotImplementedError, "framework_typed"),
        "ProtocolVersionError": (ProtocolVersionError, "framework_typed"),
        "SessionLostError": (SessionLostError, "framework_typed"),
        "ServerDrainingError": (ServerDrainingError, "framework_typed"),
    }
    out: dict[str, dict[str, Any]] = {}
    for name, (factory, group) in table.items():
        svcgen.EXCEPTIONS[name] = factory
        out[name] = {"factory": factory, "group": group}
    return out


EXC_NAMES = [
    "ValueError", "RuntimeError", "KeyError", "TypeError", "AttributeError", "ZeroDivisionError", "AssertionError",
    "NotImplementedError", "StopIteration", "EOFError", "BrokenPipeError", "ConnectionResetError", "TimeoutError",
    "PermissionError", "MemoryError", "RecursionError", "ArrowInvalid", "ArrowTypeError", "UserBoom", "WeirdName",
    "StrOverride", "TwoArgs", "NoArgs", "WithCause", "OSErrno", "UnicodeDecode", "ExcGroup", "VersionError", "NonStrKind",
    "KindError", "SubKind", "InstanceKind", "MethodNotImplementedError", "ProtocolVersionError", "SessionLostError",
    "ServerDrainingError",
]  # fmt: skip
TYPED = ["KindError", "SubKind", "InstanceKind", "MethodNotImplementedError", "ProtocolVersionError", "SessionLostError", "ServerDrainingError"]


def method_for(idx: int, site: str, exc: str, msg: str) -> dict[str, Any]:
    name = f"m{idx}"
    raise_act = ("raise", exc, msg)
    if site in ("unary", "unary_logged"):
        return {"name": name, "kind": "unary", "params": [], "ret": ("int",), "u": {"logs": LOGS if site == "unary_logged" else [], "act": raise_act}}
    kind = "exchange" if "_x" in site else "producer"
    header = site.endswith("h") or "h_" in site
    m: dict[str, Any] = {"name": name, "kind": kind, "params": [], "header": header, "out_cols": ["i"], "in_cols": ["i"]}
    ok_emit = {"logs": [], "act": "emit", "rows": 2}
    bad = {"logs": LOGS if "logged" in site else [], "act": "raise", "exc": (exc, msg)}
    if site.startswith("init"):
        m["init"] = {"logs": LOGS if site == "init_logged" else [], "act": raise_act}
        m["steps"] = [ok_emit]
    else:
        m["init"] = {"logs": [], "act": ("ok",)}
        if site.startswith("step0"):
            m["steps"] = [bad]
        else:
            first = dict(ok_emit)
            if "logged" in site:
                first["logs"] = LOGS
            m["steps"] = [first, dict(ok_emit), bad]
    return m


def plan_cases(tier: str, seed: int) -> list[tuple[str, str, str, str]]:
    """(site, exc, msgkey, transport) - pairwise coverage plus a seeded sample of the full product."""
    rng = random.Random(seed)
    msgkeys = list(MESSAGES)
    cases: set[tuple[str, str, str, str]] = set()
    for si, site in enumerate(SITES):
        for ei, exc in enumerate(EXC_NAMES):
            cases.add((site, exc, msgkeys[(si + ei) % len(msgkeys)], TRANSPORTS[(si * 3 + ei) % len(TRANSPORTS)]))
        for tr in TRANSPORTS:
            for exc in TYPED:
                cases.add((site, exc, rng.choice(msgkeys), tr))
            cases.add((site, rng.choice(EXC_NAMES), rng.choice(msgkeys), tr))
    for exc in EXC_NAMES:
        for mk in msgkeys:
            cases.add((rng.choice(SITES), exc, mk, rng.choice(TRANSPORTS)))
    for mk in msgkeys:
        for tr in TRANSPORTS:
            for site in ("unary", "init_p", "stepk_p", "stepk_x"):
                cases.add((site, rng.choice(EXC_NAMES), mk, tr))
    extra = 600 if tier == "quick" else 40_000
    for _ in range(extra):
        cases.add((rng.choice(SITES), rng.choice(EXC_NAMES), rng.choice(msgkeys), rng.choice(TRANSPORTS)))
    out = sorted(cases)
    rng.shuffle(out)
    return out


# ---------------------------------------------------------------------------
# shard
# ---------------------------------------------------------------------------


def run_shard(job: dict[str, Any]) -> dict[str, Any]:
    import io
    import json
    import threading
    import warnings

    import pyarrow as pa

    from lib import httpdrv, svcgen
    from vgi_rpc.http import http_connect
    from vgi_rpc.http.server import make_wsgi_app
    from vgi_rpc.rpc import AnnotatedBatch, PipeTransport, RpcConnection, RpcError, RpcServer, ShmPipeTransport, make_pipe_pair, make_unix_pair
    from vgi_rpc.shm import ShmSegment

    warnings.simplefilter("ignore")
    import logging

    logging.getLogger("vgi_rpc").addHandler(logging.NullHandler())
    logging.getLogger("vgi_rpc").propagate = False

    chk = Check(PID, job["tier"], job["seed"])
    excs = _register_exceptions()
    cases: list[list[str]] = job["cases"]

    def twin(exc: str, msg: str) -> BaseException:
        return excs[exc]["factory"](msg)

    # ---- transports ------------------------------------------------------------------
    class TeeRaw(io.RawIOBase):
        def __init__(self, inner: Any, sink: bytearray) -> None:
            super().__init__()
            self._inner = inner
            self._sink = sink

        def readable(self) -> bool:
            return True

        def readinto(self, b: Any) -> int:
            data = self._inner.read1(len(b))
            n = len(data)
            b[:n] = data
            self._sink.extend(data)
            return n

    class DrvResp:
        def __init__(self, r: Any) -> None:
            self.status_code = r.status
            self.headers = {k.lower(): v for k, v in r.headers}
            self.content = r.decoded_body()
            self.raw = r

    class DrvClient:
        """The minimal client surface http_connect needs, on top of the raw WSGI driver."""

        prefix = ""

        def __init__(self, app: Any) -> None:
            self.app = app
            self.log: list[tuple[str, DrvResp]] = []

        def _do(self, verb: str, url: str, headers: dict[str, str] | None, content: bytes | None) -> DrvResp:
            from urllib.parse import urlparse

            r = httpdrv.call(self.app, verb, urlparse(url).path, dict(headers or {}), content)
            if r.exc is not None:
                raise r.exc
            resp = DrvResp(r)
            self.log.append((f"{verb} {urlparse(url).path}", resp))
            return resp

        def post(self, url: str, *, content: bytes, headers: dict[str, str]) -> DrvResp:
            return self._do("POST", url, headers, content)

        def get(self, url: str, *, headers: dict[str, str] | None = None) -> DrvResp:
            return self._do("GET", url, headers, None)

        def options(self, url: str, *, headers: dict[str, str] | None = None) -> DrvResp:
            return self._do("OPTIONS", url, headers, None)

        def delete(self, url: str, *, headers: dict[str, str] | None = None) -> DrvResp:
            return self._do("DELETE", url, headers, None)

        def close(self) -> None:
            pass

    def exception_batches(streams: list[list[tuple[pa.RecordBatch, dict[str, bytes]]]]) -> list[dict[str, Any]]:
        out = []
        for bs in streams:
            for b, md in bs:
                if b.num_rows == 0 and md.get("vgi_rpc.log_level") == b"EXCEPTION":
                    extra: Any = {}
                    try:
                        extra = json.loads(md.get("vgi_rpc.log_extra", b"{}").decode())
                    except Exception:  # noqa: BLE001
                        extra = {}
                    out.append(
                        {
                            "type": extra.get("exception_type") if isinstance(extra, dict) else None,
                            "message": md.get("vgi_rpc.log_message", b"").decode(errors="replace"),
                            "kind": md["vgi_rpc.error_kind"].decode(errors="replace") if "vgi_rpc.error_kind" in md else None,
                            "extra_kind": extra.get("error_kind") if isinstance(extra, dict) else None,
                        }
                    )
        return out

    def parse_tolerant(body: bytes) -> tuple[list[list[tuple[pa.RecordBatch, dict[str, bytes]]]], str | None]:
        """Concatenated IPC streams; a trailing incomplete stream is reported, not fatal."""
        from pyarrow import ipc

        streams: list[list[tuple[pa.RecordBatch, dict[str, bytes]]]] = []
        buf = pa.BufferReader(body)
        while buf.tell() < len(body):
            cur: list[tuple[pa.RecordBatch, dict[str, bytes]]] = []
            try:
                reader = ipc.open_stream(buf)
                while True:
                    try:
                        b, md = reader.read_next_batch_with_custom_metadata()
                    except StopIteration:
                        break
                    cur.append((b, {k.decode(): v for k, v in (md or {}).items()}))
            except Exception as e:  # noqa: BLE001
                if cur:
                    streams.append(cur)
                return streams, type(e).__name__
            streams.append(cur)
        return streams, None

    def drive(proxy: Any, m: dict[str, Any]) -> tuple[BaseException | None, int]:
        """Run the call to its end; return (exception raised by the client API, batches received)."""
        n = 0
        try:
            fn = getattr(proxy, m["name"])
            if m["kind"] == "unary":
                fn()
            elif m["kind"] == "producer":
                sess = fn()
                for ab in sess:
                    n += 1
                    ab.release()
                    if n > 10:
                        break
            else:
                sess = fn()
                schema = svcgen.schema_of(m["in_cols"])
                for k in range(4):
                    ab = sess.exchange(AnnotatedBatch(batch=pa.RecordBatch.from_pydict({"i": [k]}, schema=schema)))
                    n += 1
                    ab.release()
                sess.close()
        except BaseException as e:  # noqa: BLE001
            return e, n
        return None, n

    # ---- judge ---------------------------------------------------------------------------
    def judge(site: str, exc: str, mk: str, tr: str, client_exc: BaseException | None, wire: list[dict[str, Any]] | None, http_log: list[tuple[str, Any]] | None, died: str | None) -> None:
        msg = MESSAGES[mk]
        tw = twin(exc, msg)
        exp_type = type(tw).__name__
        exp_text = str(tw)
        kind_attr = getattr(tw, "error_kind", None)
        exp_kind = kind_attr if isinstance(kind_attr, str) else None
        group = excs[exc]["group"]
        sg = site_group(site)
        fam = "http" if tr.startswith("http") else "socket"
        wit = {"site": site, "exception": exc, "message_shape": mk, "transport": tr, "expected_type": exp_type, "expected_kind": exp_kind}
        chk.case(f"{site}:{group}:{mk}:{tr}")
        if mk == "surrogate":
            # The text cannot travel verbatim (not UTF-8 encodable).  Only ask that the failure is still
            # reported as an RpcError of the right class; one mechanism key per transport family.
            chk.hit("unencodable_message_judged")
            if not (isinstance(client_exc, RpcError) and client_exc.error_type == exp_type):
                chk.violation(
                    f"unencodable_message_error_lost@{fam}",
                    "an exception whose text holds a lone surrogate is not reported as an RpcError of its class",
                    {**wit, "client_exc": repr(client_exc)[:300], "serve_thread": died, "http": [(w, r.status_code) for w, r in (http_log or [])]},
                )
            return
        if died is not None:
            chk.violation(f"server_thread_died:{sg}:{died.split('(')[0]}", "serve() raised instead of reporting the implementation error", {**wit, "serve_exc": died[:300]})
        # -- client level ---------------------------------------------------------------
        chk.hit("client_error_observed")
        if client_exc is None:
            chk.violation(f"error_not_delivered:{sg}@{fam}", "the implementation raised but the client call completed without an error", wit)
        elif not isinstance(client_exc, RpcError):
            chk.violation(
                f"client_raised_non_rpc_error:{type(client_exc).__name__}:{sg}@{fam}",
                "the client raised something other than RpcError for an implementation error",
                {**wit, "client_exc": repr(client_exc)[:300]},
            )
        else:
            cw = {**wit, "error_type": client_exc.error_type, "error_message": client_exc.error_message[:200]}
            if client_exc.error_type != exp_type:
                chk.violation(f"client_error_type_mismatch:{sg}@{fam}", "RpcError.error_type is not the exception's class name", cw)
            if exp_text not in client_exc.error_message:
                chk.violation(f"client_message_lacks_text:{mk}", "RpcError.error_message does not carry the exception text", cw)
            if exp_kind is not None:
                chk.hit("client_kind_judged")
                got = getattr(client_exc, "error_kind", None)
                if got is None:
                    chk.violation(
                        "client_error_kind_not_exposed",
                        "RpcError raised for a typed error has no readable error_kind (WIRE_PROTOCOL section 8: the client MUST surface it)",
                        {**cw, "has_attr": hasattr(client_exc, "error_kind"), "rpc_error_attrs": sorted(vars(client_exc))},
                    )
                elif got != exp_kind:
                    chk.violation("client_error_kind_wrong", "RpcError.error_kind differs from the raised exception's kind", {**cw, "got": got})
        # -- wire level: pipe-like ----------------------------------------------------
        if wire is not None:
            chk.hit("wire_socket_judged")
            if len(wire) == 0:
                chk.violation(f"wire_error_batch_missing:{sg}@socket", "no EXCEPTION batch was written on the socket transport", wit)
            for w in wire[:1]:
                ww = {**wit, "wire": {k: (v[:200] if isinstance(v, str) else v) for k, v in w.items()}}
                if w["type"] != exp_type:
                    chk.violation(f"wire_type_mismatch:{sg}@socket", "exception_type on the wire is not the class name", ww)
                if exp_text not in w["message"]:
                    chk.violation(f"wire_message_lacks_text:{mk}@socket", "log_message on the wire does not carry the exception text", ww)
                if exp_kind is not None:
                    chk.hit("wire_kind_judged")
                    if w["kind"] is None:
                        chk.violation(f"wire_error_kind_missing:{group}@socket", "typed error written without vgi_rpc.error_kind metadata", ww)
                    elif w["kind"] != exp_kind:
                        chk.violation(f"wire_error_kind_wrong:{group}@socket", "vgi_rpc.error_kind differs from the raised exception's kind", ww)
        # -- wire level: HTTP -------------------------------------------------------------
        if http_log is not None:
            seen_exc = 0
            for what, resp in http_log:
                try:
                    streams = httpdrv.parse_ipc_multi(resp.content)
                except Exception as e:  # noqa: BLE001
                    chk.violation(f"http_body_not_ipc:{resp.status_code}:{sg}", "HTTP response body is not Arrow IPC", {**wit, "request": what, "err": repr(e)[:200], "body": resp.content[:120]})
                    continue
                ebs = exception_batches(streams)
                marker = resp.headers.get("x-vgi-rpc-error")
                hw = {**wit, "request": what, "status": resp.status_code, "marker": marker}
                if ebs:
                    seen_exc += 1
                    chk.hit("http_error_response_judged")
                    if resp.status_code != 200:
                        chk.violation(f"http_error_status:{resp.status_code}:{sg}", "implementation error answered with a status other than 200", hw)
                    if marker != "true":
                        chk.violation(f"http_marker_missing:{sg}", "response carrying an EXCEPTION batch lacks X-VGI-RPC-Error: true", hw)
                    w = ebs[0]
                    ww = {**hw, "wire": {k: (v[:200] if isinstance(v, str) else v) for k, v in w.items()}}
                    if w["type"] != exp_type:
                        chk.violation(f"wire_type_mismatch:{sg}@http", "exception_type on the wire is not the class name", ww)
                    if exp_text not in w["message"]:
                        chk.violation(f"wire_message_lacks_text:{mk}@http", "log_message on the wire does not carry the exception text", ww)
                    if exp_kind is not None:
                        chk.hit("wire_kind_judged")
                        if w["kind"] is None:
                            chk.violation(f"wire_error_kind_missing:{group}@http", "typed error written without vgi_rpc.error_kind metadata", ww)
                        elif w["kind"] != exp_kind:
                            chk.violation(f"wire_error_kind_wrong:{group}@http", "vgi_rpc.error_kind differs from the raised exception's kind", ww)
                else:
                    chk.hit("http_success_response_judged")
                    if marker is not None:
                        chk.violation(f"http_marker_on_success:{sg}", "response without an EXCEPTION batch carries X-VGI-RPC-Error", hw)
                    if resp.status_code != 200:
                        chk.violation(f"http_success_status:{resp.status_code}:{sg}", "successful turn answered with a status other than 200", hw)
            if seen_exc == 0:
                chk.violation(f"wire_error_batch_missing:{sg}@http", "no HTTP response carried an EXCEPTION batch", {**wit, "requests": [w for w, _ in http_log]})

    # ---- run: group cases into services of <= 40 methods ------------------------------
    class Conn:
        """A live socket-style connection (client side tee'd) to *server*."""

        def __init__(self, server: Any, proto: Any, tr: str) -> None:
            self.tr = tr
            self.ct, self.st = make_unix_pair() if tr == "unix" else make_pipe_pair()
            self.sink = bytearray()
            tee: Any = PipeTransport(io.BufferedReader(TeeRaw(self.ct.reader, self.sink)), self.ct.writer)
            srv_t: Any = self.st
            self.seg = None
            if tr == "shm":
                self.seg = ShmSegment.create(1 << 20)
                tee = ShmPipeTransport(tee, self.seg)
                srv_t = ShmPipeTransport(self.st, self.seg)
            self.box: dict[str, Any] = {}

            def serve() -> None:
                try:
                    server.serve(srv_t)
                except Exception as e:  # noqa: BLE001
                    self.box["died"] = repr(e)
                    # a worker whose serve loop dies exits and its end of the pipe/socket closes: emulate that,
                    # otherwise the client would wait forever on a peer that no longer exists
                    try:
                        self.st.close()
                    except Exception:  # noqa: BLE001
                        pass

            self.th = threading.Thread(target=serve, daemon=True)
            self.th.start()
            self.proxy = RpcConnection(proto, tee).__enter__()

        def close(self) -> None:
            for f in (self.ct.close,):
                try:
                    f()
                except Exception:  # noqa: BLE001
                    pass
            self.th.join(timeout=10)
            try:
                self.st.close()
            except Exception:  # noqa: BLE001
                pass
            if self.seg is not None:
                for f in (self.seg.unlink, self.seg.close):
                    try:
                        f()
                    except Exception:  # noqa: BLE001
                        pass

    GROUP = 40
    progress: dict[str, Any] = {"case": None}

    def body() -> None:
        for g0 in range(0, len(cases), GROUP):
            part = cases[g0 : g0 + GROUP]
            methods = [method_for(i, c[0], c[1], MESSAGES[c[2]]) for i, c in enumerate(part)]
            methods.append({"name": "ping", "kind": "unary", "params": [("a", ("int",))], "ret": ("int",), "u": {"logs": [], "act": ("echo", "a")}})
            program = {"name": "ErrSvc", "methods": methods, "calls": []}
            proto, impl = svcgen.build(program)
            server = RpcServer(proto, impl)
            apps: dict[str, Any] = {}
            conns: dict[str, Conn] = {}
            for i, (site, exc, mk, tr) in enumerate(part):
                m = methods[i]
                progress["case"] = (site, exc, mk, tr)
                if tr in ("pipe", "unix", "shm"):
                    conn = conns.get(tr)
                    if conn is None:
                        conn = conns[tr] = Conn(server, proto, tr)
                    del conn.sink[:]
                    cexc, _n = drive(conn.proxy, m)
                    streams, trailing = parse_tolerant(bytes(conn.sink))
                    wire = exception_batches(streams)
                    if trailing is not None:
                        if streams:
                            # bytes of a *later* answer read ahead by the buffered reader (after a header-less init
                            # error the server answers the client's tick stream as if it were a request: C04's subject)
                            chk.hit("tee_trailing_partial_ignored")
                        else:
                            wire = None
                            chk.skip(f"tee_unparseable:{trailing}")
                    # Is the connection still usable?  (Not this property's subject - C04 - but a
                    # desynchronised connection must not be blamed on the next case.)
                    reusable = (m["kind"] == "unary" or not site.startswith("init")) and mk != "surrogate"
                    if cexc is not None and not isinstance(cexc, RpcError):
                        conn.th.join(timeout=2.0)  # give a dying serve thread time to finish dying
                    if not conn.th.is_alive():
                        reusable = False
                    elif reusable:
                        try:
                            reusable = conn.proxy.ping(a=g0 + i) == g0 + i
                        except BaseException:  # noqa: BLE001
                            reusable = False
                        if not reusable:
                            chk.skip(f"connection_unusable_after_error:{site_group(site)}(C04)")
                    died = conn.box.get("died")
                    if not reusable or died is not None:
                        conn.close()
                        died = conn.box.get("died")
                        del conns[tr]
                    judge(site, exc, mk, tr, cexc, wire, None, died)
                else:
                    if tr not in apps:
                        kw = {"max_response_bytes": 1500} if tr == "http_cap" else {}
                        apps[tr] = make_wsgi_app(server, **kw)
                    dc = DrvClient(apps[tr])
                    with http_connect(proto, client=dc) as proxy:  # type: ignore[arg-type]
                        cexc, _n = drive(proxy, m)
                    judge(site, exc, mk, tr, cexc, None, dc.log, None)
                if (g0 + i) % 211 == 0:
                    chk.sample({"site": site, "exception": exc, "message_shape": mk, "transport": tr})
            for conn in conns.values():
                conn.close()
                if conn.box.get("died") is not None:
                    chk.violation("server_thread_died:at_close", "serve() raised when the client closed the connection", {"serve_exc": conn.box["died"][:300]})

    worker = threading.Thread(target=body, daemon=True)
    worker.start()
    worker.join(timeout=500 if job["tier"] == "quick" else 2500)
    if worker.is_alive():
        chk.inconclusive_because(f"watchdog: shard stuck in case {progress['case']}")
        return chk.to_result()

    # ---- natural typed errors (framework raises them itself) ---------------------------
    if job.get("natural"):
        base = {"name": "NatSvc", "version": "2.0.0", "methods": [{"name": "a", "kind": "unary", "params": [], "ret": ("int",), "u": {"logs": [], "act": ("return", 1)}}], "calls": []}
        cli_extra = {**base, "methods": [*base["methods"], {"name": "gone", "kind": "unary", "params": [], "ret": ("int",), "u": {"logs": [], "act": ("return", 1)}}]}
        cli_oldver = {**base, "version": "1.0.0"}
        sproto, simpl = svcgen.build(base)
        nserver = RpcServer(sproto, simpl)
        for label, cprog, meth, exp_type, exp_kind in (
            ("unknown_method", cli_extra, "gone", "MethodNotImplementedError", "method_not_implemented"),
            ("version_mismatch", cli_oldver, "a", "ProtocolVersionError", "protocol_version_mismatch"),
        ):
            cproto, _ = svcgen.build(cprog)
            for tr in ("pipe", "http"):
                got: BaseException | None = None
                if tr == "pipe":
                    ct, st = make_pipe_pair()
                    th = threading.Thread(target=lambda st=st: nserver.serve(st), daemon=True)
                    th.start()
                    try:
                        with RpcConnection(cproto, ct) as proxy:
                            getattr(proxy, meth)()
                    except BaseException as e:  # noqa: BLE001
                        got = e
                    ct.close()
                    th.join(timeout=5)
                else:
                    dc = DrvClient(make_wsgi_app(nserver))
                    try:
                        with http_connect(cproto, client=dc) as proxy:  # type: ignore[arg-type]
                            getattr(proxy, meth)()
                    except BaseException as e:  # noqa: BLE001
                        got = e
                chk.case(f"natural:{label}:{tr}")
                chk.hit("natural_typed_error_judged")
                wit = {"natural": label, "transport": tr, "client_exc": repr(got)[:300]}
                if not isinstance(got, RpcError):
                    chk.violation(f"natural_error_not_rpc_error:{label}@{tr}", "framework-typed error did not reach the client as RpcError", wit)
                    continue
                if got.error_type != exp_type:
                    chk.violation(f"natural_error_type_mismatch:{label}", "RpcError.error_type differs from the framework error class", {**wit, "error_type": got.error_type})
                chk.hit("client_kind_judged")
                k = getattr(got, "error_kind", None)
                if k is None:
                    chk.violation(
                        "client_error_kind_not_exposed",
                        "RpcError raised for a typed error has no readable error_kind (WIRE_PROTOCOL section 8: the client MUST surface it)",
                        {**wit, "expected_kind": exp_kind, "rpc_error_attrs": sorted(vars(got))},
                    )
                elif k != exp_kind:
                    chk.violation("client_error_kind_wrong", "RpcError.error_kind differs from the framework error's kind", {**wit, "got": k})
    return chk.to_result()


def main(tier: str, seed: int) -> int:
    chk = Check(PID, tier, seed, level=CATEGORY, rule=RULE)
    chk.require(
        "client_error_observed",
        "client_kind_judged",
        "wire_socket_judged",
        "wire_kind_judged",
        "http_error_response_judged",
        "http_success_response_judged",
        "natural_typed_error_judged",
    )
    chk.assumptions = [
        "expected class name/text/kind come from a twin exception constructed locally with the same factory and message",
        "wire observation on pipe/unix/shm = tee of every byte the client reads, re-parsed with pyarrow after the call",
        "HTTP observation = lib/httpdrv at the WSGI boundary (the typed client runs on top of it)",
        "error_kind is judged only when the raised exception has a str error_kind (typed framework errors + user classes following the same convention)",
        "every call on a socket transport uses a fresh connection (header-less init errors desynchronise a shared one: C04's subject)",
    ]
    cases = plan_cases(tier, seed)
    n = shard.ncpu()
    nsh = n * (2 if tier == "quick" else 6)
    parts = shard.split([list(c) for c in cases], nsh)
    jobs = [{"tier": tier, "seed": seed * 31 + i, "cases": part, "natural": i == 0} for i, part in enumerate(parts)]
    for res in shard.pmap("checks.c07", "run_shard", jobs, timeout=600 if tier == "quick" else 3000):
        chk.merge(res)
    chk.extra["planned_cases"] = len(cases)
    chk.exhaustive["pairs(site x class), (site x transport), (class x message)"] = True
    chk.exhaustive["full_product"] = False
    return chk.finish()

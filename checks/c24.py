"""C24 - precondition gates compose with AND semantics.

The real app is built with ``authenticate=require_all(proxy_proof_gate(cfg), inner)``
for every (mode, inner kind) and driven through the raw WSGI driver with every proof
state.  Proofs are minted by an independent minter written from
``docs/proxy-proof-spec.md`` sections 3-4 (not by the repository's ``mint_proof``).

Observations
* the ``AuthContext`` the service method received (spy on the generated
  implementation's ``_unary``), or the fact that it was not invoked;
* an invocation counter on the inner authenticator;
* for allow mode: the same request sent to a *baseline* app whose authenticate
  callback is the bare ``inner`` (or no callback at all when inner is absent) -
  the statement says the unproven request "proceeds exactly as an anonymous
  request would".

Oracle = truth table from the statement:
  require & unproven   -> refused (401), inner never consulted, method not run
  otherwise, inner absent  -> authenticated only if the proof verified; unproven == anonymous
  otherwise, inner given   -> identity (domain, principal, authenticated) is inner's; inner rejecting -> 401
plus: a PreconditionGate handed to chain_authenticate (any position) must be refused.
"""

from __future__ import annotations

import base64
import hashlib
import hmac
import random
from typing import Any

from lib import shard
from lib.evidence import Check

PID = "C24"
ENGINE = "E1-svcgen-rig+E2-raw-drivers+E5-models+E6-evidence"
TECHNIQUE = "exhaustive truth table (mode x inner x proof state) observed at the AuthContext the method receives, plus baseline differential"
LEVEL_TEXT = (
    "Exploration, exhaustive over the statement's truth table: modes {allow, require} x inner {absent, accepts, accepts-anonymous, "
    "rejects (ValueError / AuthFailure / PermissionError)} x proof {valid, absent, empty, malformed, expired, not-yet-valid, bad MAC, "
    "unknown kid, wrong origin, duplicated header, replayed}; each cell is executed through the real WSGI app and judged on the "
    "AuthContext handed to the method, the inner-authenticator call counter and a baseline app without the gate. "
    "Chains of two require_all alternatives with different gates (both orders x proof for A/B/none x inner verdicts) are judged against the documented composition. The thorough tier adds seeded single-field mutations of valid proofs."
)
LEVEL_NOTE = "independent minter from the spec; clock injected through proxy_proof_gate(now=...); Falcon/WSGI driver trusted"
CATEGORY = "exploration"
RULE = (
    "case = (mode, inner kind, proof state[, mutation]); every cell of the table once per run (exhaustive), plus chain_authenticate "
    "construction with a gate at every position; thorough adds random field mutations; distinct class = (mode, inner kind, proof state)"
)

SECRET = bytes(range(1, 33))
SECRET2 = bytes(range(2, 34))
KID = "edge-1"
LABEL = "proxy-A"
ORIGIN = "worker/1"
T0 = 1_900_000_000
SKEW = 30
PROOF_HEADER = "VGI-Proxy-Proof"

MODES = ["allow", "require"]
INNERS = ["absent", "accept", "accept_anon", "reject_value", "reject_failure", "reject_perm"]
PROOFS = ["valid", "absent", "empty", "malformed", "expired", "not_yet_valid", "bad_mac", "unknown_kid", "wrong_origin", "duplicated", "replayed"]


def _b64(raw: bytes) -> str:
    return base64.urlsafe_b64encode(raw).rstrip(b"=").decode()


def mint(secret: bytes, kid: str, origin: str, ts: int, nonce: str | None = None, rng: random.Random | None = None) -> str:
    """Independent minter: spec sections 3 (token format) and 4 (canonical string)."""
    if nonce is None:
        r = rng or random
        nonce = _b64(bytes(r.getrandbits(8) for _ in range(16)))
    msg = b"vgi.proxy.proof.v1\x00" + kid.encode() + b"\x00" + str(ts).encode() + b"\x00" + nonce.encode() + b"\x00" + origin.encode()
    mac = hmac.new(secret, msg, hashlib.sha256).digest()
    return f"v1.{kid}.{ts}.{nonce}.{_b64(mac)}"


def _proof_headers(state: str, rng: random.Random) -> list[list[tuple[str, str]]]:
    """Header lists for the request(s) of one proof state; the *last* request is the judged one."""
    good = mint(SECRET, KID, ORIGIN, T0, rng=rng)
    if state == "valid":
        return [[(PROOF_HEADER, good)]]
    if state == "absent":
        return [[]]
    if state == "empty":
        return [[(PROOF_HEADER, "")]]
    if state == "malformed":
        return [[(PROOF_HEADER, rng.choice(["garbage", "v1.a.b", good.replace("v1.", "v2.", 1), good[:-5], good + ".x", "v1..1.x.y"]))]]
    if state == "expired":
        return [[(PROOF_HEADER, mint(SECRET, KID, ORIGIN, T0 - SKEW - 1 - rng.choice([0, 1, 1000]), rng=rng))]]
    if state == "not_yet_valid":
        return [[(PROOF_HEADER, mint(SECRET, KID, ORIGIN, T0 + SKEW + 1 + rng.choice([0, 1, 10**9]), rng=rng))]]
    if state == "bad_mac":
        return [[(PROOF_HEADER, mint(SECRET2, KID, ORIGIN, T0, rng=rng))]]
    if state == "unknown_kid":
        return [[(PROOF_HEADER, mint(SECRET, "other-kid", ORIGIN, T0, rng=rng))]]
    if state == "wrong_origin":
        return [[(PROOF_HEADER, mint(SECRET, KID, "worker/2", T0, rng=rng))]]
    if state == "duplicated":
        other = mint(SECRET, KID, ORIGIN, T0, rng=rng)
        return [[(PROOF_HEADER, good), (PROOF_HEADER, other)]]
    if state == "replayed":
        return [[(PROOF_HEADER, good)], [(PROOF_HEADER, good)]]
    raise AssertionError(state)


def _mutate(token: str, rng: random.Random) -> tuple[str, str]:
    """Single-field mutation that certainly changes a MAC input or the MAC bytes (never only padding bits)."""
    parts = token.split(".")
    which = rng.choice(["kid", "ts", "nonce", "mac", "version", "sep"])
    alpha = "ABCDEFGHIJKLMNOPQRSTUVWXYZabcdefghijklmnopqrstuvwxyz0123456789-_"
    if which == "kid":
        parts[1] = parts[1] + rng.choice(["x", "0"]) if rng.random() < 0.5 else parts[1][:-1] + ("Z" if parts[1][-1] != "Z" else "Y")
    elif which == "ts":
        parts[2] = rng.choice([str(int(parts[2]) + rng.choice([-1, 1, 7])), "0" + parts[2], parts[2] + " ", "+" + parts[2]])
    elif which == "nonce":
        i = rng.randrange(len(parts[3]) - 1)  # not the last char (padding bits)
        c = rng.choice([a for a in alpha if a != parts[3][i]])
        parts[3] = parts[3][:i] + c + parts[3][i + 1 :]
    elif which == "mac":
        i = rng.randrange(len(parts[4]) - 1)
        c = rng.choice([a for a in alpha if a != parts[4][i]])
        parts[4] = parts[4][:i] + c + parts[4][i + 1 :]
    elif which == "version":
        parts[0] = rng.choice(["v2", "V1", "v1 ", "", "v01"])
    else:
        return which, token.replace(".", rng.choice([":", "..", " "]), 1)
    return which, ".".join(parts)


def _build(mode: str, inner_kind: str) -> dict[str, Any]:
    import warnings

    from lib import svcgen
    from vgi_rpc.http import AuthFailure, AuthReason, ProxyProofConfig, make_wsgi_app, proxy_proof_gate, require_all
    from vgi_rpc.rpc import AuthContext, RpcServer

    warnings.simplefilter("ignore")
    program = {
        "name": "GenSvc",
        "methods": [{"name": "whoami", "kind": "unary", "params": [], "ret": ("int",), "u": {"logs": [], "act": ("return", 1)}}],
        "calls": [],
    }
    proto, impl = svcgen.build(program)
    seen: list[Any] = []
    orig = impl._unary

    def spy(name: str, kwargs: dict[str, Any], ctx: Any) -> Any:
        seen.append(ctx.auth if ctx is not None else None)
        return orig(name, kwargs, ctx)

    impl._unary = spy  # type: ignore[method-assign]
    counter = {"inner": 0}
    inner_ctx = AuthContext(domain="bearer", authenticated=True, principal="alice", claims={"scope": "rw"})

    def inner(req: Any) -> Any:
        counter["inner"] += 1
        if inner_kind == "accept":
            return inner_ctx
        if inner_kind == "accept_anon":
            return AuthContext.anonymous()
        if inner_kind == "reject_value":
            raise ValueError("bad token")
        if inner_kind == "reject_failure":
            raise AuthFailure(AuthReason.INVALID_CREDENTIAL, "bad token")
        raise PermissionError("forbidden")

    inner_fn = None if inner_kind == "absent" else inner
    cfg = ProxyProofConfig(mode=mode, origin_id=ORIGIN, secrets={KID: (SECRET, LABEL)}, skew_seconds=SKEW)  # type: ignore[arg-type]
    gate = proxy_proof_gate(cfg, now=lambda: T0)
    server = RpcServer(proto, impl)
    app = make_wsgi_app(server, authenticate=require_all(gate, inner_fn), token_key=b"k" * 32)
    # baseline: the same service with the bare inner (or no authenticate callback at all)
    proto_b, impl_b = svcgen.build(program)
    seen_b: list[Any] = []
    orig_b = impl_b._unary

    def spy_b(name: str, kwargs: dict[str, Any], ctx: Any) -> Any:
        seen_b.append(ctx.auth if ctx is not None else None)
        return orig_b(name, kwargs, ctx)

    impl_b._unary = spy_b  # type: ignore[method-assign]
    base = make_wsgi_app(RpcServer(proto_b, impl_b), authenticate=inner_fn, token_key=b"k" * 32)
    return {"app": app, "seen": seen, "counter": counter, "base": base, "seen_b": seen_b, "gate": gate}


def _ident(a: Any) -> dict[str, Any] | None:
    if a is None:
        return None
    return {"domain": a.domain, "principal": a.principal, "authenticated": a.authenticated}


def _judge(chk: Check, rig: dict[str, Any], mode: str, inner_kind: str, state: str, header_sets: list[list[tuple[str, str]]], proven: bool, extra_cls: str = "") -> None:
    import pyarrow as pa

    from lib import httpdrv

    body = httpdrv.request_body("whoami", pa.schema([]), None)
    H = [("Content-Type", httpdrv.ARROW_CT)]
    r = None
    for hs in header_sets[:-1]:
        httpdrv.call(rig["app"], "POST", "/whoami", H + hs, body)
    n_seen = len(rig["seen"])
    n_inner = rig["counter"]["inner"]
    r = httpdrv.call(rig["app"], "POST", "/whoami", H + header_sets[-1], body)
    dispatched = len(rig["seen"]) > n_seen
    auth = rig["seen"][-1] if dispatched else None
    inner_calls = rig["counter"]["inner"] - n_inner
    cls = f"{mode}|inner={inner_kind}|proof={state}{extra_cls}"
    chk.case(cls)
    claims = dict(auth.claims) if auth is not None else {}
    proof_claims = claims.get("vgi_proxy_proof")
    if hasattr(proof_claims, "items"):
        proof_claims = dict(proof_claims)
    wit = {
        "mode": mode,
        "inner": inner_kind,
        "proof_state": state,
        "proof_headers": header_sets[-1],
        "status": r.status,
        "dispatched": dispatched,
        "auth_seen_by_method": _ident(auth),
        "proof_claims": proof_claims,
        "inner_calls": inner_calls,
    }
    if r.exc is not None or r.status >= 500:
        chk.violation(f"server_error:{mode}:{state}", "a proof/credential combination produced a 5xx or an escaped exception", wit)
        return
    if mode == "require" and not proven:
        chk.hit("require_gate_failure")
        if dispatched or r.status != 401:
            chk.violation("require_mode_unproven_request_served", "require mode: a request without a valid proof was not refused with 401", wit)
        if inner_calls:
            chk.violation("inner_consulted_after_gate_failure", "require mode: the inner authenticator was invoked although the gate failed", wit)
        return
    # the gate lets the request through (verified, or allow mode)
    if inner_kind.startswith("reject"):
        chk.hit("inner_rejects")
        if dispatched or r.status != 401:
            chk.violation(f"inner_rejection_ignored:{mode}", "the inner authenticator rejected the request but it was served", wit)
        if inner_calls != 1:
            chk.violation(f"inner_call_count:{mode}", f"inner authenticator invoked {inner_calls}x for one request", wit)
        return
    if not dispatched:
        chk.violation(
            f"passing_request_refused:{mode}:{'proven' if proven else 'unproven'}:inner={inner_kind}",
            "a request that the gate must let through (and the inner authenticator accepts) was refused",
            wit,
        )
        return
    if inner_kind in ("accept", "accept_anon"):
        chk.hit("inner_accepts")
        want = {"domain": "bearer", "principal": "alice", "authenticated": True} if inner_kind == "accept" else {"domain": None, "principal": None, "authenticated": False}
        if _ident(auth) != want:
            chk.violation(f"identity_not_inner:{mode}:inner={inner_kind}", "identity handed to the method is not the inner authenticator's", {**wit, "expected": want})
        if inner_calls != 1:
            chk.violation(f"inner_call_count:{mode}", f"inner authenticator invoked {inner_calls}x for one request", wit)
        if inner_kind == "accept" and claims.get("scope") != "rw":
            chk.violation(f"inner_claims_lost:{mode}", "the inner authenticator's claims were dropped", wit)
    else:  # inner absent
        chk.hit("inner_absent_dispatched")
        if auth.authenticated and not proven:
            chk.violation(
                "allow_unproven_treated_as_authenticated:inner_absent",
                "require_all(gate(mode='allow'), inner=None): a request whose proof did not verify reaches the method with authenticated=True",
                wit,
            )
    # proof attribution flag must agree with what actually happened (spec section 9)
    if isinstance(proof_claims, dict):
        chk.hit("proof_claims_seen")
        if (proof_claims.get("verified") == "true") != proven:
            chk.violation(f"verified_flag_wrong:{mode}", "claims['vgi_proxy_proof']['verified'] disagrees with the proof's validity", wit)
    # allow + unproven: must equal the anonymous baseline (same request, no gate)
    if mode == "allow" and not proven:
        chk.hit("allow_unproven_baseline_compared")
        nb = len(rig["seen_b"])
        rb = httpdrv.call(rig["base"], "POST", "/whoami", H, body)
        base_auth = rig["seen_b"][-1] if len(rig["seen_b"]) > nb else None
        if base_auth is None:
            chk.inconclusive_because(f"baseline app refused the request ({rb.status}) for inner={inner_kind}")
        elif _ident(base_auth) != _ident(auth) and not (inner_kind == "absent" and auth.authenticated):
            # (the authenticated=True case is already reported under its own key)
            diff = [k for k in ("domain", "principal", "authenticated") if _ident(base_auth)[k] != _ident(auth)[k]]
            chk.violation(
                f"allow_unproven_differs_from_anonymous:inner={inner_kind}" + (":domain_only" if diff == ["domain"] else ""),
                "allow mode: an unproven request reaches the method with an identity different from the same request without the gate",
                {**wit, "baseline": _ident(base_auth)},
            )
        elif _ident(base_auth) != _ident(auth):
            chk.hit("allow_unproven_identity_differs_recorded")


def _chain_cases(chk: Check) -> None:
    from vgi_rpc.http import PreconditionGate, ProxyProofConfig, chain_authenticate, proxy_proof_gate
    from vgi_rpc.rpc import AuthContext

    def leaf(req: Any) -> Any:
        raise ValueError("no")

    def ok(req: Any) -> Any:
        return AuthContext(domain="x", authenticated=True, principal="bob")

    class SubGate(PreconditionGate):
        pass

    for mode in MODES:
        cfg = ProxyProofConfig(mode=mode, origin_id=ORIGIN, secrets={KID: (SECRET, LABEL)}, skew_seconds=SKEW)  # type: ignore[arg-type]
        gate = proxy_proof_gate(cfg, now=lambda: T0)
        sub = SubGate(lambda req: {"verified": "true"}, name="sub", claims_key="sub")
        layouts = {
            "only": (gate,),
            "first": (gate, ok),
            "middle": (leaf, gate, ok),
            "last": (leaf, ok, gate),
            "subclass_first": (sub, ok),
            "subclass_last": (leaf, sub),
        }
        for pos, members in layouts.items():
            chk.case(f"chain|{mode}|gate_position={pos}")
            chk.hit("chain_construction")
            try:
                fn = chain_authenticate(*members)
            except TypeError:
                chk.hit("chain_refused_gate")
                continue
            except Exception as exc:  # noqa: BLE001
                chk.hit("chain_refused_gate")
                chk.skip(f"chain_refused_with_{type(exc).__name__}")
                continue
            # construction succeeded: show the consequence on a proof-less request
            import falcon.testing

            req = falcon.Request(falcon.testing.create_environ(path="/whoami", method="POST"))
            outcome: Any
            try:
                got = fn(req)
                outcome = _ident(got) if hasattr(got, "authenticated") else f"returned {type(got).__name__}"
            except Exception as exc:  # noqa: BLE001
                outcome = f"raised {type(exc).__name__}"
            chk.violation(
                f"gate_accepted_in_or_chain:position={pos.replace('subclass_', '')}{':subclass' if 'subclass' in pos else ''}",
                "chain_authenticate accepted a PreconditionGate as an alternative",
                {"mode": mode, "position": pos, "proofless_request_outcome": outcome},
            )


def _two_gates_in_one_chain(chk: Check, rng: random.Random) -> None:
    """chain_authenticate(require_all(gateA, innerA), require_all(gateB, innerB)): AND inside each alternative.

    The two gates trust different proxies (own kid / secret).  A request carries at most one proof, so it can satisfy
    gate A, gate B or neither.  Reference (require_all / chain_authenticate documentation): alternatives are tried
    left to right; a gate failure is a refusal that chain composition propagates (it ends the chain, it is not "try
    the next"); an inner rejection moves on to the next alternative; an inner is consulted only after ITS OWN gate
    verified the request, and the request is authenticated only by an alternative whose own gate verified it.
    """
    import falcon
    import falcon.testing

    from vgi_rpc.http import ProxyProofConfig, chain_authenticate, proxy_proof_gate, require_all
    from vgi_rpc.rpc import AuthContext

    kid_b, label_b = "edge-2", "proxy-B"
    for order in ("AB", "BA"):
      for proof_for in ("A", "B", "none"):
        for inner_a in ("accept", "reject"):
            for inner_b in ("accept", "reject"):
                  calls = {"A": 0, "B": 0}

                  def mk_inner(name: str, verdict: str) -> Any:
                      def inner(req: Any) -> Any:
                          calls[name] += 1
                          if verdict == "reject":
                              raise ValueError(f"inner {name} says no")
                          return AuthContext(domain=f"dom{name}", authenticated=True, principal=f"user-{name}")

                      return inner

                  gate_a = proxy_proof_gate(ProxyProofConfig(mode="require", origin_id=ORIGIN, secrets={KID: (SECRET, LABEL)}, skew_seconds=SKEW), now=lambda: T0)  # type: ignore[arg-type]
                  gate_b = proxy_proof_gate(ProxyProofConfig(mode="require", origin_id=ORIGIN, secrets={kid_b: (SECRET2, label_b)}, skew_seconds=SKEW), now=lambda: T0)  # type: ignore[arg-type]
                  alts = {"A": require_all(gate_a, mk_inner("A", inner_a)), "B": require_all(gate_b, mk_inner("B", inner_b))}
                  fn = chain_authenticate(*[alts[x] for x in order])
                  hdrs = {}
                  if proof_for == "A":
                      hdrs[PROOF_HEADER] = mint(SECRET, KID, ORIGIN, T0, rng=rng)
                  elif proof_for == "B":
                      hdrs[PROOF_HEADER] = mint(SECRET2, kid_b, ORIGIN, T0, rng=rng)
                  req = falcon.Request(falcon.testing.create_environ(path="/whoami", method="POST", headers=hdrs))
                  try:
                      got = fn(req)
                      outcome = _ident(got)
                  except Exception as exc:  # noqa: BLE001
                      got, outcome = None, f"rejected:{type(exc).__name__}"
                  want = False
                  for alt in order:
                      if proof_for != alt:
                          break  # this alternative's gate refuses: the refusal propagates
                      if {"A": inner_a, "B": inner_b}[alt] == "accept":
                          want = True
                          break
                  cls = f"two_gates|order={order}|proof={proof_for}|innerA={inner_a}|innerB={inner_b}"
                  chk.case(cls)
                  chk.hit("two_gate_chain_judged")
                  wit = {"order": order, "proof_satisfies": proof_for, "inner_a": inner_a, "inner_b": inner_b, "outcome": outcome, "inner_calls": dict(calls)}
                  authed = got is not None and getattr(got, "authenticated", False)
                  if authed and not want:
                      chk.violation(f"authenticated_without_own_gate:two_gates:proof={proof_for}", "a request was authenticated by an alternative whose own gate did not verify it", wit)
                  elif want and not authed:
                      chk.violation("two_gates:valid_alternative_refused", "an alternative with a verified gate and an accepting inner was not honoured", wit)
                  for name in ("A", "B"):
                      if calls[name] and proof_for != name:
                          chk.violation(f"inner_consulted_after_gate_failure:two_gates:{name}", "require mode: the inner authenticator of an alternative was consulted although that alternative's gate had not verified the request", wit)


def run_shard(job: dict[str, Any]) -> dict[str, Any]:
    chk = Check(PID, job["tier"], job["seed"])
    rng = random.Random(job["seed"])
    if job["kind"] == "table":
        for mode in MODES:
            for inner_kind in INNERS:
                rig = _build(mode, inner_kind)
                for state in PROOFS:
                    for _rep in range(job.get("reps", 1)):
                        _judge(chk, rig, mode, inner_kind, state, _proof_headers(state, rng), proven=(state == "valid"))
                chk.sample({"mode": mode, "inner": inner_kind, "proof_states": PROOFS})
        _chain_cases(chk)
        _two_gates_in_one_chain(chk, rng)
    else:  # fuzz: single-field mutations of valid proofs
        rigs = {(m, i): _build(m, i) for m in MODES for i in ("absent", "accept", "reject_failure")}
        for _ in range(job["count"]):
            mode, inner_kind = rng.choice(list(rigs))
            tok = mint(SECRET, KID, ORIGIN, T0 + rng.randint(-SKEW, SKEW), rng=rng)
            if rng.random() < 0.15:
                _judge(chk, rigs[(mode, inner_kind)], mode, inner_kind, "valid", [[(PROOF_HEADER, tok)]], proven=True, extra_cls="|fuzz-control")
                continue
            which, bad = _mutate(tok, rng)
            if bad == tok:
                chk.skip("mutation_was_identity")
                continue
            _judge(chk, rigs[(mode, inner_kind)], mode, inner_kind, "mutated", [[(PROOF_HEADER, bad)]], proven=False, extra_cls=f":{which}")
    return chk.to_result()


def _run(tier: str, seed: int) -> Check:
    chk = Check(PID, tier, seed, level=CATEGORY, rule=RULE)
    chk.require(
        "two_gate_chain_judged",
        "require_gate_failure",
        "inner_rejects",
        "inner_accepts",
        "inner_absent_dispatched",
        "proof_claims_seen",
        "allow_unproven_baseline_compared",
        "chain_construction",
        "chain_refused_gate",
    )
    chk.assumptions = [
        "proofs minted by the check's own minter (spec sections 3-4); gate clock injected (now=T0)",
        "'treated as authenticated' is read off AuthContext.authenticated as seen by the service method",
        "claims other than the gate's own key are not compared against the anonymous baseline (spec section 9 allows proof attribution in claims)",
    ]
    jobs: list[dict[str, Any]] = [{"tier": tier, "seed": seed, "kind": "table", "reps": 1 if tier == "quick" else 3}]
    if tier == "thorough":
        for i in range(6):
            jobs.append({"tier": tier, "seed": seed * 1000 + i + 1, "kind": "fuzz", "count": 20000})
    else:
        jobs.append({"tier": tier, "seed": seed * 1000 + 1, "kind": "fuzz", "count": 400})
    for res in shard.pmap("checks.c24", "run_shard", jobs, timeout=600 if tier == "quick" else 2400):
        chk.merge(res)
    chk.exhaustive["mode x inner x proof-state table"] = True
    chk.exhaustive["chain_authenticate gate positions"] = True
    chk.exhaustive["field mutations of valid proofs"] = False
    return chk


def main(tier: str, seed: int) -> int:
    return _run(tier, seed).finish()


def replay(path: str) -> int:
    """Re-execute the run (tier, seed) recorded in a replay file; the recorded mechanism key must fire again."""
    import json

    with open(path) as fh:
        rec = json.load(fh)
    chk = _run(rec["tier"], int(rec["seed"]))
    v = chk.violations.get(rec["key"])
    if v is not None:
        print(f"VIOLATION property={PID} replay={path}")
        print(f"  key={rec['key']}: reproduced ({v['count']}x): {v['what']}")
        return 1
    print(f"INCONCLUSIVE property={PID} reason=replay of {rec['key']} did not reproduce (other keys: {sorted(chk.violations)})")
    return 2

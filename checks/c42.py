"""C42 - the serve-start hook runs exactly once per binding (scheduled interleavings).

2-3 actors issue concurrent *first* requests through the real WSGI app and/or run
``RpcServer.serve`` on a pipe whose request bytes were written beforehand, while the
implementation's ``on_serve_start`` hook (ok / raise once / raise always) and the
service method log hook_begin / hook_end / dispatch events.  The deterministic
scheduler interleaves them at every line of ``RpcServer._notify_transport`` /
``_TransportNotifyMiddleware.process_request`` / ``serve`` and at every operation of
the (scheduler-aware) transport lock.
"""

from __future__ import annotations

import random
from typing import Any

from lib import shard
from lib.evidence import Check

PID = "C42"
ENGINE = "E3-scheduler"
TECHNIQUE = "deterministic scheduler (bounded-preemption DFS + PCT) over real request threads; offline check of hook/dispatch event logs"
LEVEL_TEXT = (
    "Exploration of schedules: every schedule up to the preemption bound over line-level yield points of the binding "
    "code for each (actor set, hook behaviour), plus PCT samples. Held = in no explored interleaving did a method "
    "dispatch without a completed successful hook for its transport kind, hooks overlap, or a bound kind re-fire."
)
LEVEL_NOTE = "threading.Lock in rpc/_server.py replaced by a scheduler-aware lock; requests enter through the WSGI callable; pipe requests are pre-written so serve() never blocks"
RULE = "case = (actor set, hook behaviour, schedule); distinct class = (actor set, hook behaviour, decision list)"

ACTOR_SETS = [
    ["http", "http"],
    ["http", "http", "http"],
    ["pipe", "http"],
    ["pipe", "pipe"],
    ["http", "pipe", "http"],
    ["pipe_then_http"],
    ["http_then_pipe_then_http"],
    ["pipe_then_http", "http"],
]
HOOKS = ["ok", "raise_once", "raise_always"]


class _Env:
    def __init__(self) -> None:
        import vgi_rpc.rpc._server as srv
        from lib import sched as S

        self.S = S
        self.srv = srv
        self.ref: list[Any] = [None]
        srv.threading = S.shim_threading(self.ref)  # type: ignore[attr-defined]


_ENV: list[_Env] = []


def _env() -> _Env:
    if not _ENV:
        _ENV.append(_Env())
    return _ENV[0]


def _run_once(actor_set: list[str], hook_mode: str, strategy: Any) -> tuple[Any, dict[str, Any]]:
    import warnings
    from typing import Protocol

    import pyarrow as pa

    from lib import httpdrv
    from vgi_rpc.http import make_wsgi_app
    from vgi_rpc.rpc import CallContext, RpcServer, make_pipe_pair
    from vgi_rpc.rpc._wire import _write_request

    env = _env()
    S = env.S
    s = S.Scheduler(strategy, max_steps=8000, watchdog_s=30.0)
    env.ref[0] = s
    state = {"raised": 0}

    class Svc(Protocol):
        def ping(self, tag: str) -> str: ...

    class Impl:
        def on_serve_start(self, kind: Any) -> None:
            s.log("hook_begin", kind.value)
            s.point("hook.mid")
            if hook_mode == "raise_always" or (hook_mode == "raise_once" and state["raised"] == 0):
                state["raised"] += 1
                s.log("hook_end", kind.value, "raised")
                raise RuntimeError("hook boom")
            s.log("hook_end", kind.value, "ok")

        def ping(self, tag: str, ctx: CallContext = None) -> str:  # type: ignore[assignment]
            s.log("dispatch", ctx.kind.value if ctx is not None and ctx.kind is not None else "none", tag)
            return tag

    server = RpcServer(Svc, Impl())
    with warnings.catch_warnings():
        warnings.simplefilter("ignore")
        app = make_wsgi_app(server, token_key=b"k" * 32)
    schema = pa.schema([pa.field("tag", pa.string(), nullable=False)])
    info: dict[str, Any] = {"results": {}}

    def do_http(tag: str) -> None:
        r = httpdrv.call(app, "POST", "/ping", {"Content-Type": httpdrv.ARROW_CT}, httpdrv.request_body("ping", schema, {"tag": tag}))
        info["results"][tag] = ("http", r.status, r.header("X-VGI-RPC-Error"), repr(r.exc) if r.exc else None)

    pipes: list[Any] = []

    def prep_pipe(tag: str) -> Any:
        ct, st = make_pipe_pair()
        _write_request(ct.writer, "ping", schema, {"tag": tag})
        ct.writer.close()
        pipes.append((ct, st))
        return st

    def do_pipe(tag: str, st: Any) -> None:
        try:
            server.serve(st)
            info["results"][tag] = ("pipe", "served", None, None)
        except Exception as exc:  # hook exceptions propagate out of serve()
            info["results"][tag] = ("pipe", "raised", type(exc).__name__, None)

    def mk(kind: str, i: int) -> Any:
        tag = f"{kind}{i}"
        if kind == "http":
            return lambda: (s.point("actor.start"), do_http(tag))
        if kind == "pipe":
            st = prep_pipe(tag)
            return lambda: (s.point("actor.start"), do_pipe(tag, st))
        if kind == "pipe_then_http":
            st = prep_pipe(tag + "p")
            return lambda: (s.point("actor.start"), do_pipe(tag + "p", st), do_http(tag + "h"))
        if kind == "http_then_pipe_then_http":
            st = prep_pipe(tag + "p")
            return lambda: (s.point("actor.start"), do_http(tag + "h1"), do_pipe(tag + "p", st), do_http(tag + "h2"))
        raise ValueError(kind)

    for i, kind in enumerate(actor_set):
        s.actor(f"{kind}{i}", mk(kind, i))
    s.monitor_files(
        ("vgi_rpc/rpc/_server.py", "vgi_rpc/http/server/_middleware.py"),
        line=True,
        funcs={"_notify_transport", "process_request", "serve", "transport_kind"},
    )
    try:
        s.run()
    finally:
        S.Scheduler.unmonitor()
        for ct, st in pipes:
            for t in (ct, st):
                try:
                    t.close()
                except Exception:  # noqa: BLE001
                    pass
    return s, info


def _judge(chk: Check, actor_set: list[str], hook_mode: str, s: Any, info: dict[str, Any]) -> None:
    name = "+".join(actor_set)
    wit = {"actors": actor_set, "hook": hook_mode, "decisions": s.decisions, "events": s.events, "results": info["results"]}
    chk.case(f"{name}|{hook_mode}|{len(s.decisions)}:{hash(tuple(s.decisions)) & 0xFFFFFFF:x}")
    if s.deadlock:
        chk.violation(f"deadlock:{hook_mode}", "no runnable actor: transport lock never released", wit)
        return
    if s.step_limit_hit or s.watchdog_fired:
        chk.inconclusive_because("schedule hit the step limit / watchdog")
        return
    for a in s.actors:
        if a.exc is not None:
            chk.violation(f"actor_exception:{type(a.exc).__name__}", f"actor raised {a.exc!r}", wit)
    chk.hit("events_logged", len(s.events))
    hook_open: str | None = None
    ok_kinds_ever: set[str] = set()
    last_ok: str | None = None
    prior_kinds: list[str] = []
    for ev in s.events:
        kind = ev[1]
        if kind == "hook_begin":
            chk.hit("hook_observed")
            if hook_open is not None:
                chk.violation("hook_overlap", "two on_serve_start invocations overlapped", wit)
            hook_open = ev[2]
        elif kind == "hook_end":
            hook_open = None
            if ev[3] == "ok":
                if last_ok == ev[2]:
                    chk.violation(f"hook_refired_same_binding:{ev[2]}", "hook ran again for a kind that was still bound", wit)
                last_ok = ev[2]
                ok_kinds_ever.add(ev[2])
                prior_kinds.append(ev[2])
        elif kind == "dispatch":
            chk.hit("dispatch_observed")
            via = ev[0].rstrip("0123456789")
            req_kind = "http" if ev[3].endswith(("h", "h1", "h2")) or via == "http" else "pipe"
            if req_kind not in ok_kinds_ever:
                before = "after_" + "_".join(sorted(set(prior_kinds))) if prior_kinds else "no_hook"
                if hook_open is not None:
                    before = "hook_still_running"
                chk.violation(
                    f"dispatch_without_hook:{req_kind}:{before}",
                    "a method was dispatched over a transport kind whose on_serve_start hook had not completed successfully",
                    wit,
                )
    # a raising hook must fail the request that triggered it (covered by dispatch_without_hook) and must not be recorded
    if hook_mode == "raise_always" and any(e[1] == "dispatch" for e in s.events):
        chk.hit("dispatch_under_raise_always")
    if s.preemptions:
        chk.hit("preempted_schedules")


def run_shard(job: dict[str, Any]) -> dict[str, Any]:
    env = _env()
    S = env.S
    chk = Check(PID, job["tier"], job["seed"])
    rng = random.Random(job["seed"])
    for actor_set, hook_mode in job["cases"]:
        def make_run(strategy: Any, a: list[str] = actor_set, h: str = hook_mode) -> Any:
            s, info = _run_once(a, h, strategy)
            s._info = info
            return s

        def on_done(s: Any, a: list[str] = actor_set, h: str = hook_mode) -> None:
            _judge(chk, a, h, s, s._info)
            if len(chk.samples) < 2 and s.preemptions:
                chk.sample({"actors": a, "hook": h, "decisions": s.decisions[:60], "events": s.events})

        st = S.explore_dfs(make_run, bound=job["bound"], max_schedules=job["max_dfs"], on_done=on_done)
        chk.extra["dfs_schedules"] = chk.extra.get("dfs_schedules", 0) + st["distinct"]
        if st["truncated"]:
            chk.extra["dfs_truncated_cases"] = chk.extra.get("dfs_truncated_cases", 0) + 1
        strategies = [S.PCTStrategy(random.Random(rng.random()), len(actor_set), depth=3, horizon=200) for _ in range(job["pct"])]
        st2 = S.explore_sampled(make_run, strategies, on_done=on_done)
        chk.extra["pct_schedules"] = chk.extra.get("pct_schedules", 0) + st2["schedules"]
    return chk.to_result()


def main(tier: str, seed: int) -> int:
    chk = Check(PID, tier, seed, rule=RULE)
    chk.require("events_logged", "hook_observed", "dispatch_observed", "preempted_schedules")
    quick = tier == "quick"
    cases = [(a, h) for a in ACTOR_SETS for h in HOOKS]
    jobs = [
        {"tier": tier, "seed": seed * 1000 + i, "cases": [c], "bound": 2 if quick else 3, "max_dfs": 80 if quick else 5000, "pct": 6 if quick else 400}
        for i, c in enumerate(cases)
    ]
    for res in shard.pmap("checks.c42", "run_shard", jobs, timeout=400 if quick else 1700):
        chk.merge(res)
    chk.exhaustive["dfs_per_case_up_to_bound"] = chk.extra.get("dfs_truncated_cases", 0) == 0
    return chk.finish()


def replay(path: str) -> int:
    import json

    env = _env()
    with open(path) as fh:
        rec = json.load(fh)
    fired = 0
    for w in rec["witnesses"]:
        chk = Check(PID, "quick", 0)
        s, info = _run_once(w["actors"], w["hook"], env.S.FixedStrategy(list(w["decisions"]), strict=True))
        if s.diverged:
            print(f"replay diverged: {s.diverged}")
            continue
        _judge(chk, w["actors"], w["hook"], s, info)
        if rec["key"] in chk.violations:
            fired += 1
    if fired:
        print(f"VIOLATION property={PID} replay={path}")
        return 1
    print("replay did not reproduce (inconclusive)")
    return 2

"""C38 - HTTP retries are bounded and never duplicate non-idempotent calls.

Three legs, all driving the real ``vgi_rpc.http._retry`` / ``vgi_rpc.http._client`` code:

A  *exhaustive fault sequences*: ``_post_with_retry`` / ``_options_with_retry`` called with a
   duck-typed scripted client that replays an outcome sequence (raise an httpx2 transport error /
   return a real ``httpx2.Response`` with status s and a Retry-After value) and records every send;
   waits are recorded through the documented ``_sleep`` injection parameter.  The outcome tree is
   explored depth-first: a prefix is extended by every alphabet symbol exactly when the client asked
   for one more send, so every fault sequence of length <= max_retries+2 is covered (sequences that
   share a prefix after which the client stopped are the same execution).
B  *stream exchange / cancel / unary / init / continuation through the real proxy*: a generated
   service behind ``httpx2.Client(transport=Faulty(WSGITransport(app)))``; the faulty transport
   injects an outcome before the server saw the request (connection error, proxy status, 413) or
   after the server processed it (proxy 502/503, timeout, mid-body disconnect).  The server-side
   invocation log is the ground truth for duplicated executions.
C  *real sockets*: a raw loopback server that closes the connection after a chosen number of
   response bytes; the exception text is whatever httpx2/h11 really produce, and the number of
   response bytes already received is known to the harness.

Oracle (from the property statement and the HttpRetryConfig docstring): sends per retried request
<= max_retries+1; a resend happens only after a retryable status, or (when
retry_on_connection_error) a connection error / timeout / disconnect before any response byte;
every wait is a number in [0, backoff_max]; exchange and cancel are sent once, plus at most one
resend of an exchange straight after a 413.
"""

from __future__ import annotations

import math
import random
import socket
import threading
import time
from email.utils import format_datetime
from typing import Any

from lib import shard
from lib.evidence import Check

PID = "C38"
ENGINE = "E4-injection+E2-raw-drivers"
TECHNIQUE = "scripted transport replaying exhaustive fault sequences; send/sleep recorder; server invocation log as duplicate oracle"
LEVEL_TEXT = (
    "Fault enumeration: for each retry configuration of a grid, every outcome sequence of length <= max_retries+2 over an "
    "alphabet of transport errors, status codes and Retry-After values was replayed against the real retry loop "
    "(depth-first over the reachable tree) under three jitter settings; stream exchange/cancel, unary, init and "
    "continuation calls were driven through the real HTTP client against a real WSGI app behind a fault-injecting "
    "transport; real-socket disconnects at chosen byte offsets confirm the classification of pre-response disconnects. "
    "Held means no send-count, retry-cause, wait-range or duplicate-execution event in those executions."
)
LEVEL_NOTE = "httpx2 exception classes/messages are those of the installed httpx2; jitter source replaced by lo/hi/real settings"
CATEGORY = "fault_enumeration"
RULE = (
    "case = (entry point, retry config, outcome prefix, jitter setting); prefixes generated depth-first, extended by "
    "every alphabet symbol iff the client issued another send; distinct class = (leg, entry, config shape, sequence of "
    "outcome kinds); proxy leg: (operation, retry on/off, outcome kinds)"
)

# ---------------------------------------------------------------------------
# outcome alphabet
# ---------------------------------------------------------------------------

EXC_RETRYABLE = ["ConnectError", "ConnectTimeout", "ReadTimeout", "WriteTimeout", "PoolTimeout", "Disconnect"]
EXC_FATAL = ["ProtoBody", "ProtoIllegal", "LocalProtocolError", "DecodingError", "UnsupportedProtocol"]
EXC_AMBIGUOUS = ["ReadError", "WriteError", "ProxyError"]  # network errors the statement does not classify

DISCONNECT_MSG = "Server disconnected without sending a response."


def _now_date(delta: float) -> str:
    from datetime import UTC, datetime, timedelta

    return format_datetime(datetime.now(tz=UTC) + timedelta(seconds=delta), usegmt=True)


RETRY_AFTER_FULL = [
    None,
    "0",
    "1",
    "0.25",
    "7",
    "120",
    "100000000",
    "-5",
    "-0.0",
    "nan",
    "NaN",
    "inf",
    "-inf",
    "Infinity",
    "1e999",
    "-1e999",
    "1e-400",
    " 3 ",
    "0x10",
    "1_0",
    "١٢",  # arabic-indic digits: float() accepts them
    "",
    "soon",
    "1,5",
    "@date+2",
    "@date+3600",
    "@date-3600",
    "Fri, 31 Dec 9999 23:59:59 GMT",
    "Thu, 01 Jan 1970 00:00:00 GMT",
    "Fri, 31 Dec 2032 23:59:59",  # no zone -> naive datetime
    "Fri, 31 Dec 2032 23:59:59 +9999",
    "Fri, 31 Dec 99999999999 23:59:59 GMT",
    "Mon, 99 Foo 2032 25:61:61 GMT",
    "31 Dec 2032 23:59 -0000",
]
RETRY_AFTER_SMALL = [None, "1", "120", "-5", "nan", "inf", "@date+3600", "soon"]
RETRY_AFTER_TINY = [None, "120", "-5", "nan"]


def _ra_class(ra: str | None) -> str:
    if ra is None:
        return "absent"
    if ra.startswith("@date") or ("GMT" in ra or ":" in ra):
        return "date"
    try:
        v = float(ra)
    except ValueError:
        return "garbage"
    if v != v:
        return "nan"
    if v in (float("inf"), float("-inf")):
        return "inf"
    return "neg" if v < 0 else "seconds"


def _outcome_class(name: str) -> str:
    """Coarse, stable class of an outcome name for violation keys."""
    name = name.split(":")[-1]
    if name.startswith("s") and name[1:4].isdigit():
        return "status"
    if name == "ConnectError":
        return "connect_error"
    if "Timeout" in name:
        return "timeout"
    if name == "Disconnect":
        return "disconnect"
    if name in ("ProtoBody", "ProtoIllegal"):
        return "remote_protocol_error"
    return "other_transport_error"


def _sym_kind(sym: dict[str, Any], cfgd: dict[str, Any]) -> str:
    if sym["k"] == "exc":
        n = sym["exc"]
        return "disc" if n == "Disconnect" else "timeout" if "Timeout" in n else "conn" if n == "ConnectError" else "amb" if n in EXC_AMBIGUOUS else "proto"
    retryable = sym["s"] in cfgd["retryable"]
    if retryable:
        return "rs+" + _ra_class(sym.get("ra"))
    return "final"


def _alphabet(cfgd: dict[str, Any], depth: int, tier: str, statuses: list[int]) -> list[dict[str, Any]]:
    """Alphabet for position *depth* (0-based).  Full Retry-After corpus near the root, reduced deeper."""
    syms: list[dict[str, Any]] = [{"k": "exc", "exc": n} for n in EXC_RETRYABLE + EXC_FATAL + EXC_AMBIGUOUS]
    full = depth == 0 or (tier == "thorough" and depth == 1 and cfgd.get("deep"))
    ras = RETRY_AFTER_FULL if full else RETRY_AFTER_SMALL if depth == 1 else RETRY_AFTER_TINY
    if depth >= 2:
        statuses = [s for s in statuses if s in (200, 404, 413, 429, 500, 502, 503, 504)]
    for s in statuses:
        if s in cfgd["retryable"] or s in (429, 503):
            for i, ra in enumerate(ras):
                syms.append({"k": "status", "s": s, "ra": ra, "hdr": ("httpx", "lower", "canon", "upper")[i % 4]})
        else:
            syms.append({"k": "status", "s": s, "ra": None, "hdr": "httpx"})
            if s in (200, 500):
                syms.append({"k": "status", "s": s, "ra": "1", "hdr": "httpx"})
    return syms


def _make_exc(name: str) -> BaseException:
    import httpx2

    if name == "Disconnect":
        return httpx2.RemoteProtocolError(DISCONNECT_MSG)
    if name == "ProtoBody":
        return httpx2.RemoteProtocolError("peer closed connection without sending complete message body (received 10 bytes, expected 100)")
    if name == "ProtoIllegal":
        return httpx2.RemoteProtocolError("illegal status line: bytearray(b'garbage')")
    return getattr(httpx2, name)(f"scripted {name}")


def _make_response(sym: dict[str, Any]) -> Any:
    import httpx2

    ra = sym.get("ra")
    if isinstance(ra, str) and ra.startswith("@date"):
        ra = _now_date(float(ra[5:]))
    resp = httpx2.Response(sym["s"], content=b"scripted body")
    if ra is None:
        return resp
    mode = sym.get("hdr", "httpx")
    if mode == "httpx":
        try:
            return httpx2.Response(sym["s"], headers={"Retry-After": ra.encode("utf-8")}, content=b"scripted body")
        except Exception:
            mode = "canon"

    class _R:  # the documented alternative header container: a plain dict
        status_code = sym["s"]
        content = b"scripted body"
        headers = {{"lower": "retry-after", "canon": "Retry-After", "upper": "RETRY-AFTER"}[mode]: ra}

    return _R()


class ScriptedClient:
    """Duck-typed like httpx2.Client / _SyncTestClient; replays outcomes, records sends."""

    def __init__(self, outcomes: list[dict[str, Any]]) -> None:
        self.outcomes = outcomes
        self.sends: list[tuple[str, str]] = []
        self.overrun = 0

    def _next(self, verb: str, url: str) -> Any:
        i = len(self.sends)
        self.sends.append((verb, url))
        if i >= len(self.outcomes):
            self.overrun += 1
            import httpx2

            return httpx2.Response(200, content=b"filler")
        sym = self.outcomes[i]
        if sym["k"] == "exc":
            raise _make_exc(sym["exc"])
        return _make_response(sym)

    def post(self, url: str, *, content: bytes = b"", headers: dict[str, str] | None = None) -> Any:
        return self._next("POST", url)

    def options(self, url: str, **kw: Any) -> Any:
        return self._next("OPTIONS", url)


def _cfg_of(cfgd: dict[str, Any]) -> Any:
    from vgi_rpc.http._retry import HttpRetryConfig

    return HttpRetryConfig(
        max_retries=cfgd["max_retries"],
        backoff_base=cfgd["backoff_base"],
        backoff_max=cfgd["backoff_max"],
        retryable_status_codes=frozenset(cfgd["retryable"]),
        retry_on_connection_error=cfgd["conn"],
        respect_retry_after=cfgd["ra"],
    )


def _cfg_shape(cfgd: dict[str, Any]) -> str:
    return (
        f"mr{cfgd['max_retries']}:base{'0' if cfgd['backoff_base'] == 0 else '+'}:max{'0' if cfgd['backoff_max'] == 0 else '+'}"
        f":conn{int(cfgd['conn'])}:ra{int(cfgd['ra'])}:rs{len(cfgd['retryable'])}"
    )


def _retry_allowed(sym: dict[str, Any], cfgd: dict[str, Any]) -> str:
    """'yes' / 'no' / 'ambiguous' - may the client send again after this outcome? (statement + config doc)."""
    if sym["k"] == "status":
        return "yes" if sym["s"] in cfgd["retryable"] else "no"
    if sym["exc"] in EXC_RETRYABLE:
        return "yes" if cfgd["conn"] else "no"
    if sym["exc"] in EXC_AMBIGUOUS:
        return "ambiguous"
    return "no"


class _Jitter:
    """Stands in for the ``random`` module inside vgi_rpc.http._retry."""

    def __init__(self, mode: str, seed: int) -> None:
        self.mode = mode
        self.rng = random.Random(seed)
        self.calls = 0

    def uniform(self, a: float, b: float) -> float:
        self.calls += 1
        if self.mode == "lo":
            return a
        if self.mode == "hi":
            return b
        return self.rng.uniform(a, b)

    def __getattr__(self, name: str) -> Any:
        return getattr(random, name)


def _bad_wait(d: Any, backoff_max: float) -> str | None:
    if isinstance(d, bool) or not isinstance(d, (int, float)):
        return "not_a_number"
    if d != d:
        return "nan"
    if d < 0:
        return "negative"
    if d > backoff_max:
        return "inf" if math.isinf(d) else "above_backoff_max"
    return None


# ---------------------------------------------------------------------------
# Leg A
# ---------------------------------------------------------------------------


def run_seq(job: dict[str, Any]) -> dict[str, Any]:
    from vgi_rpc.http import _retry

    chk = Check(PID, job["tier"], job["seed"])
    cfgd = job["cfg"]
    cfg = _cfg_of(cfgd)
    shape = _cfg_shape(cfgd)
    entry = job["entry"]
    maxdepth = cfgd["max_retries"] + 2
    real_random = _retry.random
    leaves = 0
    try:
        for jmode in job["jitter"]:
            jit = _Jitter(jmode, job["seed"])
            _retry.random = jit  # type: ignore[attr-defined]
            stack: list[list[dict[str, Any]]] = [[s] for s in reversed(job["roots"])]
            while stack:
                prefix = stack.pop()
                L = len(prefix)
                client = ScriptedClient(prefix)
                sleeps: list[Any] = []
                raised: BaseException | None = None
                ret: Any = None
                try:
                    if entry == "post":
                        ret = _retry._post_with_retry(client, "/m", content=b"body", headers={"h": "v"}, config=cfg, _sleep=sleeps.append)
                    else:
                        ret = _retry._options_with_retry(client, "/health", config=cfg, _sleep=sleeps.append)
                except BaseException as exc:
                    raised = exc
                sends = len(client.sends)
                kinds = [_sym_kind(s, cfgd) for s in prefix]
                chk.case(f"A:{entry}:{shape}:{jmode}:{'>'.join(kinds)}")
                chk.hit("A_runs")
                wit = {"entry": entry, "cfg": cfgd, "jitter": jmode, "sequence": prefix, "sends": sends, "sleeps": sleeps, "raised": repr(raised)[:200]}
                # -- waits (only the wait after the last scripted outcome is new information)
                for d in sleeps[L - 1 : L] if sends > L else []:
                    chk.hit("A_wait_judged")
                    bad = _bad_wait(d, cfgd["backoff_max"])
                    if bad is not None:
                        last = prefix[-1]
                        src = "retry_after" if last["k"] == "status" and _ra_class(last.get("ra")) not in ("absent", "garbage") else "backoff"
                        chk.violation(f"wait_out_of_range:{bad}:{src}", f"wait {d!r} outside [0, backoff_max={cfgd['backoff_max']}]", wit)
                if len(sleeps) != max(0, sends - 1):
                    chk.skip("A_sleep_count_differs_from_resends")
                extended = sends > L
                if extended:
                    chk.hit("A_resend_observed")
                    last = prefix[-1]
                    allowed = _retry_allowed(last, cfgd)
                    if L + 1 > cfgd["max_retries"] + 1:
                        chk.violation(
                            f"too_many_sends:{entry}",
                            f"{sends} sends with max_retries={cfgd['max_retries']}",
                            wit,
                        )
                    if allowed == "no":
                        what = _outcome_class(last["exc"]) if last["k"] == "exc" else "status"
                        if last["k"] == "exc" and last["exc"] in EXC_RETRYABLE:
                            what += ":conn_retry_disabled"
                        chk.violation(f"retry_after_nonretryable:{what}", "request sent again after an outcome that does not permit a retry", wit)
                    elif allowed == "ambiguous":
                        chk.skip("A_retry_after_unclassified_network_error")
                    if L < maxdepth and L + 1 <= cfgd["max_retries"] + 2:
                        for sym in reversed(_alphabet(cfgd, L, job["tier"], job["statuses"])):
                            stack.append([*prefix, sym])
                    else:
                        leaves += 1
                else:
                    leaves += 1
                    chk.hit("A_terminated")
                    last = prefix[-1]
                    # documented outcome (docstring), recorded but not judged: the statement is about sends and waits
                    if last["k"] == "status":
                        if raised is None and getattr(ret, "status_code", None) == last["s"]:
                            chk.hit("A_returned_response")
                        elif isinstance(raised, _retry.HttpTransientError) and raised.status_code == last["s"]:
                            chk.hit("A_transient_error")
                            if L < cfgd["max_retries"] + 1 and _retry_allowed(last, cfgd) == "yes":
                                chk.skip("A_gave_up_early_on_retryable_status")
                        else:
                            chk.skip(f"A_unexpected_outcome:{type(raised).__name__ if raised else 'return'}")
                            chk.sample({"unexpected_outcome": wit})
                    else:
                        if raised is not None and type(raised).__name__ == type(_make_exc(last["exc"])).__name__:
                            chk.hit("A_reraised_transport_error")
                        else:
                            chk.skip(f"A_unexpected_outcome:{type(raised).__name__ if raised else 'return'}")
                            chk.sample({"unexpected_outcome": wit})
                if leaves % 4001 == 0:
                    chk.sample(wit)
            chk.hit("A_jitter_calls", jit.calls)
    finally:
        _retry.random = real_random  # type: ignore[attr-defined]
    chk.extra["A_sequences_covered"] = leaves
    return chk.to_result()


# ---------------------------------------------------------------------------
# Leg B - real client + real WSGI app behind a fault-injecting transport
# ---------------------------------------------------------------------------

B_PROGRAM: dict[str, Any] = {
    "name": "RetrySvc",
    "methods": [
        {"name": "u0", "kind": "unary", "params": [("p0", ("int",))], "ret": ("int",), "u": {"logs": [], "act": ("echo", "p0")}},
        {
            "name": "x0",
            "kind": "exchange",
            "params": [],
            "header": False,
            "in_cols": ["i"],
            "out_cols": ["i"],
            "init": {"logs": [], "act": ("ok",)},
            "steps": [{"logs": [], "act": "emit"}],
        },
        {
            "name": "p0",
            "kind": "producer",
            "params": [],
            "header": False,
            "out_cols": ["i"],
            "init": {"logs": [], "act": ("ok",)},
            "steps": [{"logs": [], "act": "emit", "rows": 2}, {"logs": [], "act": "emit", "rows": 2}, {"logs": [], "act": "emit", "rows": 1}, {"logs": [], "act": "finish"}],
        },
    ],
    "calls": [],
}

B_BEFORE = ["ConnectError", "ReadTimeout", "Disconnect", "ProtoBody", "s502", "s503ra", "s429", "s500", "s413", "s404", "s504"]
B_AFTER = ["s502", "s503ra", "s504", "ReadTimeout", "ProtoBody", "Disconnect"]


def _b_alphabet() -> list[str]:
    return ["pass"] + [f"before:{x}" for x in B_BEFORE] + [f"after:{x}" for x in B_AFTER]


def _b_retry_allowed(sym: str, cfgd: dict[str, Any] | None) -> bool:
    if cfgd is None or sym == "pass":
        return False
    what = sym.split(":", 1)[1]
    if what.startswith("s"):
        return int(what[1:4]) in cfgd["retryable"]
    return cfgd["conn"] and what in ("ConnectError", "ReadTimeout", "Disconnect")


class _Env:
    """One service + app + faulty transport + client, reused across scenarios."""

    def __init__(self, retry_cfgd: dict[str, Any] | None) -> None:
        from datetime import UTC, datetime, timedelta

        import httpx2

        from lib import svcgen
        from vgi_rpc.external import UploadUrl
        from vgi_rpc.http import http_connect, make_wsgi_app
        from vgi_rpc.rpc import RpcServer

        self.httpx2 = httpx2
        proto, impl = svcgen.build(B_PROGRAM)
        self.impl = impl
        env = self

        class Provider:
            n = 0

            def generate_upload_url(self, schema: Any) -> Any:
                Provider.n += 1
                return UploadUrl(
                    upload_url=f"https://storage.test/up/{Provider.n}",
                    download_url=f"https://storage.test/dl/{Provider.n}",
                    expires_at=datetime.now(UTC) + timedelta(hours=1),
                )

        server = RpcServer(proto, impl)
        app = make_wsgi_app(server, token_key=b"k" * 32, upload_url_provider=Provider(), max_request_bytes=10_000_000, enable_landing_page=False, enable_describe_page=False)
        inner = httpx2.WSGITransport(app=app)
        self.sends: list[dict[str, Any]] = []
        self.script: dict[str, list[str]] = {}
        self.op = "idle"

        class Faulty(httpx2.BaseTransport):
            def handle_request(self, request: Any) -> Any:
                path = request.url.path
                if request.url.host == "storage.test":
                    env.sends.append({"op": env.op, "kind": "storage_" + request.method.lower(), "outcome": "pass"})
                    return httpx2.Response(200, content=b"")
                if request.method == "OPTIONS":
                    kind = "options"
                elif path.endswith("/__upload_url__/init"):
                    kind = "upload_url"
                elif path.endswith("/exchange"):
                    kind = "rpc_exchange"
                elif path.endswith("/init"):
                    kind = "rpc_init"
                else:
                    kind = "rpc_unary"
                q = env.script.get(kind) or []
                sym = q.pop(0) if q else "pass"
                env.sends.append({"op": env.op, "kind": kind, "outcome": sym, "len": len(request.content)})
                if sym == "pass":
                    return inner.handle_request(request)
                when, what = sym.split(":", 1)
                if when == "after":
                    r = inner.handle_request(request)
                    r.read()
                    r.close()
                if what.startswith("s"):
                    hdrs = {"Retry-After": "0"} if what.endswith("ra") else {}
                    return httpx2.Response(int(what[1:4]), headers=hdrs, content=b"proxy says no")
                raise _make_exc(what)

        self.client = httpx2.Client(transport=Faulty(), base_url="http://svc.test")
        self._cm = http_connect(proto, client=self.client, retry=_cfg_of(retry_cfgd) if retry_cfgd else None, compression_level=None)
        self.proxy = self._cm.__enter__()

    def begin(self, op: str, script: dict[str, list[str]]) -> tuple[int, int]:
        self.op = op
        self.script = {k: list(v) for k, v in script.items()}
        return len(self.sends), len(self.impl.inv)

    def close(self) -> None:
        self._cm.__exit__(None, None, None)
        self.client.close()


def run_proxy(job: dict[str, Any]) -> dict[str, Any]:
    import pyarrow as pa

    from vgi_rpc.http import _retry
    from vgi_rpc.rpc import AnnotatedBatch

    chk = Check(PID, job["tier"], job["seed"])
    sleeps: list[Any] = []
    saved = []
    for fn in (_retry._request_with_retry, _retry._post_with_retry, _retry._options_with_retry):
        saved.append((fn, dict(fn.__kwdefaults__)))
        fn.__kwdefaults__["_sleep"] = sleeps.append
    alpha = _b_alphabet()
    schema = pa.schema([pa.field("i", pa.int64())])
    try:
        for cfgd in job["cfgs"]:
            env = _Env(cfgd)
            mr = cfgd["max_retries"] if cfgd else 0
            rlabel = "noretry" if cfgd is None else f"mr{mr}:conn{int(cfgd['conn'])}"
            bmax = cfgd["backoff_max"] if cfgd else 0.0

            def judge_waits(where: str, wit: dict[str, Any]) -> None:
                for d in sleeps:
                    chk.hit("B_wait_judged")
                    bad = _bad_wait(d, bmax)
                    if bad is not None:
                        chk.violation(f"wait_out_of_range:{bad}:proxy_leg", f"wait {d!r} outside [0, {bmax}] during {where}", wit)
                sleeps.clear()

            # ---- exchange: DFS over outcome prefixes ------------------------------
            stack = [[s] for s in reversed(alpha)]
            while stack:
                prefix = stack.pop()
                sess = env.proxy.x0()
                s0, i0 = env.begin("exchange", {"rpc_exchange": prefix})
                err = None
                try:
                    ab = sess.exchange(AnnotatedBatch(batch=pa.RecordBatch.from_pydict({"i": [1, 2]}, schema=schema)))
                    got = ab.batch.to_pydict()
                except BaseException as exc:
                    err = exc
                    got = None
                mine = [s for s in env.sends[s0:] if s["kind"] == "rpc_exchange"]
                steps = [e for e in env.impl.inv[i0:] if e[0] == "step"]
                aux = [s["kind"] for s in env.sends[s0:] if s["kind"] != "rpc_exchange"]
                kinds = [p.split(":")[0] + ":" + ("413" if p.endswith("s413") else "status" if ":s" in p else "exc" if ":" in p else "") for p in prefix]
                chk.case(f"B:exchange:{rlabel}:{'>'.join(kinds)}")
                chk.hit("B_exchange_runs")
                wit = {"op": "exchange", "retry": cfgd, "script": prefix, "exchange_sends": [m["outcome"] for m in mine], "aux": aux, "server_steps": len(steps), "error": repr(err)[:160]}
                n = len(mine)
                if n >= 2:
                    first = mine[0]["outcome"]
                    if first != "before:s413":
                        chk.violation(f"exchange_resent:no_413:{first.split(':')[0]}_{_outcome_class(first)}", "stream exchange request sent more than once without a preceding 413", wit)
                    else:
                        chk.hit("B_exchange_413_resend")
                    if n > 2:
                        chk.violation("exchange_resent:more_than_one_after_413", "more than the single post-413 resend", wit)
                if len(steps) > 1:
                    chk.violation("exchange_executed_twice", "server ran the exchange step more than once for one client exchange()", wit)
                if n == 1 and err is None and got == {"i": [2, 3]}:
                    chk.hit("B_exchange_ok")
                judge_waits("exchange", wit)
                if n > len(prefix) and len(prefix) < 3:
                    for sym in reversed(alpha):
                        stack.append([*prefix, sym])
                if len(chk.samples) < 2 and len(prefix) == 2:
                    chk.sample(wit)

            # ---- cancel (after one good exchange; and on a producer stream) -------------------
            for flavour in ("exchange", "producer"):
                for sym in alpha:
                    if flavour == "exchange":
                        sess = env.proxy.x0()
                        env.begin("setup", {})
                        sess.exchange(AnnotatedBatch(batch=pa.RecordBatch.from_pydict({"i": [1]}, schema=schema)))
                    else:
                        env.begin("setup", {})
                        sess = env.proxy.p0()
                    s0, i0 = env.begin("cancel", {"rpc_exchange": [sym, sym, sym]})
                    err = None
                    try:
                        sess.cancel()
                        sess.cancel()
                    except BaseException as exc:
                        err = exc
                    mine = [s for s in env.sends[s0:] if s["kind"] == "rpc_exchange"]
                    cancels = [e for e in env.impl.inv[i0:] if e[0] == "cancel"]
                    chk.case(f"B:cancel:{flavour}:{rlabel}:{sym.split(':')[0]}:{'status' if ':s' in sym else 'exc' if ':' in sym else 'ok'}")
                    chk.hit("B_cancel_runs")
                    wit = {"op": "cancel", "flavour": flavour, "retry": cfgd, "outcome": sym, "sends": len(mine), "server_on_cancel": len(cancels), "error": repr(err)[:160]}
                    if len(mine) > 1:
                        chk.violation(f"cancel_resent:{sym.split(':')[0]}_{_outcome_class(sym)}", "cancel request sent more than once", wit)
                    if len(cancels) > 1:
                        chk.violation("cancel_executed_twice", "server ran on_cancel more than once", wit)
                    if len(mine) == 1:
                        chk.hit("B_cancel_sent_once")
                    if err is not None:
                        chk.skip("B_cancel_raised")
                    judge_waits("cancel", wit)

            # ---- retried operations: unary, init, continuation --------------------------
            ops = {
                "unary": ("rpc_unary", lambda: env.proxy.u0(p0=5)),
                "init": ("rpc_init", lambda: env.proxy.x0()),
                "continuation": ("rpc_exchange", None),
            }
            for opname, (kind, fn) in ops.items():
                stack = [[s] for s in reversed(alpha)]
                while stack:
                    prefix = stack.pop()
                    if opname == "continuation":
                        env.begin("setup", {})
                        sess = env.proxy.p0()
                        fn2 = lambda sess=sess: [ab.batch.num_rows for ab in sess]  # noqa: E731
                    else:
                        fn2 = fn
                    s0, i0 = env.begin(opname, {kind: prefix})
                    err = None
                    try:
                        fn2()
                    except BaseException as exc:
                        err = exc
                    mine = [s for s in env.sends[s0:] if s["kind"] == kind]
                    # a segment = the sends of one retried request: split after 413/415 (documented one-shot
                    # fallbacks) and after every forwarded ("pass") send - a continuation is a new request
                    segs: list[list[str]] = [[]]
                    for m in mine:
                        segs[-1].append(m["outcome"])
                        if m["outcome"] in ("pass", "before:s413") or m["outcome"].endswith("s415"):
                            segs.append([])
                    segs = [s for s in segs if s]
                    kinds = [p.split(":")[0] + ":" + ("status" if ":s" in p else "exc" if ":" in p else "") for p in prefix]
                    chk.case(f"B:{opname}:{rlabel}:{'>'.join(kinds)}")
                    chk.hit("B_retried_op_runs")
                    wit = {"op": opname, "retry": cfgd, "script": prefix, "sends": [m["outcome"] for m in mine], "error": repr(err)[:160]}
                    for seg in segs:
                        if len(seg) > mr + 1:
                            chk.violation(f"too_many_sends:{opname}", f"{len(seg)} sends of one request with max_retries={mr}", wit)
                        for a, _b in zip(seg, seg[1:], strict=False):
                            chk.hit("B_resend_observed")
                            if not _b_retry_allowed(a, cfgd):
                                chk.violation(f"retry_after_nonretryable:{opname}:{a.split(':')[0]}_{_outcome_class(a)}", "request sent again after an outcome that does not permit a retry", wit)
                    judge_waits(opname, wit)
                    if len(mine) > len(prefix) and len(prefix) < mr + 2 and prefix[-1] != "pass":
                        ext = alpha if len(prefix) < 2 else ["pass", "before:s503ra", "before:ConnectError", "before:s500", "after:s502", "before:ProtoBody"]
                        for sym in reversed(ext):
                            stack.append([*prefix, sym])
            env.close()
    finally:
        for fn, kw in saved:
            fn.__kwdefaults__.clear()
            fn.__kwdefaults__.update(kw)
    return chk.to_result()


# ---------------------------------------------------------------------------
# Leg C - real sockets
# ---------------------------------------------------------------------------

_FULL = b"HTTP/1.1 200 OK\r\nContent-Length: 10\r\nContent-Type: text/plain\r\n\r\n0123456789"
C_PAYLOADS: dict[str, bytes | str] = {
    "close_fin_0": b"",
    "close_rst_0": "rst",
    "partial_status_line": b"HTTP/1.1 2",
    "status_line_only": b"HTTP/1.1 200 OK\r\n",
    "partial_headers": b"HTTP/1.1 200 OK\r\nContent-Le",
    "headers_no_body": _FULL[:-10],
    "partial_body": _FULL[:-5],
    "garbage": b"\x00\x01garbage\r\n\r\n",
    "ok": _FULL,
    "s503": b"HTTP/1.1 503 Service Unavailable\r\nContent-Length: 0\r\nRetry-After: 0\r\n\r\n",
    "s500": b"HTTP/1.1 500 Internal Server Error\r\nContent-Length: 0\r\n\r\n",
}


class _RawServer:
    def __init__(self, plan: list[str]) -> None:
        self.plan = list(plan)
        self.requests = 0
        self.received: list[int] = []
        self.sock = socket.socket()
        self.sock.bind(("127.0.0.1", 0))
        self.sock.listen(16)
        self.sock.settimeout(0.2)
        self.port = self.sock.getsockname()[1]
        self.stop = False
        self.th = threading.Thread(target=self._run, daemon=True)
        self.th.start()

    def _run(self) -> None:
        import struct

        while not self.stop:
            try:
                c, _ = self.sock.accept()
            except OSError:
                continue
            c.settimeout(2)
            try:
                buf = b""
                while b"\r\n\r\n" not in buf:
                    d = c.recv(65536)
                    if not d:
                        break
                    buf += d
                if not buf:
                    c.close()
                    continue
                head, _, rest = buf.partition(b"\r\n\r\n")
                need = 0
                for ln in head.split(b"\r\n"):
                    if ln.lower().startswith(b"content-length:"):
                        need = int(ln.split(b":")[1])
                while len(rest) < need:
                    d = c.recv(65536)
                    if not d:
                        break
                    rest += d
                self.requests += 1
                name = self.plan.pop(0) if self.plan else "ok"
                p = C_PAYLOADS[name]
                if p == "rst":
                    c.setsockopt(socket.SOL_SOCKET, socket.SO_LINGER, struct.pack("ii", 1, 0))
                elif p:
                    c.sendall(p)  # type: ignore[arg-type]
                c.close()
            except OSError:
                c.close()

    def close(self) -> None:
        self.stop = True
        self.th.join(timeout=2)
        self.sock.close()


def run_socket(job: dict[str, Any]) -> dict[str, Any]:
    import httpx2

    from vgi_rpc.http import _retry

    chk = Check(PID, job["tier"], job["seed"])
    for cfgd in job["cfgs"]:
        cfg = _cfg_of(cfgd)
        for first in job["firsts"]:
            for second in job["seconds"]:
                plan = [first, second]
                srv = _RawServer(plan)
                sleeps: list[Any] = []
                err = None
                try:
                    with httpx2.Client(timeout=3.0) as client:
                        _retry._post_with_retry(client, f"http://127.0.0.1:{srv.port}/m", content=b"payload", headers={}, config=cfg, _sleep=sleeps.append)
                except BaseException as exc:
                    err = exc
                time.sleep(0.01)
                sends = srv.requests
                srv.close()
                pre = C_PAYLOADS[first]
                nbytes = 0 if pre == "rst" else len(pre)  # response bytes the server wrote before closing
                chk.case(f"C:{_cfg_shape(cfgd)}:{first}>{second if sends > 1 else '-'}")
                chk.hit("C_runs")
                wit = {"cfg": cfgd, "plan": plan, "sends": sends, "response_bytes_before_close": nbytes, "error": f"{type(err).__name__}: {err}"[:200] if err else None, "sleeps": sleeps}
                if sends > cfgd["max_retries"] + 1:
                    chk.violation("too_many_sends:socket", f"{sends} sends", wit)
                for d in sleeps:
                    bad = _bad_wait(d, cfgd["backoff_max"])
                    if bad:
                        chk.violation(f"wait_out_of_range:{bad}:socket", f"wait {d!r}", wit)
                if sends > 1:
                    chk.hit("C_resend_observed")
                    if first in ("s503", "s500"):
                        ok = int(first[1:]) in cfgd["retryable"]
                    elif first in ("close_fin_0", "close_rst_0"):
                        ok = cfgd["conn"]
                    else:
                        ok = False
                    if not ok:
                        if first in ("partial_status_line", "status_line_only", "partial_headers"):
                            chk.violation(
                                "retry_after_response_bytes:partial_response_head",
                                "request sent again although the server had already written response bytes (incomplete status line / header block) before closing",
                                wit,
                            )
                        else:
                            chk.violation(f"retry_after_nonretryable:socket:{first}", "request sent again after a non-retryable outcome", wit)
                if len(chk.samples) < 3 and first in ("close_fin_0", "partial_body"):
                    chk.sample(wit)
    return chk.to_result()


def run_shard(job: dict[str, Any]) -> dict[str, Any]:
    return {"run_seq": run_seq, "run_proxy": run_proxy, "run_socket": run_socket}[job["fn"]](job)


# ---------------------------------------------------------------------------
# main
# ---------------------------------------------------------------------------

DEFAULT_RS = [429, 502, 503, 504]


def _grid(tier: str) -> list[dict[str, Any]]:
    quick = [
        {"max_retries": 1, "backoff_base": 0.5, "backoff_max": 30.0, "retryable": DEFAULT_RS, "conn": True, "ra": True},
        {"max_retries": 2, "backoff_base": 10.0, "backoff_max": 0.05, "retryable": [429, 500, 503], "conn": True, "ra": True},
        {"max_retries": 1, "backoff_base": 4.0, "backoff_max": 2.0, "retryable": DEFAULT_RS, "conn": False, "ra": False},
    ]
    if tier == "quick":
        return quick
    out = list(quick)
    for mr in (0, 1, 2, 3):
        for base, mx in ((0.0, 0.0), (0.5, 30.0), (1e308, 5.0)):
            for conn in (True, False):
                for ra in (True, False):
                    for rs in (DEFAULT_RS, [500], []):
                        if mr == 3 and not (rs == DEFAULT_RS and base == 0.5 and conn == ra):
                            continue
                        if rs == [] and not (conn and ra):
                            continue
                        out.append({"max_retries": mr, "backoff_base": base, "backoff_max": mx, "retryable": rs, "conn": conn, "ra": ra})
    return out


def main(tier: str, seed: int) -> int:
    chk = Check(PID, tier, seed, level=CATEGORY, rule=RULE)
    chk.require(
        "A_runs",
        "A_resend_observed",
        "A_wait_judged",
        "A_terminated",
        "B_exchange_runs",
        "B_exchange_413_resend",
        "B_cancel_sent_once",
        "B_resend_observed",
        "B_wait_judged",
        "C_resend_observed",
    )
    chk.assumptions = [
        "transport errors are the installed httpx2 exception classes; the pre-response disconnect uses httpx2's real message (confirmed by the real-socket leg)",
        "jitter: random.uniform inside vgi_rpc.http._retry replaced by lo / hi / seeded-real settings",
        "network errors other than ConnectError/timeouts (ReadError, WriteError, ProxyError) are not classified by the statement; a retry after them is counted, not judged",
        "the documented one-shot 415/413 fallbacks of unary/init start a new retried request",
    ]
    statuses_quick = [200, 204, 301, 400, 401, 404, 408, 413, 415, 425, 429, 500, 501, 502, 503, 504, 599]
    jobs: list[tuple[str, dict[str, Any]]] = []
    grid = _grid(tier)
    rng = random.Random(seed)
    for gi, cfgd in enumerate(grid):
        if tier == "thorough" and gi < 2:
            cfgd["deep"] = True  # full Retry-After corpus also at the second position
        statuses = list(statuses_quick)
        if tier == "thorough" and gi < 2:
            statuses = list(range(200, 600))
        elif tier == "thorough":
            statuses = sorted(set(statuses_quick + rng.sample(range(200, 600), 12)))
        for entry in ("post", "options") if gi < 2 or tier == "thorough" and gi % 7 == 0 else ("post",):
            roots = _alphabet(cfgd, 0, tier, statuses)  # every status at the root; representatives deeper
            deep_statuses = statuses_quick
            jitter = ["lo", "hi", "real"] if gi < 2 and entry == "post" else ["hi", "real"] if entry == "post" else ["hi"]
            # split the roots over a few shards for the big configs
            nsplit = 4 if cfgd["max_retries"] >= 2 else 1
            for part in shard.split(roots, nsplit):
                jobs.append(("run_seq", {"tier": tier, "seed": seed, "cfg": cfgd, "entry": entry, "roots": part, "jitter": jitter, "statuses": deep_statuses}))
    proxy_cfgs: list[Any] = [None, grid[0], grid[1]]
    if tier == "thorough":
        proxy_cfgs += [
            {"max_retries": 3, "backoff_base": 0.5, "backoff_max": 30.0, "retryable": DEFAULT_RS, "conn": False, "ra": True},
            {"max_retries": 0, "backoff_base": 0.5, "backoff_max": 30.0, "retryable": DEFAULT_RS, "conn": True, "ra": True},
        ]
    for c in proxy_cfgs:
        jobs.append(("run_proxy", {"tier": tier, "seed": seed, "cfgs": [c]}))
    firsts = list(C_PAYLOADS)
    seconds = ["ok"] if tier == "quick" else ["ok", "close_fin_0", "s503", "partial_body"]
    sock_cfgs = [grid[0]] if tier == "quick" else [grid[0], grid[1], {"max_retries": 2, "backoff_base": 0.0, "backoff_max": 0.0, "retryable": DEFAULT_RS, "conn": False, "ra": True}]
    for c in sock_cfgs:
        jobs.append(("run_socket", {"tier": tier, "seed": seed, "cfgs": [c], "firsts": firsts, "seconds": seconds}))

    order = {"run_socket": 0, "run_proxy": 1, "run_seq": 2}  # slow shards first
    flat = [{**j, "fn": fn} for fn, j in sorted(jobs, key=lambda fj: order[fj[0]])]
    for res in shard.pmap("checks.c38", "run_shard", flat, timeout=900 if tier == "quick" else 3000):
        chk.merge(res)
    covered = int(chk.extra.get("A_sequences_covered", 0))
    chk.extra["retry_configs"] = len(grid)
    chk.extra["A_sequences_covered"] = covered
    chk.exhaustive["A:outcome_tree_depth<=max_retries+2_over_alphabet"] = True
    chk.exhaustive["status_codes_200..599"] = tier == "thorough"
    chk.exhaustive["B:proxy_outcome_prefixes<=3"] = True
    chk.exhaustive["jitter_values"] = False
    chk.sample({"alphabet_excs": EXC_RETRYABLE + EXC_FATAL + EXC_AMBIGUOUS, "retry_after_corpus": RETRY_AFTER_FULL})
    return chk.finish()

"""C36 - token introspection endpoint enforces its guards.

The real ``make_wsgi_app(introspect_resolver=..., introspect_principals=...)`` is
driven through the raw WSGI driver with every combination class of caller
identity x request body x resolver behaviour.  A scripted resolver records its
invocations; the oracle is the guard list of the property statement:

* caller outside the allowlist (anonymous, unauthenticated, other / near-miss
  principal, no ``authenticate`` configured)          -> 403
* malformed body / unusable token, unknown subject, JWS-shaped subject
  -> one byte-identical 404 (JWS: resolver never consulted)
* resolver raises AuthUnavailableError                 -> 503 with Retry-After
* identity                                             -> 200, exactly
  {principal, token_name, ttl_seconds}, ttl finite and > 0
* the subject credential never appears in any response byte
* app built without a resolver                         -> definitive 404
"""

from __future__ import annotations

import json
import math
import random
from typing import Any

from lib import shard
from lib.evidence import Check

PID = "C36"
ENGINE = "E2-raw-drivers"
TECHNIQUE = "request-space map: raw WSGI requests over callers x bodies x scripted resolver outcomes, judged against the guard list; resolver invocation log as second observation channel"
LEVEL_TEXT = (
    "Exploration: the real introspection route (and the disabled-route stub) answered every class combination of caller, body (incl. unsecured JWS with an empty signature, RFC 7515) "
    "and resolver outcome once (grid) plus seeded random combinations; status, headers, body bytes and the resolver's "
    "invocation log were compared with the guard list of the property. Held = no counterexample among the requests counted."
)
LEVEL_NOTE = (
    "caller identity is injected by a harness authenticate callback; the size thresholds for 'oversized'/'over-long' are not "
    "numbers in the property, so only clearly-small (must be usable) and clearly-huge (must be refused) sizes are judged; a "
    "resolver that itself embeds the credential in its answer is not generated"
)
CATEGORY = "exploration"
RULE = (
    "case = (app config: prefix, allowlist, authenticate present; caller class; body class; resolver outcome class); grid = every "
    "caller x every body with a fixed outcome + allowlisted caller x usable bodies x every outcome; then seeded random "
    "combinations; distinct class = caller/body/outcome class triple"
)

_B64URL = set("ABCDEFGHIJKLMNOPQRSTUVWXYZabcdefghijklmnopqrstuvwxyz0123456789-_")

# ---------------------------------------------------------------------------
# case space
# ---------------------------------------------------------------------------


def _callers(allow: list[str]) -> list[dict[str, Any]]:
    a = allow[0]
    out: list[dict[str, Any]] = [
        {"cls": "anonymous_no_credentials", "k": "none"},
        {"cls": "allowlisted", "k": "ok", "p": a},
        {"cls": "allowlisted_last", "k": "ok", "p": allow[-1]},
        {"cls": "allowlisted_but_unauthenticated", "k": "unauth", "p": a},
        {"cls": "other_principal", "k": "ok", "p": "mallory"},
        {"cls": "near_miss_suffix", "k": "ok", "p": a + "2"},
        {"cls": "near_miss_prefix", "k": "ok", "p": a[:-1]},
        {"cls": "near_miss_case", "k": "ok", "p": a.swapcase()},
        {"cls": "near_miss_space", "k": "ok", "p": a + " "},
        {"cls": "near_miss_joined", "k": "ok", "p": ",".join(allow) + ","},
        {"cls": "empty_principal", "k": "ok", "p": ""},
        {"cls": "none_principal_authenticated", "k": "nonep"},
        {"cls": "authenticate_raises_value_error", "k": "raise_value"},
        {"cls": "authenticate_raises_permission_error", "k": "raise_perm"},
    ]
    return out


def _jws_class(token: str) -> str:
    """'jws' = JWS compact serialization (RFC 7515 s3.1/7.1): three dot-separated base64url segments, header and payload
    non-empty, signature possibly empty (an Unsecured JWS, alg=none, RFC 7515 A.5 ends in a dot); 'opaque' = not three
    dot-separated segments; else 'ambiguous'."""
    segs = token.split(".")
    if len(segs) != 3:
        return "opaque"
    if all(all(c in _B64URL for c in s) for s in segs) and segs[0] and segs[1]:
        return "jws"
    return "ambiguous"


def _canary(rng: random.Random) -> str:
    return "opq_" + "".join(rng.choice("abcdefghijklmnopqrstuvwxyz0123456789") for _ in range(20))


def _bodies(rng: random.Random) -> list[dict[str, Any]]:
    """Each: cls, raw (bytes), chunked, and the model's view: usable token (str) | None (malformed) | 'either' (size in no-man's land)."""
    c = _canary
    out: list[dict[str, Any]] = []

    def usable(cls: str, token: str, raw: bytes | None = None, **kw: Any) -> None:
        out.append({"cls": cls, "raw": raw if raw is not None else json.dumps({"token": token}).encode(), "token": token, "view": "usable", **kw})

    def malformed(cls: str, raw: bytes, token: str | None = None, **kw: Any) -> None:
        out.append({"cls": cls, "raw": raw, "token": token, "view": "malformed", **kw})

    t = c(rng)
    usable("valid_compact", t, json.dumps({"token": t}, separators=(",", ":")).encode())
    t = c(rng)
    usable("valid_spaced", t, json.dumps({"token": t}, indent=2).encode())
    t = c(rng)
    usable("valid_extra_keys", t, json.dumps({"hint": "x", "token": t, "claims": {"a": 1}}).encode())
    t = c(rng) + "é漢"
    usable("valid_unicode_raw", t, json.dumps({"token": t}, ensure_ascii=False).encode())
    t = c(rng) + "é漢"
    usable("valid_unicode_escaped", t, json.dumps({"token": t}, ensure_ascii=True).encode())
    t = c(rng) + " with space/+=~"
    usable("valid_punctuation", t)
    t = c(rng) + "x" * 1500
    usable("valid_long_1520", t)
    t = c(rng)
    # Transfer-Encoding: chunked without Content-Length: Falcon's bounded_stream yields an empty body unless the
    # WSGI server buffered it (waitress does, gunicorn does not) -> outcome class depends on the front-end: unjudged
    out.append({"cls": "valid_chunked", "raw": json.dumps({"token": t}).encode(), "token": t, "view": "either", "chunked": True})
    t = c(rng)
    usable("valid_no_content_type", t, content_type=None)
    t = c(rng)
    usable("valid_text_plain", t, content_type="text/plain")
    t = c(rng) + "." + c(rng)
    usable("two_segments_not_jws", t)
    t = ".".join(c(rng) for _ in range(4))
    usable("four_segments_not_jws", t)
    t = ".".join(c(rng) for _ in range(5))
    usable("five_segments_jwe_like", t)
    # JWS-shaped (three non-empty base64url segments)
    t = "eyJhbGciOiJSUzI1NiJ9" + c(rng) + ".eyJzdWIiOiJ4In0" + c(rng) + ".sig" + c(rng)
    usable("jws_compact", t)
    t = "a-" + c(rng) + ".b_" + c(rng) + "." + c(rng)
    usable("jws_minimal_alphabet", t)
    t = "eyJ" + c(rng) + ".eyJ" + c(rng) + "." + c(rng)
    usable("jws_escaped_dots", t, json.dumps({"token": t}).replace(".", "\\u002e").encode())
    # ambiguous shapes: empty signature, foreign characters, whitespace
    t = "eyJ" + c(rng) + ".eyJ" + c(rng) + "."
    usable("jws_like_empty_signature", t)
    t = "eyJ" + c(rng) + ".ey+" + c(rng) + ".s/g="
    usable("jws_like_std_base64", t)
    t = "eyJ" + c(rng) + ".eyJ" + c(rng) + ".sig\n"
    usable("jws_like_trailing_newline", t)
    t = " eyJ" + c(rng) + ".eyJ" + c(rng) + ".sig"
    usable("jws_like_leading_space", t)
    # malformed
    malformed("empty_body", b"")
    malformed("not_json", b"token=" + c(rng).encode(), None)
    t = c(rng)
    malformed("truncated_json", json.dumps({"token": t}).encode()[:-2], t)
    t = c(rng)
    malformed("invalid_utf8", b'{"token":"' + t.encode() + b'\xff\xfe"}', t)
    t = c(rng)
    malformed("json_array", json.dumps([{"token": t}]).encode(), t)
    t = c(rng)
    malformed("json_string", json.dumps(t).encode(), t)
    malformed("json_number", b"12345")
    malformed("json_null", b"null")
    malformed("json_true", b"true")
    malformed("missing_token_key", json.dumps({"tok": c(rng)}).encode())
    t = c(rng)
    malformed("token_wrong_case_key", json.dumps({"Token": t}).encode(), t)
    malformed("token_number", b'{"token": 12345678901234567890}')
    malformed("token_null", b'{"token": null}')
    malformed("token_bool", b'{"token": true}')
    malformed("token_nan", b'{"token": NaN}')
    t = c(rng)
    malformed("token_list", json.dumps({"token": [t]}).encode(), t)
    t = c(rng)
    malformed("token_object", json.dumps({"token": {"value": t}}).encode(), t)
    malformed("token_empty_string", b'{"token": ""}')
    t = c(rng)
    malformed("token_lone_surrogate", b'{"token":"\\ud800' + t.encode() + b'"}', t)
    t = c(rng) + "y" * 200_000
    malformed("token_huge_200k", json.dumps({"token": t}).encode(), t)
    t = c(rng)
    malformed("body_huge_1MiB_padding", json.dumps({"pad": "p" * (1 << 20), "token": t}).encode(), t)
    t = c(rng)
    malformed("body_huge_chunked", json.dumps({"pad": "p" * 300_000, "token": t}).encode(), t, chunked=True)
    malformed("deep_nesting", b"[" * 100_000)
    # sizes between "clearly small" and "clearly huge": outcome class not fixed by the statement
    t = c(rng) + "z" * 4076
    out.append({"cls": "token_4096_chars", "raw": json.dumps({"token": t}).encode(), "token": t, "view": "either"})
    t = c(rng) + "z" * 4077
    out.append({"cls": "token_4097_chars", "raw": json.dumps({"token": t}).encode(), "token": t, "view": "either"})
    for size in (8192, 8193):
        t = c(rng)
        base = len(json.dumps({"token": t, "pad": ""}).encode())
        raw = json.dumps({"token": t, "pad": "p" * (size - base)}).encode()
        assert len(raw) == size
        out.append({"cls": f"body_{size}_bytes", "raw": raw, "token": t, "view": "either"})
    return out


_TTL_VALUES: list[tuple[str, Any]] = [
    ("one", 1),
    ("default_300", 300),
    ("fraction", 0.5),
    ("large_float", 1e308),
    ("large_int", 10**30),
    ("tiny_float", 5e-324),
    ("zero", 0),
    ("zero_float", 0.0),
    ("neg_zero", -0.0),
    ("negative", -5),
    ("negative_float", -0.001),
    ("nan", float("nan")),
    ("inf", float("inf")),
    ("inf_1e400", float("1e400")),
    ("neg_inf", float("-inf")),
    ("str_5", "5"),
    ("none", None),
    ("bool_true", True),
    ("list", [300]),
]


def _ttl_class(v: Any) -> str:
    if isinstance(v, bool):
        return "non_number"
    if isinstance(v, int):
        return "ok" if v > 0 else ("zero" if v == 0 else "negative")
    if isinstance(v, float):
        if math.isnan(v):
            return "nan"
        if math.isinf(v):
            return "inf" if v > 0 else "neg_inf"
        return "ok" if v > 0 else ("zero" if v == 0 else "negative")
    return "non_number"


def _outcomes() -> list[dict[str, Any]]:
    out: list[dict[str, Any]] = []
    for name, v in _TTL_VALUES:
        out.append({"cls": f"identity_ttl_{name}", "k": "identity", "ttl": name})
    out.append({"cls": "identity_odd_strings", "k": "identity", "ttl": "default_300", "principal": 'svc:"quo\\te"/é漢', "token_name": ""})
    out.append({"cls": "identity_default_fields", "k": "identity_defaults"})
    out.append({"cls": "unknown_none", "k": "none"})
    for ra in (1, 5, 0, 120):
        out.append({"cls": f"unavailable_retry_{ra}", "k": "unavailable", "retry_after": ra})
    out.append({"cls": "unavailable_default", "k": "unavailable_default"})
    for exc in ("RuntimeError", "ValueError", "PermissionError", "KeyError", "TimeoutError", "LookupError"):
        out.append({"cls": f"raises_{exc}", "k": "raise", "exc": exc})
    return out


# ---------------------------------------------------------------------------
# app under test
# ---------------------------------------------------------------------------


def _build(cfg: dict[str, Any]) -> tuple[Any, dict[str, Any], list[str]]:
    import warnings
    from typing import Protocol

    from vgi_rpc.http import make_wsgi_app
    from vgi_rpc.http._unauthorized import AuthUnavailableError
    from vgi_rpc.http.server._introspect import TokenIdentity
    from vgi_rpc.rpc import AuthContext, CallContext, RpcServer

    class PingProto(Protocol):
        def ping(self) -> str: ...

    class PingImpl:
        def ping(self, ctx: CallContext) -> str:
            return "pong"

    plan: dict[str, Any] = {}
    calls: list[str] = []
    ttl_by_name = dict(_TTL_VALUES)

    def resolver(token: str) -> Any:
        calls.append(token)
        o = plan["outcome"]
        k = o["k"]
        if k == "identity":
            return TokenIdentity(o.get("principal", "alice@example"), o.get("token_name", "laptop-cli"), ttl_by_name[o["ttl"]])
        if k == "identity_defaults":
            return TokenIdentity("bob")
        if k == "none":
            return None
        if k == "unavailable":
            raise AuthUnavailableError("token store unreachable", retry_after=o["retry_after"])
        if k == "unavailable_default":
            raise AuthUnavailableError()
        if k == "raise":
            raise {"RuntimeError": RuntimeError, "ValueError": ValueError, "PermissionError": PermissionError, "KeyError": KeyError, "TimeoutError": TimeoutError, "LookupError": LookupError}[o["exc"]]("resolver backend failure")
        raise AssertionError(k)

    def authenticate(req: Any) -> Any:
        raw = req.get_header("X-Verif-Caller")
        if raw is None:
            return AuthContext.anonymous()
        c = json.loads(raw)
        if c["k"] == "ok":
            return AuthContext(domain="harness", authenticated=True, principal=c["p"])
        if c["k"] == "unauth":
            return AuthContext(domain="harness", authenticated=False, principal=c["p"])
        if c["k"] == "nonep":
            return AuthContext(domain="harness", authenticated=True, principal=None)
        if c["k"] == "raise_value":
            raise ValueError("bad credential")
        if c["k"] == "raise_perm":
            raise PermissionError("forbidden")
        raise AssertionError(c)

    kwargs: dict[str, Any] = {"prefix": cfg["prefix"], "token_key": b"\x09" * 32}
    if cfg["auth"]:
        kwargs["authenticate"] = authenticate
    if cfg["enabled"]:
        kwargs.update(introspect_resolver=resolver, introspect_principals=cfg["allow"], introspect_rate_limit=10**9)
    with warnings.catch_warnings():
        warnings.simplefilter("ignore")
        app = make_wsgi_app(RpcServer(PingProto, PingImpl()), **kwargs)
    return app, plan, calls


def _norm(resp: Any) -> tuple[int, tuple[tuple[str, str], ...], bytes]:
    return (resp.status, tuple(sorted((k.lower(), v) for k, v in resp.headers if k.lower() != "x-request-id")), resp.body)


def _strict_json(body: bytes) -> Any:
    def _bad(name: str) -> Any:
        raise ValueError(f"non-JSON constant {name}")

    return json.loads(body.decode("utf-8"), parse_constant=_bad)


class _Runner:
    def __init__(self, chk: Check, cfg: dict[str, Any], config_index: int = -1) -> None:
        self.chk = chk
        self.cfg = cfg
        self.config_index = config_index
        self.app, self.plan, self.calls = _build(cfg)
        self.ref404: tuple[Any, str] | None = None
        self.path = cfg["prefix"] + "/__introspect_token__"

    def run(self, caller: dict[str, Any], body: dict[str, Any], outcome: dict[str, Any]) -> None:
        from lib import httpdrv

        chk, cfg = self.chk, self.cfg
        self.plan["outcome"] = outcome
        del self.calls[:]
        hdrs: list[tuple[str, str]] = []
        ct = body.get("content_type", "application/json")
        if ct is not None:
            hdrs.append(("Content-Type", ct))
        if caller["k"] != "none":
            hdrs.append(("X-Verif-Caller", json.dumps({k: v for k, v in caller.items() if k != "cls"})))
        resp = httpdrv.call(self.app, "POST", self.path, hdrs, body["raw"], chunked=bool(body.get("chunked")))
        ncalls = len(self.calls)
        called_with = list(self.calls)
        token = body.get("token")
        cls = f"{'enabled' if cfg['enabled'] else 'disabled'}/{'auth' if cfg['auth'] else 'noauth'}|{caller['cls']}|{body['cls']}|{outcome['cls']}"
        wit = {
            "config_index": self.config_index,
            "config": {k: cfg[k] for k in ("prefix", "allow", "auth", "enabled")},
            "caller": caller,
            "body_class": body["cls"],
            "body_prefix": body["raw"][:120],
            "body_len": len(body["raw"]),
            "outcome": outcome,
            "status": resp.status,
            "resp_headers": [h for h in resp.headers if h[0].lower() in ("retry-after", "content-type", "cache-control")],
            "resp_body": resp.body[:200],
            "resolver_calls": ncalls,
            "exc": repr(resp.exc)[:200] if resp.exc else None,
        }

        # -- credential canary: every response, whatever the class -------------------
        if token and len(token) >= 20:
            chk.hit("canary_scanned")
            probe = token[:24].encode("utf-8", "replace")
            hay = resp.body + b"\n" + "\n".join(f"{k}: {v}" for k, v in resp.headers).encode("latin-1", "replace")
            if probe in hay or json.dumps(token[:24])[1:-1].encode() in hay:
                chk.case(cls)
                chk.violation(
                    f"credential_in_response:{resp.status}",
                    "the subject credential appears in the response",
                    wit,
                )

        # -- disabled app -----------------------------------------------------------
        if not cfg["enabled"]:
            chk.case(cls)
            raises = caller["k"] in ("raise_value", "raise_perm") and cfg["auth"]
            if raises and resp.status == 401:
                chk.skip("disabled_route_behind_rejecting_authenticate_answered_401")
                return
            chk.hit("disabled_404")
            if resp.status != 404:
                chk.violation(f"disabled_not_404:{resp.status}", "a worker without introspection did not answer 404", wit)
                return
            n = _norm(resp)
            if self.ref404 is None:
                self.ref404 = (n, cls)
            elif self.ref404[0] != n:
                chk.violation("disabled_404_depends_on_request", "the disabled route's 404 differs between requests", {**wit, "first_class": self.ref404[1]})
            return

        # -- caller axis ---------------------------------------------------------------
        effective_anon = not cfg["auth"]
        allowlisted = (not effective_anon) and caller["k"] == "ok" and caller["p"] in cfg["allow"]
        if not allowlisted:
            chk.case(cls)
            if (not effective_anon) and caller["k"] in ("raise_value", "raise_perm"):
                # refused by the authentication layer before the route; the statement's 403 is about the route's own guard
                chk.hit("refused_before_route")
                if resp.status not in (401, 403):
                    chk.violation(f"unauthenticated_not_refused:{resp.status}", "a caller whose authentication failed was not refused with 401/403", wit)
                elif ncalls:
                    chk.violation("resolver_consulted_for_unauthenticated_caller", "resolver ran for a caller whose authentication failed", wit)
                return
            chk.hit("403_expected")
            if resp.status != 403:
                chk.violation(f"non_allowlisted_not_403:{caller['cls']}", "a caller outside the allowlist was not answered 403", wit)
            return

        # -- subject axis --------------------------------------------------------------
        view = body["view"]
        jws = _jws_class(token) if (view != "malformed" and isinstance(token, str)) else None
        if view == "malformed" or jws == "jws":
            kind = "malformed" if view == "malformed" else "jws"
            chk.case(cls)
            chk.hit(f"404_expected_{kind}")
            if resp.status != 404:
                chk.violation(f"{kind}_subject_not_404:{body['cls'] if kind == 'malformed' else 'jws'}:{resp.status}", f"{kind} subject was not answered with the uniform 404", wit)
                return
            self._same_404(resp, kind, cls, wit)
            if kind == "jws":
                chk.hit("jws_resolver_log_checked")
                if ncalls:
                    chk.violation("jws_subject_reached_resolver", "a JWS-shaped subject was handed to the resolver", wit)
            return
        if view == "either" or jws == "ambiguous":
            # Either refused as malformed/JWS (404, resolver untouched) or treated as an opaque token.
            if resp.status == 404 and ncalls == 0:
                chk.skip("size_or_shape_not_fixed_by_statement:refused")
                self._same_404(resp, "either", cls, wit)
                return
            chk.skip("size_or_shape_not_fixed_by_statement:resolved")
        # opaque, usable token: the resolver decides
        chk.case(cls)
        chk.hit("resolver_log_checked")
        if called_with != [token]:
            chk.violation(
                "resolver_not_called_exactly_once_with_subject",
                "for a usable opaque subject the resolver must be consulted once with exactly the posted credential",
                {**wit, "called_with": [c[:60] for c in called_with]},
            )
            return
        k = outcome["k"]
        if k == "none":
            chk.hit("404_expected_unknown")
            if resp.status != 404:
                chk.violation(f"unknown_subject_not_404:{resp.status}", "unknown subject was not answered with the uniform 404", wit)
                return
            self._same_404(resp, "unknown", cls, wit)
            return
        if k in ("unavailable", "unavailable_default"):
            chk.hit("503_expected")
            ra = resp.header("retry-after")
            if resp.status != 503:
                chk.violation(f"unavailable_not_503:{resp.status}", "resolver unavailability was not answered 503", wit)
            elif not ra or not ra.strip():
                chk.violation("unavailable_without_retry_after", "503 without Retry-After", wit)
            return
        if k == "raise":
            chk.hit("other_exception_expected_5xx")
            if 200 <= resp.status < 300 or resp.status == 404:
                chk.violation(f"resolver_crash_answered_definitively:{resp.status}", "an unexpected resolver exception was answered 2xx/404 (definitive) instead of a server error", wit)
            return
        # identity
        from vgi_rpc.http.server._introspect import TokenIdentity

        ident = TokenIdentity("bob") if k == "identity_defaults" else None
        ttl = dict(_TTL_VALUES)[outcome["ttl"]] if k == "identity" else ident.ttl_seconds  # type: ignore[union-attr]
        principal = outcome.get("principal", "alice@example") if k == "identity" else "bob"
        token_name = outcome.get("token_name", "laptop-cli") if k == "identity" else ident.token_name  # type: ignore[union-attr]
        tcls = _ttl_class(ttl)
        chk.hit("identity_response_checked")
        if resp.status != 200:
            if tcls == "ok":
                chk.violation(f"identity_not_200:{resp.status}", "a well-formed identity was not answered 200", wit)
            else:
                chk.hit("invalid_ttl_refused")
            return
        chk.hit("200_seen")
        try:
            doc = _strict_json(resp.body)
        except Exception as exc:  # noqa: BLE001
            chk.violation(
                f"ttl_not_finite_positive:{tcls}" if tcls != "ok" else "success_body_not_json",
                f"success body is not strict JSON ({exc})",
                wit,
            )
            return
        if not isinstance(doc, dict) or set(doc) != {"principal", "token_name", "ttl_seconds"}:
            chk.violation("success_body_wrong_keys", "success body must be exactly {principal, token_name, ttl_seconds}", wit)
            return
        got = doc["ttl_seconds"]
        if _ttl_class(got) != "ok":
            chk.violation(f"ttl_not_finite_positive:{tcls}", "200 response carries a ttl_seconds that is not a finite positive number", wit)
            return
        if doc["principal"] != principal or doc["token_name"] != token_name:
            chk.violation("success_body_wrong_identity", "principal/token_name differ from the resolver's answer", {**wit, "want": [principal, token_name]})
            return
        if tcls == "ok" and got != ttl:
            chk.violation("success_body_wrong_ttl", "ttl_seconds differs from the resolver's (valid) answer", {**wit, "want_ttl": repr(ttl)})

    def _same_404(self, resp: Any, kind: str, cls: str, wit: dict[str, Any]) -> None:
        n = _norm(resp)
        if self.ref404 is None:
            self.ref404 = (n, kind)
            return
        self.chk.hit("404_identity_compared")
        if self.ref404[0] != n:
            what = "body" if self.ref404[0][2] != n[2] else "headers"
            self.chk.violation(
                f"nonuniform_404:{what}:{'_vs_'.join(sorted({self.ref404[1], kind}))}",
                "two 404 answers (malformed / unknown / JWS) are not byte-identical",
                {**wit, "first_kind": self.ref404[1], "first": [self.ref404[0][2][:200], self.ref404[0][1]], "second_headers": n[1]},
            )


# ---------------------------------------------------------------------------
# shards
# ---------------------------------------------------------------------------

_CONFIGS = [
    {"prefix": "", "allow": ["edge-proxy"], "auth": True, "enabled": True},
    {"prefix": "/vgi", "allow": ["proxy-a", "svc:proxy/b", "Proxy-C"], "auth": True, "enabled": True},
    {"prefix": "/a/b", "allow": ["p"], "auth": False, "enabled": True},
    {"prefix": "", "allow": [], "auth": True, "enabled": False},
    {"prefix": "/vgi", "allow": [], "auth": False, "enabled": False},
]


def run_shard(job: dict[str, Any]) -> dict[str, Any]:
    chk = Check(PID, job["tier"], job["seed"])
    rng = random.Random(job["seed"])
    cfg = _CONFIGS[job["config"]]
    runner = _Runner(chk, cfg, job["config"])
    allow = cfg["allow"] or ["edge-proxy"]
    callers = _callers(allow)
    outcomes = _outcomes()
    ok_identity = next(o for o in outcomes if o["cls"] == "identity_ttl_default_300")
    n = 0
    if job["mode"] == "grid":
        bodies = _bodies(rng)
        # every caller x every body, resolver would answer a valid identity
        for caller in callers:
            for body in bodies:
                runner.run(caller, body, ok_identity)
                n += 1
        # allowlisted caller x every body x every outcome
        good = [c for c in callers if c["cls"].startswith("allowlisted") and c["k"] == "ok"]
        for body in _bodies(rng):
            for outcome in outcomes:
                runner.run(good[n % len(good)], body, outcome)
                n += 1
        chk.sample({"config": cfg, "callers": [c["cls"] for c in callers], "bodies": [b["cls"] for b in bodies], "outcomes": [o["cls"] for o in outcomes]})
    else:
        for _ in range(job["count"]):
            bodies = _bodies(rng)
            caller = rng.choice(callers) if rng.random() < 0.4 else rng.choice([c for c in callers if c["cls"].startswith("allowlisted") and c["k"] == "ok"])
            for _ in range(8):
                runner.run(caller, rng.choice(bodies), rng.choice(outcomes))
                n += 1
    chk.extra["requests"] = n
    return chk.to_result()


def main(tier: str, seed: int) -> int:
    chk = Check(PID, tier, seed, level=CATEGORY, rule=RULE)
    chk.require(
        "403_expected",
        "refused_before_route",
        "404_expected_malformed",
        "404_expected_unknown",
        "404_expected_jws",
        "404_identity_compared",
        "jws_resolver_log_checked",
        "resolver_log_checked",
        "503_expected",
        "other_exception_expected_5xx",
        "identity_response_checked",
        "200_seen",
        "canary_scanned",
        "disabled_404",
    )
    chk.assumptions = [
        "caller identity comes from a harness authenticate callback keyed by a request header",
        "x-request-id is excluded from byte-identity comparisons (per-request correlation id)",
        "size limits are not numbers in the property: token <= ~1.5k chars / body < 4 KiB must be usable, token 200k chars / body >= 300 KB must be refused, sizes in between are unjudged",
        "JWS-shaped = RFC 7515 compact serialization: three base64url segments, header and payload non-empty, signature possibly empty (unsecured JWS); other three-segment tokens (empty header/payload, foreign characters) are unjudged as to resolver consultation",
        "rate limit configured at 1e9/s so 429 never interferes",
    ]
    jobs: list[dict[str, Any]] = []
    for ci in range(len(_CONFIGS)):
        jobs.append({"tier": tier, "seed": seed * 7919 + ci, "config": ci, "mode": "grid"})
    nrand = 6 if tier == "quick" else 48
    per = 40 if tier == "quick" else 300
    for i in range(nrand):
        jobs.append({"tier": tier, "seed": seed * 7919 + 100 + i, "config": i % len(_CONFIGS), "mode": "random", "count": per})
    for res in shard.pmap("checks.c36", "run_shard", jobs, timeout=300 if tier == "quick" else 1500):
        chk.merge(res)
    chk.exhaustive["class_grid_callers_x_bodies_and_bodies_x_outcomes"] = True
    chk.exhaustive["random_combinations"] = False
    return chk.finish()


def replay(path: str) -> int:
    """Re-run the single (config, caller, body class, resolver outcome) case of a replay file's first witness."""
    with open(path) as fh:
        rp = json.load(fh)
    wit = rp["witnesses"][0]
    chk = Check(PID, rp["tier"], rp["seed"], level=CATEGORY, rule=RULE)
    ci = wit.get("config_index", -1)
    if not (0 <= ci < len(_CONFIGS)):
        chk.inconclusive_because("replay file names no configuration")
        return chk.finish()
    runner = _Runner(chk, _CONFIGS[ci], ci)
    body = next((b for b in _bodies(random.Random(0)) if b["cls"] == wit["body_class"]), None)
    if body is None:
        chk.inconclusive_because(f"unknown body class {wit['body_class']!r}")
        return chk.finish()
    runner.run(wit["caller"], body, wit["outcome"])
    if rp["key"] not in chk.violations:
        chk.violations.clear()
        chk.inconclusive_because(f"replay did not reproduce {rp['key']}")
    return chk.finish()

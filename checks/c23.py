"""C23 - proof nonces cannot be replayed within the window (scheduled interleavings).

Real ``NonceCache.check_and_add`` calls from 2-3 actor threads are interleaved by
the deterministic scheduler (lib/sched.py): yield points at every function entry
and every line of ``_replay.py`` and at every (shim) lock operation; the cache's
clock is the scheduler's virtual clock, advanced by a dedicated actor.  Every
call is recorded at the caller boundary {actor, nonce, clock at call, result,
clock at return} and judged offline against a TTL+capacity set model, per nonce
(unique values partition the history).
"""

from __future__ import annotations

import random
from typing import Any

from lib import shard
from lib.evidence import Check

PID = "C23"
ENGINE = "E3-scheduler"
TECHNIQUE = "deterministic scheduler (bounded-preemption DFS + PCT) over real threads; offline per-nonce history check"
LEVEL_TEXT = (
    "Exploration of schedules: every schedule up to the stated preemption bound over function-entry, line and lock "
    "yield points for small actor scripts (exhaustive per script unless 'truncated'), plus PCT-sampled deeper "
    "schedules. Held = no history among the explored interleavings shows a double accept inside a window or an oversize cache."
)
LEVEL_NOTE = (
    "threading.Lock in _replay.py is replaced by a scheduler-aware lock with the same semantics; clock injected through "
    "the documented clock= parameter; the GIL-level atomicity of OrderedDict operations is trusted"
)
RULE = (
    "case = (actor scripts, capacity, ttl, schedule); distinct class = (script shape, capacity, #actors, schedule decision "
    "list); non-trivial = schedule with >= 1 context switch between overlapping check_and_add calls"
)


def _history_violations(hist: list[dict[str, Any]], capacity: int, ttl: float) -> list[tuple[str, str, Any]]:
    """Offline oracle over one execution's boundary history."""
    out: list[tuple[str, str, Any]] = []
    acc: dict[str, list[dict[str, Any]]] = {}
    for op in hist:
        if op["result"] is True:
            acc.setdefault(op["nonce"], []).append(op)
    for nonce, ops in acc.items():
        for i in range(len(ops)):
            for j in range(i + 1, len(ops)):
                x, y = ops[i], ops[j]
                # Two accepts of one nonce are legal if SOME linearisation consistent with real time
                # puts >= ttl of clock between them: p takes effect no earlier than its call, q no later
                # than its return; q may not precede p if p returned before q was invoked.
                legal = False
                for p_, q_ in ((x, y), (y, x)):
                    if q_["seq_ret"] < p_["seq_call"]:
                        continue  # q finished before p began: this order is impossible
                    if q_["clock_ret"] - p_["clock_call"] >= ttl:
                        legal = True
                if legal:
                    continue
                lo = min(x["seq_call"], y["seq_call"])
                hi = max(x["seq_ret"], y["seq_ret"])
                others = {o["nonce"] for o in hist if o["nonce"] != nonce and o["seq_ret"] > lo and o["seq_call"] < hi}
                if len(others) + 1 >= capacity:
                    continue  # eviction by capacity may explain it (weaker reading of the statement)
                overlap = x["seq_call"] < y["seq_ret"] and y["seq_call"] < x["seq_ret"]
                out.append(
                    (
                        "double_accept:" + ("concurrent" if overlap else "sequential"),
                        "the same nonce was accepted twice inside its window with fewer than capacity distinct nonces",
                        {"nonce": nonce, "first": x, "second": y, "others": sorted(others)},
                    )
                )
    return out


def _gen_script(rng: random.Random, nactors: int) -> dict[str, Any]:
    """Two script families: few multi-op actors, or many single-op actors.

    With single-op actors (clients submitting one nonce each, clock actors making one step each) a
    whole actor can run between two steps of another one at the cost of a single preemption, so
    orderings such as "A reads the clock, the clock advances, B is accepted, A inserts, the clock
    advances, B is replayed" are inside a small preemption bound.
    """
    if rng.random() < 0.5:
        alphabet = ["n0", "n1", "n2"][: rng.choice([1, 2, 2, 3])]
        cap = rng.choice([1, 2, 2, 3, 4])
        ttl = rng.choice([5.0, 5.0, 10.0])
        actors = [[rng.choice(alphabet) for _ in range(rng.choice([1, 2, 2, 3]))] for _ in range(nactors)]
        clocks = [[rng.choice([1.0, 4.0, 5.0, 6.0, 11.0]) for _ in range(rng.choice([0, 1, 1, 2]))]]
        clocks = [c for c in clocks if c]
    else:
        alphabet = ["n0", "n1"]
        cap = rng.choice([3, 4, 4])
        ttl = 10.0
        actors = [[rng.choice(alphabet)] for _ in range(rng.choice([3, 3, 4]))]
        clocks = [[rng.choice([4.0, 5.0, 6.0, 9.0])] for _ in range(rng.choice([1, 2, 2]))]
    return {"alphabet": alphabet, "capacity": cap, "ttl": ttl, "actors": actors, "clock": clocks}


def _make_runner(script: dict[str, Any], mode: str, outcomes: list[Any]):
    import time as real_time

    import vgi_rpc.http._replay as rp
    from lib import sched as S

    ref: list[Any] = [None]
    if not isinstance(getattr(rp, "threading", None), type(real_time)) or getattr(rp.threading, "__name__", "") != "threading_shim":
        rp.threading = S.shim_threading(ref)  # type: ignore[attr-defined]
    else:
        rp.threading = S.shim_threading(ref)  # type: ignore[attr-defined]

    def make_run(strategy: Any) -> Any:
        s = S.Scheduler(strategy, max_steps=4000, watchdog_s=20.0)
        ref[0] = s
        cache = rp.NonceCache(ttl_seconds=script["ttl"], capacity=script["capacity"], clock=lambda: s.now)
        hist: list[dict[str, Any]] = []
        seq = [0]
        sizes: list[int] = []

        def client(nonces: list[str]) -> Any:
            def run() -> None:
                for n in nonces:
                    op: dict[str, Any] = {"actor": s.me().name, "nonce": n, "clock_call": s.now, "seq_call": seq[0], "result": None}
                    seq[0] += 1
                    hist.append(op)
                    s.point("client.call")
                    res = cache.check_and_add(n)
                    op["result"] = res
                    op["clock_ret"] = s.now
                    op["seq_ret"] = seq[0]
                    seq[0] += 1
                    s.point("client.ret")
                    sizes.append(len(cache._entries))

            return run

        for i, nonces in enumerate(script["actors"]):
            s.actor(f"c{i}", client(nonces))
        clocks = script["clock"]
        if clocks and not isinstance(clocks[0], list):
            clocks = [clocks]  # older witness format: one clock actor

        def clock_actor(steps: list[float]) -> Any:
            def run() -> None:
                for dt in steps:
                    s.point("clock.before")
                    s.now += dt
                    s.point("clock.after")

            return run

        for k, steps in enumerate(clocks):
            s.actor(f"clock{k}", clock_actor(steps))
        s.monitor_files(("vgi_rpc/http/_replay.py",), line=(mode == "line"))
        try:
            s.run()
        finally:
            S.Scheduler.unmonitor()
        for op in hist:
            op.setdefault("clock_ret", s.now)
            op.setdefault("seq_ret", 10**9)
        outcomes.append((s, hist, sizes, len(cache._entries)))
        return s

    return make_run


def run_shard(job: dict[str, Any]) -> dict[str, Any]:
    from lib import sched as S

    chk = Check(PID, job["tier"], job["seed"])
    rng = random.Random(job["seed"])
    total_sched = 0
    for si in range(job["scripts"]):
        nact = rng.choice([2, 2, 3])
        script = _gen_script(rng, nact)
        shape = f"a{len(script['actors'])}:cap{script['capacity']}:alpha{len(script['alphabet'])}:clk{'+'.join(str(len(c)) for c in script['clock'])}:" + "-".join(
            str(len(a)) for a in script["actors"]
        )
        outcomes: list[Any] = []

        mode_box = ["coarse"]

        def judge(s: Any, script: dict[str, Any] = script, shape: str = shape, outcomes: list[Any] = outcomes) -> None:
            _s, hist, sizes, final_size = outcomes[-1]
            script = {**script, "mode": mode_box[0]}
            chk.case(f"{shape}|{len(s.decisions)}:{hash(tuple(s.decisions)) & 0xFFFFFF:x}")
            if s.deadlock:
                chk.violation("deadlock", "scheduler found no runnable actor (lock never released)", {"script": script, "decisions": s.decisions})
                return
            if s.step_limit_hit or s.watchdog_fired:
                chk.inconclusive_because("schedule hit the step limit / watchdog")
                return
            for a in s.actors:
                if a.exc is not None:
                    chk.violation(
                        f"actor_exception:{type(a.exc).__name__}",
                        f"check_and_add raised {type(a.exc).__name__}: {a.exc}",
                        {"script": script, "decisions": s.decisions},
                    )
            chk.hit("ops_recorded", len(hist))
            if s.preemptions > 0:
                chk.hit("preempted_schedules")
            if any(x > script["capacity"] for x in [*sizes, final_size]):
                chk.violation(
                    "cache_exceeds_capacity",
                    "len(cache) > capacity at a quiescent point",
                    {"script": script, "sizes": sizes, "decisions": s.decisions},
                )
            chk.hit("size_checked", len(sizes) + 1)
            for key, what, wit in _history_violations(hist, script["capacity"], script["ttl"]):
                chk.violation(key, what, {"script": script, "decisions": s.decisions, **wit})
            if any(op["result"] is False for op in hist):
                chk.hit("replay_rejected")
            if si == 0 and len(chk.samples) < 3:
                chk.sample({"script": script, "decisions": s.decisions[:60], "history": hist[:8]})

        # primary: bounded-preemption DFS over coarse points (function entry + lock ops + client hooks)
        mk = _make_runner(script, "coarse", outcomes)
        st = S.explore_dfs(mk, bound=job["bound"], max_schedules=job["max_dfs"], on_done=judge)
        total_sched += st["schedules"]
        chk.extra["dfs_schedules"] = chk.extra.get("dfs_schedules", 0) + st["distinct"]
        if st["truncated"]:
            chk.extra["dfs_truncated_scripts"] = chk.extra.get("dfs_truncated_scripts", 0) + 1
        # complement: PCT over line-granular points
        mode_box[0] = "line"
        mk2 = _make_runner(script, "line", outcomes)
        nact_total = len(script["actors"]) + len(script["clock"])
        strategies = [S.PCTStrategy(random.Random(rng.random()), nact_total, depth=3, horizon=120) for _ in range(job["pct"])]
        st2 = S.explore_sampled(mk2, strategies, on_done=judge)
        chk.extra["pct_schedules"] = chk.extra.get("pct_schedules", 0) + st2["schedules"]
        total_sched += st2["schedules"]
    return chk.to_result()


def main(tier: str, seed: int) -> int:
    chk = Check(PID, tier, seed, rule=RULE)
    chk.require("ops_recorded", "preempted_schedules", "size_checked", "replay_rejected")
    chk.assumptions = [
        "shim Lock has threading.Lock semantics (non-reentrant mutual exclusion)",
        "history judged with interval semantics: an operation may take effect at any clock value between call and return",
        "replay judged only when (#other distinct nonces in the window)+1 < capacity (the weaker reading of the statement)",
    ]
    n = 12  # fixed shard count: the amount of work must not grow with the machine
    quick = tier == "quick"
    jobs = [
        {"tier": tier, "seed": seed * 100 + i, "scripts": 3 if quick else 6, "bound": 2 if quick else 3, "max_dfs": 400 if quick else 2500, "pct": 40 if quick else 400}
        for i in range(n)
    ]
    for res in shard.pmap("checks.c23", "run_shard", jobs, timeout=300 if quick else 1700):
        chk.merge(res)
    chk.exhaustive["dfs_per_script_up_to_bound"] = chk.extra.get("dfs_truncated_scripts", 0) == 0
    return chk.finish()


def replay(path: str) -> int:
    """Re-execute the recorded (script, decisions) witnesses; exit 1 if the violation reproduces."""
    import json

    from lib import sched as S

    with open(path) as fh:
        rec = json.load(fh)
    fired = 0
    for w in rec["witnesses"]:
        script = w["script"]
        outcomes: list[Any] = []
        mk = _make_runner(script, script.get("mode", "coarse"), outcomes)
        try:
            s = mk(S.FixedStrategy(list(w["decisions"]), strict=True))
        except S.ReplayDiverged as exc:
            print(f"replay diverged: {exc}")
            continue
        if s.diverged:
            print(f"replay diverged: {s.diverged}")
            continue
        _s, hist, sizes, final_size = outcomes[-1]
        bad = _history_violations(hist, script["capacity"], script["ttl"])
        if bad or any(x > script["capacity"] for x in [*sizes, final_size]) or any(a.exc for a in s.actors) or s.deadlock:
            fired += 1
            print(f"replayed violation: {[b[0] for b in bad] or 'size/exception/deadlock'}")
    if fired:
        print(f"VIOLATION property={PID} replay={path}")
        return 1
    print("replay did not reproduce (inconclusive)")
    return 2

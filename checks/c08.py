"""C08 - client log messages are delivered once, in order, robustly.

Part (a)  emission vs delivery.  Generated services (lib/svcgen) emit scripted client logs
(levels, texts, extras with awkward keys/values) at every site - unary, stream init (before the
header), every producer / exchange step, finishing steps, steps that then raise - and the real
client runs the calls over pipe, HTTP and HTTP with a small ``max_response_bytes`` (continuations).
Every emitted log carries a sequence number, so the oracle can say exactly which message was
lost, duplicated, reordered, altered or delivered after the batch/result it precedes.

Part (b)  hostile peer.  A hand-written *server* answers the real client: raw Arrow IPC written
into a pipe pair, and canned HTTP bodies returned by a stub client object given to
``http_connect(client=...)``.  Responses contain log batches whose ``vgi_rpc.log_extra`` /
``log_level`` / ``log_message`` / ids are arbitrary (arrays, strings, numbers, null, nested
objects, keys ``level`` / ``message`` / ``self``, invalid UTF-8, pathological JSON, unknown
levels).  The call must still complete with its result; the message may be delivered or ignored.
"""

from __future__ import annotations

import random
import re
from typing import Any

from lib import shard
from lib.evidence import Check

PID = "C08"
ENGINE = "E1-svcgen-rig+E2-raw-drivers"
TECHNIQUE = "sequence-numbered scripted logs compared with on_log deliveries; hand-written hostile server (raw IPC over a pipe, canned HTTP bodies)"
LEVEL_TEXT = (
    "Exploration: scripted log sequences at every emission site were run over pipe, HTTP and capped HTTP and compared "
    "message by message with the on_log deliveries (count, order, level, text, extras, position relative to returned "
    "data); a hand-written peer sent log batches with arbitrary metadata in every response position of unary, producer "
    "and exchange calls over a pipe and over HTTP.  Scripts include steps that log after their data emit and then fail, and exchange inputs refused by the server after a logged turn. Held means no discrepancy / no failed call on the executions counted."
)
LEVEL_NOTE = "a log is identified by a sequence number placed in its text or in an extra; pyarrow IPC framing trusted"
CATEGORY = "exploration"
RULE = (
    "(a) case = (method kind, site of each log, action after it, transport); class = (kind, site, following action, transport, "
    "extra-key class).  (b) case = (hostile variant(s), response position, transport); class = (variant, position, transport)"
)

LEVELS = ["ERROR", "WARN", "INFO", "DEBUG", "TRACE"]
TEXTS = {
    "plain": "hello",
    "empty": "",
    "multiline": "multi\nline\r\n",
    "unicode": "\u00fc\u00f1\u00ef \U0001f600",
    "long": "x" * 300,
    "huge": "y" * 20000,
    "braces": "{} {0} %s %d",
    "nul": "nul\x00in",
    "jsonish": '{"level": "ERROR"}',
}
EXTRA_KEYS = {
    "plain": ["k", "detail", "a.b", "n1"],
    "odd": ["\u00fcn\u00ef", "", "a b", "__class__", "_"],
    "wire_names": ["exception_type", "traceback", "error_kind", "vgi_rpc.log_level", "extra", "kwargs", "msg", "args"],
    "framework_ids": ["server_id", "request_id"],
}
EXTRA_VALUES = ["v", "", "1", "\u00fc", "{}", "x" * 50, "nul\x00v", "multi\nline", '"quoted"']
TRANSPORTS_A = ["pipe", "http", "http_cap"]
_SEQ_RE = re.compile(r"#(\d+)\Z")


# ---------------------------------------------------------------------------
# (a) generation
# ---------------------------------------------------------------------------


class SeqGen:
    def __init__(self, rng: random.Random) -> None:
        self.rng = rng
        self.seq = 0
        self.meta: dict[int, dict[str, Any]] = {}

    def logs(self, site: str, maxn: int = 3) -> list[tuple[str, str, dict[str, str]]]:
        rng = self.rng
        out = []
        for _ in range(rng.choice([0, 1, 1, 2, maxn])):
            self.seq += 1
            tk = rng.choice(list(TEXTS))
            text = TEXTS[tk]
            extra: dict[str, str] = {}
            kclasses = []
            for _ in range(rng.choice([0, 0, 1, 2, 3])):
                kc = rng.choice(list(EXTRA_KEYS))
                kclasses.append(kc)
                extra[rng.choice(EXTRA_KEYS[kc])] = rng.choice(EXTRA_VALUES)
            if rng.random() < 0.7:
                text = f"{text}#{self.seq}"
                where = "text"
            else:
                extra["_q"] = str(self.seq)
                where = "extra"
            level = rng.choice(LEVELS)
            self.meta[self.seq] = {"site": site, "level": level, "text": text, "extra": dict(extra), "text_shape": tk, "key_classes": sorted(set(kclasses)) or ["none"], "id_in": where}
            out.append((level, text, extra))
        return out


def gen_program_a(rng: random.Random, sg: SeqGen) -> dict[str, Any]:
    methods: list[dict[str, Any]] = []
    for i in range(rng.choice([4, 6, 8])):
        kind = rng.choice(["unary", "producer", "producer", "exchange"])
        name = f"{kind[0]}{i}"
        if kind == "unary":
            act: tuple[Any, ...] = ("raise", "ValueError", "boom") if rng.random() < 0.2 else ("return", i)
            methods.append({"name": name, "kind": "unary", "params": [], "ret": ("int",), "u": {"logs": sg.logs("unary", 4), "act": act}})
            continue
        m: dict[str, Any] = {"name": name, "kind": kind, "params": [], "header": rng.random() < 0.5, "out_cols": ["i", "s"], "in_cols": ["i", "s"]}
        init_raise = rng.random() < 0.1
        m["init"] = {"logs": sg.logs("init"), "act": ("raise", "UserBoom", "init failed") if init_raise else ("ok",)}
        steps = []
        n = rng.choice([1, 2, 3, 5])
        for k in range(n):
            last = k == n - 1
            if kind == "producer":
                a = rng.choice(["emit"] * 5 + ["raise"]) if not last else rng.choice(["emit_finish", "finish", "finish", "raise", "emit"])
            else:
                a = rng.choice(["emit"] * 6 + ["raise"])
            st: dict[str, Any] = {"logs": sg.logs("step"), "act": a, "rows": rng.choice([0, 1, 2, 3]), "pad": rng.choice([0, 0, 60, 400])}
            if a == "raise":
                st["exc"] = ("RuntimeError", "step failed")
            if a == "emit" and rng.random() < 0.15:
                # the step emits its data batch, logs again, and only then fails: the batch is discarded with
                # the step, but every log of the call still precedes the error
                st["post_logs"] = sg.logs("step_after_emit")
                st["raise_after"] = ("RuntimeError", "failed after emit")
            steps.append(st)
            if a in ("raise", "finish", "emit_finish") or st.get("raise_after"):
                break
        m["steps"] = steps
        if kind == "exchange" and len(steps) >= 2 and all(st["act"] == "emit" and not st.get("raise_after") for st in steps[:-1]) and rng.random() < 0.5:
            # the client sends, after k good turns, an input whose field set the method does not accept: that turn is
            # refused before the step runs, so nothing new is logged - and nothing already delivered may come again
            m["bad_input_at"] = rng.randint(1, len(steps) - 1)
            # declared input column n: int32; the client sends it as int64 (coerced turn by turn), and on the bad turn
            # a value that does not fit: the refusal happens on the server, after the request was accepted on the wire
            m["in_cols"] = ["n", "s"]
            m["out_cols"] = ["n", "s"]
        methods.append(m)
    return {"name": "LogSvc", "methods": methods, "calls": []}


def expected_events(m: dict[str, Any], n_inputs: int) -> list[tuple[Any, ...]]:
    """Emission order for a fully consumed call: ("log", seq) | ("data",) | ("error",) | ("end",)."""

    def seq_of(log: tuple[str, str, dict[str, str]]) -> int:
        if "_q" in log[2]:
            return int(log[2]["_q"])
        mm = _SEQ_RE.search(log[1])
        assert mm is not None
        return int(mm.group(1))

    ev: list[tuple[Any, ...]] = []
    if m["kind"] == "unary":
        ev += [("log", seq_of(lg), "unary", m["u"]["act"][0]) for lg in m["u"]["logs"]]
        ev.append(("error",) if m["u"]["act"][0] == "raise" else ("data",))
        return ev
    init_act = m["init"]["act"][0]
    ev += [("log", seq_of(lg), "init", "raise" if init_act == "raise" else "ok") for lg in m["init"]["logs"]]
    if init_act == "raise":
        ev.append(("error",))
        return ev
    steps = m["steps"]
    if m["kind"] == "producer":
        for st in steps:
            ev += [("log", seq_of(lg), "step", st["act"]) for lg in st["logs"]]
            if st.get("raise_after"):
                ev += [("log", seq_of(lg), "step_after_emit", "raise") for lg in st.get("post_logs", [])]
                ev.append(("error",))
                return ev
            if st["act"] in ("emit", "emit_finish"):
                ev.append(("data",))
            if st["act"] == "raise":
                ev.append(("error",))
                return ev
            if st["act"] in ("finish", "emit_finish"):
                ev.append(("end",))
                return ev
        ev.append(("end",))  # scripted steps exhausted: svcgen finishes
        return ev
    for k in range(n_inputs):
        if m.get("bad_input_at") == k:
            ev.append(("error",))
            return ev
        st = steps[min(k, len(steps) - 1)]
        ev += [("log", seq_of(lg), "step", st["act"]) for lg in st["logs"]]
        if st.get("raise_after"):
            ev += [("log", seq_of(lg), "step_after_emit", "raise") for lg in st.get("post_logs", [])]
            ev.append(("error",))
            return ev
        if st["act"] == "raise":
            ev.append(("error",))
            return ev
        ev.append(("data",))
    ev.append(("end",))
    return ev


# ---------------------------------------------------------------------------
# (b) hostile variants
# ---------------------------------------------------------------------------

RESERVED = ("level", "message", "self")


def hostile_variants() -> list[dict[str, Any]]:
    """Each: name, group, and the raw metadata of one log batch (bytes -> bytes)."""
    L, M, X = b"vgi_rpc.log_level", b"vgi_rpc.log_message", b"vgi_rpc.log_extra"
    SID, RID = b"vgi_rpc.server_id", b"vgi_rpc.request_id"
    out: list[dict[str, Any]] = []

    def add(name: str, group: str, md: dict[bytes, bytes]) -> None:
        out.append({"name": name, "group": group, "md": md})

    base = {L: b"INFO", M: b"m"}
    # well-formed but unusual: must certainly not break the call
    add("plain", "benign", {**base})
    add("plain_extra", "benign", {**base, X: b'{"k": "v"}'})
    add("nested_values", "benign", {**base, X: b'{"a": {"b": [1, {"c": null}]}, "n": 1.5, "t": true, "z": null}'})
    add("odd_keys", "benign", {**base, X: '{"extra": 1, "kwargs": 2, "": 3, "a b": 4, "\u00fcn\u00ef": 5, "__class__": 6, "msg": 7}'.encode()})
    add("nan_infinity", "benign", {**base, X: b'{"a": NaN, "b": Infinity, "c": -Infinity}'})
    add("duplicate_keys", "benign", {**base, X: b'{"a": 1, "a": 2}'})
    add("surrogate_escape", "benign", {**base, X: b'{"a": "\\ud800"}'})
    add("ids_in_extra", "benign", {**base, X: b'{"server_id": "x", "request_id": "y"}', SID: b"srv", RID: b"req"})
    add("error_kind_on_info", "benign", {**base, b"vgi_rpc.error_kind": b"whatever"})
    add("empty_message", "benign", {L: b"WARN", M: b""})
    add("long_extra", "benign", {**base, X: b'{"a": "' + b"z" * 40000 + b'"}'})
    add("invalid_json", "benign", {**base, X: b"{bad"})
    add("empty_extra", "benign", {**base, X: b""})
    add("json_trailing_garbage", "benign", {**base, X: b'{"a": 1} trailing'})
    # free-form extra objects whose keys collide with Message's own parameters
    add("key_level", "extra_reserved_key", {**base, X: b'{"level": "x"}'})
    add("key_message", "extra_reserved_key", {**base, X: b'{"message": "x"}'})
    add("key_self", "extra_reserved_key", {**base, X: b'{"self": 1}'})
    add("key_level_message", "extra_reserved_key", {**base, X: b'{"level": "INFO", "message": "again", "k": 1}'})
    # extras that are JSON but not objects
    add("array", "extra_not_object", {**base, X: b"[1, 2, 3]"})
    add("empty_array", "extra_not_object", {**base, X: b"[]"})
    add("array_of_objects", "extra_not_object", {**base, X: b'[{"level": "x"}]'})
    add("string", "extra_not_object", {**base, X: b'"abc"'})
    add("number", "extra_not_object", {**base, X: b"42"})
    add("float", "extra_not_object", {**base, X: b"1.5"})
    add("null", "extra_not_object", {**base, X: b"null"})
    add("true", "extra_not_object", {**base, X: b"true"})
    # extras that are not text at all
    add("extra_invalid_utf8", "extra_undecodable", {**base, X: b'{"a": "\xff"}'})
    add("extra_binary", "extra_undecodable", {**base, X: b"\xff\xfe\x00\x01"})
    # JSON that a naive json.loads chokes on with something other than JSONDecodeError
    add("deep_nesting_array", "extra_pathological_json", {**base, X: b"[" * 30000 + b"]" * 30000})
    add("deep_nesting_object", "extra_pathological_json", {**base, X: b'{"a":' * 20000 + b"1" + b"}" * 20000})
    add("huge_integer", "extra_pathological_json", {**base, X: b'{"a": ' + b"9" * 5000 + b"}"})
    # levels outside the enum
    add("level_fatal", "unknown_level", {L: b"FATAL", M: b"m"})
    add("level_lowercase", "unknown_level", {L: b"info", M: b"m"})
    add("level_empty", "unknown_level", {L: b"", M: b"m"})
    add("level_trailing_space", "unknown_level", {L: b"INFO ", M: b"m"})
    add("level_numeric", "unknown_level", {L: b"20", M: b"m"})
    # text fields that are not UTF-8
    add("level_invalid_utf8", "field_invalid_utf8", {L: b"\xff\xfe", M: b"m"})
    add("message_invalid_utf8", "field_invalid_utf8", {L: b"INFO", M: b"ok \xff\xfe"})
    add("server_id_invalid_utf8", "field_invalid_utf8", {**base, SID: b"\xff"})
    add("request_id_invalid_utf8", "field_invalid_utf8", {**base, RID: b"\xff"})
    return out


def random_json_extra(rng: random.Random) -> tuple[bytes, str]:
    import json

    def val(d: int) -> Any:
        r = rng.random()
        if d >= 3 or r < 0.45:
            return rng.choice([None, True, False, 0, -1, 3.5, "", "s", "\u00fc", 10**20])
        if r < 0.75:
            return {rng.choice(["k", "level", "message", "self", "a.b", "", "extra", "id"]): val(d + 1) for _ in range(rng.choice([0, 1, 2, 3]))}
        return [val(d + 1) for _ in range(rng.choice([0, 1, 2, 3]))]

    v = val(0) if rng.random() < 0.4 else {rng.choice(["k", "level", "message", "self", "a.b", "", "extra", "id"]): val(1) for _ in range(rng.choice([0, 1, 2, 3]))}
    if isinstance(v, dict):
        group = "extra_reserved_key" if any(k in RESERVED for k in v) else "benign"
    else:
        group = "extra_not_object"
    return json.dumps(v).encode(), group


POSITIONS = ["unary", "header_stream", "producer_first", "producer_later", "exchange_turn"]


# ---------------------------------------------------------------------------
# shard
# ---------------------------------------------------------------------------


def run_shard(job: dict[str, Any]) -> dict[str, Any]:
    import io
    import logging
    import threading
    import warnings

    import pyarrow as pa
    from pyarrow import ipc

    from lib import httpdrv, svcgen
    from vgi_rpc.http import http_connect
    from vgi_rpc.http._testing import make_sync_client
    from vgi_rpc.rpc import AnnotatedBatch, RpcConnection, RpcError, RpcServer, make_pipe_pair

    warnings.simplefilter("ignore")
    logging.getLogger("vgi_rpc").addHandler(logging.NullHandler())
    logging.getLogger("vgi_rpc").propagate = False
    chk = Check(PID, job["tier"], job["seed"])
    rng = random.Random(job["seed"])
    progress: dict[str, Any] = {"at": None}

    # =======================================================================
    # (a)
    # =======================================================================
    def drive_a(proxy: Any, m: dict[str, Any], n_inputs: int, events: list[Any]) -> None:
        """Run the call fully; *events* receives ("log", Message) from on_log and data/end/error markers here."""
        try:
            fn = getattr(proxy, m["name"])
            if m["kind"] == "unary":
                fn()
                events.append(("data",))
            elif m["kind"] == "producer":
                sess = fn()
                k = 0
                for ab in sess:
                    events.append(("data",))
                    ab.release()
                    k += 1
                    if k > 50:
                        break
                events.append(("end",))
            else:
                sess = fn()
                schema = svcgen.schema_of(m["in_cols"])
                if m.get("bad_input_at") is not None:
                    schema = pa.schema([pa.field("n", pa.int64()), pa.field("s", pa.string())])
                for k in range(n_inputs):
                    if m.get("bad_input_at") is not None:
                        bad = m["bad_input_at"] == k
                        if bad:
                            chk.hit("a_bad_input_sent")
                        ab = sess.exchange(AnnotatedBatch(batch=pa.RecordBatch.from_pydict({"n": [2**40 if bad else k], "s": ["in"]}, schema=schema)))
                        events.append(("data",))
                        ab.release()
                        continue
                    ab = sess.exchange(AnnotatedBatch(batch=pa.RecordBatch.from_pydict({"i": [k], "s": ["in"]}, schema=schema)))
                    events.append(("data",))
                    ab.release()
                sess.close()
                events.append(("end",))
        except RpcError as e:
            events.append(("error", e.error_type))

    def seq_of_msg(msg: Any) -> int | None:
        ex = msg.extra or {}
        if "_q" in ex:
            try:
                return int(ex["_q"])
            except ValueError:
                return None
        mm = _SEQ_RE.search(msg.message)
        return int(mm.group(1)) if mm else None

    def judge_a(m: dict[str, Any], n_inputs: int, tr: str, events: list[Any], sg: SeqGen) -> None:
        exp = expected_events(m, n_inputs)
        exp_logs = [e for e in exp if e[0] == "log"]
        # index of the data item each emitted log precedes
        exp_pos: dict[int, int] = {}
        nd = 0
        for e in exp:
            if e[0] == "log":
                exp_pos[e[1]] = nd
            elif e[0] == "data":
                nd += 1
        got_pos: dict[int, list[int]] = {}
        got_order: list[int] = []
        nd = 0
        unidentified = 0
        for e in events:
            if e[0] == "log":
                s = seq_of_msg(e[1])
                if s is None or s not in exp_pos:
                    unidentified += 1
                    chk.violation("log_unidentifiable_or_foreign", "a delivered log carries no known sequence number (text/extras altered, or a message nobody emitted)", {"method": m["name"], "transport": tr, "message": e[1].message[:200], "extra": e[1].extra})
                    continue
                got_pos.setdefault(s, []).append(nd)
                got_order.append(s)
            elif e[0] == "data":
                nd += 1
        exp_kinds = [e[0] for e in exp if e[0] != "log"]
        got_kinds = [e[0] for e in events if e[0] != "log"]
        base = {"method": m["name"], "kind": m["kind"], "transport": tr, "header": m.get("header"), "expected_outcome": exp_kinds, "observed_outcome": got_kinds}
        comparable = exp_kinds == got_kinds
        if not comparable:
            # the call did not run as scripted (batches dropped before an error on capped HTTP, cap overshoot, ...):
            # other properties' subject; only duplication and content of what *was* delivered are judged
            chk.skip("call_outcome_differs_from_script(C01/C10/C16 subject)")
        for _k, s, site, after in exp_logs:
            meta = sg.meta[s]
            for kc in meta["key_classes"]:
                chk.case(f"a:{m['kind']}:{site}:{after}:{tr}:{kc}:{meta['text_shape']}")
            chk.hit("emitted_log_judged")
            wit = {**base, "seq": s, "site": site, "action_after_log": after, "emitted": {"level": meta["level"], "text": meta["text"][:120], "extra": meta["extra"]}}
            deliveries = got_pos.get(s, [])
            if len(deliveries) == 0 and not comparable:
                continue
            if len(deliveries) == 0:
                if after == "raise":
                    chk.violation(f"logs_before_error_lost:{site}", "a log emitted before the implementation raised (same call) never reached on_log", wit)
                else:
                    chk.violation(f"log_lost:{site}:{'finishing_step' if after in ('finish', 'emit_finish') else 'normal'}", "an emitted client log never reached on_log", wit)
                continue
            if len(deliveries) > 1:
                chk.violation(f"log_duplicated:{site}", "an emitted client log reached on_log more than once", {**wit, "deliveries": len(deliveries)})
            if comparable and deliveries[0] > exp_pos[s]:
                chk.violation(f"log_delivered_late:{site}", "a log was delivered after the result/batch it precedes had been returned", {**wit, "returned_before_delivery": deliveries[0], "emitted_before": exp_pos[s]})
            else:
                chk.hit("position_judged")
        # order among delivered logs
        first_seen: list[int] = []
        for s in got_order:
            if s not in first_seen:
                first_seen.append(s)
        emitted_order = [e[1] for e in exp_logs if e[1] in first_seen]
        if first_seen != emitted_order:
            chk.violation("log_reordered", "logs reached on_log in an order different from emission order", {**base, "emitted_order": emitted_order, "delivered_order": first_seen})
        # content
        seen: set[int] = set()
        for e in events:
            if e[0] != "log":
                continue
            s = seq_of_msg(e[1])
            if s is None or s not in exp_pos or s in seen:
                continue
            seen.add(s)
            meta = sg.meta[s]
            msg = e[1]
            wit = {**base, "seq": s, "site": meta["site"], "emitted": {"level": meta["level"], "text": meta["text"][:120], "extra": meta["extra"]}, "delivered": {"level": msg.level.value, "text": msg.message[:120], "extra": msg.extra}}
            chk.hit("content_judged")
            if msg.level.value != meta["level"]:
                chk.violation("log_level_changed", "delivered level differs from the emitted level", wit)
            if msg.message != meta["text"]:
                chk.violation(f"log_text_changed:{meta['text_shape']}", "delivered text differs from the emitted text", wit)
            dex = dict(msg.extra or {})
            for k, v in meta["extra"].items():
                if k not in dex:
                    chk.violation(f"log_extra_key_lost:{'framework_id_name' if k in ('server_id', 'request_id') else 'other'}", "an emitted extra field is missing at delivery", {**wit, "key": k})
                elif dex[k] != v:
                    if k in ("server_id", "request_id"):
                        chk.violation(f"log_extra_overwritten_by_framework_id:{k}", "an emitted extra named like a framework id was replaced by the framework's own value", {**wit, "key": k})
                    else:
                        chk.violation("log_extra_value_changed", "an emitted extra field arrives with a different value", {**wit, "key": k})
            for k in dex:
                if k not in meta["extra"] and k not in ("server_id", "request_id"):
                    chk.violation("log_extra_key_invented", "delivery carries an extra field nobody emitted", {**wit, "key": k})

    def part_a(nprog: int) -> None:
        for pi in range(nprog):
            sg = SeqGen(rng)
            program = gen_program_a(rng, sg)
            proto, impl = svcgen.build(program)
            server = RpcServer(proto, impl)
            for tr in TRANSPORTS_A:
                conn: dict[str, Any] = {}

                def open_pipe(events_ref: list[Any]) -> None:
                    ct, st = make_pipe_pair()
                    box: dict[str, Any] = {}

                    def serve() -> None:
                        try:
                            server.serve(st)
                        except Exception as e:  # noqa: BLE001
                            box["died"] = repr(e)
                            try:
                                st.close()
                            except Exception:  # noqa: BLE001
                                pass

                    th = threading.Thread(target=serve, daemon=True)
                    th.start()
                    conn.update(ct=ct, st=st, th=th, box=box, proxy=RpcConnection(proto, ct, on_log=lambda msg: events_ref[0].append(("log", msg))).__enter__())

                def close_pipe() -> None:
                    if not conn:
                        return
                    for f in (conn["ct"].close,):
                        try:
                            f()
                        except Exception:  # noqa: BLE001
                            pass
                    conn["th"].join(timeout=10)
                    try:
                        conn["st"].close()
                    except Exception:  # noqa: BLE001
                        pass
                    conn.clear()

                holder: list[Any] = [[]]
                http_client = None
                if tr != "pipe":
                    kw = {"max_response_bytes": 900} if tr == "http_cap" else {}
                    http_client = make_sync_client(server, **kw)
                for m in program["methods"]:
                    # never more inputs than scripted steps: svcgen repeats the last step, which would re-emit its logs
                    n_inputs = rng.randint(0, len(m["steps"])) if m["kind"] == "exchange" else 0
                    if m.get("bad_input_at") is not None and rng.random() < 0.8:
                        n_inputs = m["bad_input_at"] + 1
                    if tr == "http_cap" and m["kind"] != "producer":
                        continue  # the cap is a hard limit for unary / exchange responses (C16); only producers continue
                    events: list[Any] = []
                    holder[0] = events
                    progress["at"] = ("a", pi, m["name"], tr)
                    if tr == "pipe":
                        if not conn:
                            open_pipe(holder)
                        drive_a(conn["proxy"], m, n_inputs, events)
                        # header-less init errors desynchronise a shared socket connection (C04): start afresh
                        if m["kind"] != "unary" and m["init"]["act"][0] == "raise":
                            close_pipe()
                    else:
                        with http_connect(proto, client=http_client, on_log=lambda msg, ev=events: ev.append(("log", msg))) as proxy:
                            drive_a(proxy, m, n_inputs, events)
                    chk.hit(f"a_call_{tr}")
                    judge_a(m, n_inputs, tr, events, sg)
                    if rng.random() < 0.004:
                        chk.sample({"part": "a", "transport": tr, "method": m["name"], "kind": m["kind"], "events": [(e[0], e[1].message[:40]) if e[0] == "log" else e for e in events][:20]})
                close_pipe()

    # =======================================================================
    # (b)
    # =======================================================================
    hostile_prog = {
        "name": "PeerSvc",
        "methods": [
            {"name": "u", "kind": "unary", "params": [], "ret": ("int",), "u": {"logs": [], "act": ("return", 0)}},
            {"name": "p", "kind": "producer", "params": [], "header": True, "out_cols": ["i"], "init": {"logs": [], "act": ("ok",)}, "steps": []},
            {"name": "x", "kind": "exchange", "params": [], "header": False, "out_cols": ["i"], "in_cols": ["i"], "init": {"logs": [], "act": ("ok",)}, "steps": []},
        ],
        "calls": [],
    }
    hproto, _himpl = svcgen.build(hostile_prog)
    RESULT_SCHEMA = pa.schema([pa.field("result", pa.int64())])
    OUT_SCHEMA = svcgen.schema_of(["i"])
    HDR = svcgen.Hdr(label="hdr", n=3)._serialize()
    STATE_KEY, CALL_STATE_KEY = b"vgi_rpc.stream_state#b64", b"vgi_rpc.call_state#b64"

    def zero(schema: pa.Schema) -> pa.RecordBatch:
        return pa.RecordBatch.from_pylist([], schema=schema)

    def stream_bytes(schema: pa.Schema, items: list[tuple[pa.RecordBatch, dict[bytes, bytes] | None]]) -> bytes:
        sink = io.BytesIO()
        with ipc.new_stream(sink, schema) as w:
            for b, md in items:
                if md:
                    w.write_batch(b, custom_metadata=pa.KeyValueMetadata(md))
                else:
                    w.write_batch(b)
        return sink.getvalue()

    def logs_for(schema: pa.Schema, mds: list[dict[bytes, bytes]]) -> list[tuple[pa.RecordBatch, dict[bytes, bytes] | None]]:
        return [(zero(schema), md) for md in mds]

    def data(i: int, md: dict[bytes, bytes] | None = None) -> tuple[pa.RecordBatch, dict[bytes, bytes] | None]:
        return (pa.RecordBatch.from_pydict({"i": [i]}, schema=OUT_SCHEMA), md)

    def build_responses(position: str, mds: list[dict[bytes, bytes]], transport: str) -> dict[str, Any]:
        """What the fake peer sends.  Returns {"method", pipe: bytes, http: {path: [bodies]}, expect}."""
        if position == "unary":
            body = stream_bytes(RESULT_SCHEMA, [*logs_for(RESULT_SCHEMA, mds), (pa.RecordBatch.from_pydict({"result": [42]}, schema=RESULT_SCHEMA), None)])
            return {"method": "u", "pipe": body, "http": {"/u": [body]}, "expect": 42}
        if position in ("header_stream", "producer_first", "producer_later"):
            hdr_logs = mds if position == "header_stream" else []
            first_logs = mds if position == "producer_first" else []
            later_logs = mds if position == "producer_later" else []
            header = stream_bytes(HDR.schema, [*logs_for(HDR.schema, hdr_logs), (HDR, None)])
            if transport == "pipe":
                out = stream_bytes(OUT_SCHEMA, [*logs_for(OUT_SCHEMA, first_logs), data(0), *logs_for(OUT_SCHEMA, later_logs), data(1), data(2)])
                return {"method": "p", "pipe": header + out, "http": {}, "expect": [0, 1, 2]}
            # HTTP: init carries header + first data + continuation token; the continuation carries the rest
            init = header + stream_bytes(OUT_SCHEMA, [*logs_for(OUT_SCHEMA, first_logs), data(0), (zero(OUT_SCHEMA), {STATE_KEY: b"tok1", CALL_STATE_KEY: b"call"})])
            cont = stream_bytes(OUT_SCHEMA, [*logs_for(OUT_SCHEMA, later_logs), data(1), data(2)])
            return {"method": "p", "pipe": b"", "http": {"/p/init": [init], "/p/exchange": [cont]}, "expect": [0, 1, 2]}
        # exchange_turn
        if transport == "pipe":
            out = stream_bytes(OUT_SCHEMA, [*logs_for(OUT_SCHEMA, mds), data(7)])
            return {"method": "x", "pipe": out, "http": {}, "expect": [7]}
        init = stream_bytes(OUT_SCHEMA, [(zero(OUT_SCHEMA), {STATE_KEY: b"tok1", CALL_STATE_KEY: b"call"})])
        turn = stream_bytes(OUT_SCHEMA, [*logs_for(OUT_SCHEMA, mds), data(7, {STATE_KEY: b"tok2"})])
        return {"method": "x", "pipe": b"", "http": {"/x/init": [init], "/x/exchange": [turn]}, "expect": [7]}

    class CannedResp:
        def __init__(self, body: bytes) -> None:
            self.status_code = 200
            self.headers = {"content-type": httpdrv.ARROW_CT}
            self.content = body

    class CannedClient:
        prefix = ""

        def __init__(self, table: dict[str, list[bytes]]) -> None:
            self.table = {k: list(v) for k, v in table.items()}
            self.requests: list[str] = []

        def post(self, url: str, *, content: bytes, headers: dict[str, str]) -> CannedResp:
            from urllib.parse import urlparse

            path = urlparse(url).path
            self.requests.append(path)
            q = self.table.get(path)
            if not q:
                return CannedResp(stream_bytes(OUT_SCHEMA, []))
            return CannedResp(q.pop(0))

        def get(self, url: str, **kw: Any) -> CannedResp:
            return CannedResp(b"")

        options = delete = get

        def close(self) -> None:
            pass

    def call_peer(resp: dict[str, Any], transport: str, delivered: list[Any]) -> tuple[Any, BaseException | None]:
        """Run the real client against the canned peer; return (result, exception)."""

        def run(proxy: Any) -> Any:
            meth = resp["method"]
            if meth == "u":
                return proxy.u()
            if meth == "p":
                sess = proxy.p()
                got = []
                for ab in sess:
                    got.append(ab.batch.column("i")[0].as_py())
                    if len(got) > 10:
                        break
                return got
            sess = proxy.x()
            ab = sess.exchange(AnnotatedBatch(batch=pa.RecordBatch.from_pydict({"i": [1]}, schema=OUT_SCHEMA)))
            return [ab.batch.column("i")[0].as_py()]

        if transport == "http":
            cc = CannedClient(resp["http"])
            try:
                with http_connect(hproto, client=cc, on_log=delivered.append) as proxy:  # type: ignore[arg-type]
                    return run(proxy), None
            except BaseException as e:  # noqa: BLE001
                return None, e
        ct, st = make_pipe_pair()
        payload = resp["pipe"]
        writer_th = None
        if len(payload) < 60000:
            st.writer.write(payload)  # fits the pipe buffer: the peer has "answered" before being asked
        else:

            def pump() -> None:
                try:
                    st.writer.write(payload)
                except Exception:  # noqa: BLE001
                    pass

            writer_th = threading.Thread(target=pump, daemon=True)
            writer_th.start()
        # the client's own writes (request, ticks, one input batch) are tiny and stay in the pipe buffer unread
        try:
            proxy = RpcConnection(hproto, ct, on_log=delivered.append).__enter__()
            return run(proxy), None
        except BaseException as e:  # noqa: BLE001
            return None, e
        finally:
            for f in (st.writer.close, ct.close, st.reader.close):
                try:
                    f()
                except Exception:  # noqa: BLE001
                    pass
            if writer_th is not None:
                writer_th.join(timeout=2)

    def judge_b(names: list[str], groups: list[str], position: str, transport: str, resp: dict[str, Any], result: Any, exc: BaseException | None, delivered: list[Any]) -> None:
        hostile_groups = sorted({g for g in groups if g != "benign"})
        label = "+".join(hostile_groups) if hostile_groups else "benign"
        chk.case(f"b:{'|'.join(sorted(set(names)))[:60]}:{position}:{transport}")
        chk.hit(f"b_call_{transport}")
        wit = {"variants": names, "position": position, "transport": transport, "expected_result": resp["expect"]}
        if exc is not None:
            chk.hit("b_call_failed")
            key_group = hostile_groups[0] if len(hostile_groups) == 1 else ("benign" if not hostile_groups else "mixed")
            if key_group == "mixed":
                # attribute to each group separately is impossible; keep one stable key
                key_group = "several_hostile_groups"
            chk.violation(
                f"hostile_log_fails_call:{key_group}",
                "a log batch with peer-chosen metadata made the client call fail instead of being delivered or ignored",
                {**wit, "raised": f"{type(exc).__name__}: {str(exc)[:200]}"},
            )
            return
        chk.hit("b_call_completed")
        if result != resp["expect"]:
            chk.violation(f"hostile_log_corrupts_result:{label}", "the call completed but not with the peer's result", {**wit, "result": result})
        chk.hit("b_log_delivered" if delivered else "b_log_ignored")

    def part_b(nrandom: int) -> None:
        variants = hostile_variants()
        for transport in ("pipe", "http"):
            for v in variants[job.get("table_offset", 0) :: job.get("table_stride", 1)]:
                for position in POSITIONS:
                    progress["at"] = ("b", v["name"], position, transport)
                    resp = build_responses(position, [v["md"]], transport)
                    delivered: list[Any] = []
                    result, exc = call_peer(resp, transport, delivered)
                    judge_b([v["name"]], [v["group"]], position, transport, resp, result, exc, delivered)
        base = {b"vgi_rpc.log_level": b"INFO", b"vgi_rpc.log_message": b"r"}
        for i in range(nrandom):
            transport = rng.choice(["pipe", "http"])
            position = rng.choice(POSITIONS)
            mds, names, groups = [], [], []
            for _ in range(rng.choice([1, 1, 2, 3])):
                for _attempt in range(20):
                    if rng.random() < 0.5:
                        v = rng.choice(variants)
                        md, name, g = v["md"], v["name"], v["group"]
                    else:
                        raw, g = random_json_extra(rng)
                        md, name = {**base, b"vgi_rpc.log_level": rng.choice(LEVELS).encode(), b"vgi_rpc.log_extra": raw}, "random_json"
                    # at most one hostile mechanism per response, so a failure can be attributed
                    if g == "benign" or all(x in ("benign", g) for x in groups):
                        break
                else:
                    continue
                mds.append(md)
                names.append(name)
                groups.append(g)
            progress["at"] = ("b-random", i, names, position, transport)
            resp = build_responses(position, mds, transport)
            delivered = []
            result, exc = call_peer(resp, transport, delivered)
            judge_b(names, groups, position, transport, resp, result, exc, delivered)
            if i % 301 == 0:
                chk.sample({"part": "b", "variants": names, "position": position, "transport": transport, "raised": repr(exc)[:160] if exc else None, "result": result})

    def body() -> None:
        part_a(job["programs"])
        if job.get("hostile", True):
            part_b(job["random_hostile"])

    worker = threading.Thread(target=body, daemon=True)
    worker.start()
    worker.join(timeout=400 if job["tier"] == "quick" else 2500)
    if worker.is_alive():
        chk.inconclusive_because(f"watchdog: shard stuck at {progress['at']}")
    return chk.to_result()


def main(tier: str, seed: int) -> int:
    chk = Check(PID, tier, seed, level=CATEGORY, rule=RULE)
    chk.require(
        "a_bad_input_sent",
        "emitted_log_judged",
        "position_judged",
        "content_judged",
        "a_call_pipe",
        "a_call_http",
        "a_call_http_cap",
        "b_call_pipe",
        "b_call_http",
        "b_call_completed",
    )
    chk.assumptions = [
        "every scripted log carries a sequence number (suffix of its text or extra '_q'); identity of a delivery is decided by it",
        "extras emitted through the Python server API are str -> str; keys 'level'/'message'/'self' cannot be emitted by a Python server (keyword clash) and are covered by the hand-written peer",
        "framework-added extras server_id/request_id are ignored at delivery unless the script itself emitted such a key",
        "the hand-written peer pre-writes its whole answer into the pipe (answers are valid Arrow IPC; only log metadata is hostile)",
        "when the data plane differs from the script (other properties' subject) only count/order/content of logs is judged, not their position",
    ]
    n = shard.ncpu()
    nsh = n * 2
    progs = 96 if tier == "quick" else 3000
    rnd = 2400 if tier == "quick" else 100_000
    jobs = [
        {"tier": tier, "seed": seed * 4001 + i + 1, "programs": max(1, progs // nsh), "random_hostile": max(10, rnd // nsh), "hostile": True, "table_offset": i, "table_stride": nsh}
        for i in range(nsh)
    ]
    for res in shard.pmap("checks.c08", "run_shard", jobs, timeout=500 if tier == "quick" else 3000):
        chk.merge(res)
    chk.exhaustive["hostile_variant x position x transport table"] = True
    chk.exhaustive["scripted_log_programs"] = False
    return chk.finish()

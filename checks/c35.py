"""C35 - sensitive claim values never reach access logs.

Workload: generated JSON-like claim objects (depth <= 4, dicts and lists) in which every
leaf is a unique canary.  Sensitive names (reference list in lib/models/claims_redaction.py,
in any letter case, as whole names and as substrings) are planted at every depth.

Observation (deciding): the *final JSON line* produced by ``VgiAccessLogFormatter`` for
records on the ``vgi_rpc.access`` logger while a real HTTP app (authenticate callback
returning ``AuthContext(claims=<generated>)``) serves unary / failing unary / producer /
exchange calls.  Second observation: ``apply_claim_redaction`` called directly and
serialised with ``json.dumps`` (tells "redactor wrong" from "access path bypasses it").

Monitors
* leak            a canary planted under a sensitive name occurs in the line
* key_visible     the outermost sensitive name on each path is still present in the record
* raising         with a raising custom redactor the record carries no claims at all
"""

from __future__ import annotations

import json
import logging
import random
from typing import Any

from lib import shard
from lib.evidence import Check
from lib.models import claims_redaction as model

PID = "C35"
ENGINE = "E1-svcgen-rig+E5-models"
TECHNIQUE = "canary planting in generated claim objects; oracle on the serialized access-log line"
LEVEL_TEXT = (
    "Exploration: generated claim objects (depth <= 4, lists and dicts, every listed sensitive word in four "
    "spellings) were logged through the real HTTP access-log path and through apply_claim_redaction; "
    "held means no planted canary under a sensitive name occurred in any emitted JSON line, every outermost "
    "sensitive name stayed visible, and a raising redactor left no claim in the record, on the executions counted."
)
LEVEL_NOTE = "sensitive-name list written from the statement/spec; bare 'name' judged as whole-name only; ASCII letter case only"
CATEGORY = "exploration"
RULE = (
    "case = (claims object, call kind in unary_ok|unary_err|producer|exchange, redactor in default|raising); "
    "distinct class = (observation path, call kind, depth of sensitive name, container kinds on its path, "
    "spelling variant, value kind)"
)

CALL_KINDS = ["unary_ok", "unary_err", "producer", "exchange"]


# ---------------------------------------------------------------------------
# generation
# ---------------------------------------------------------------------------


class Gen:
    def __init__(self, rng: random.Random) -> None:
        self.rng = rng
        self.n = 0
        self.planted: list[dict[str, Any]] = []  # outermost sensitive names
        self.all_canaries: list[str] = []

    def canary(self, kind: str) -> Any:
        self.n += 1
        if kind == "int":
            v: Any = 9_000_000_000_000 + self.n * 7 + self.rng.randrange(7)
            self.all_canaries.append(str(v))
            return v
        v = f"CNRY{self.n:05d}Z{self.rng.randrange(10**6):06d}"
        self.all_canaries.append(v)
        return v

    def sensitive_key(self) -> tuple[str, str, str]:
        rng = self.rng
        if rng.random() < 0.08:
            w = "name"
            variant = rng.choice(["exact", "case"])
            k = w if variant == "exact" else rng.choice(["NAME", "Name", "nAmE"])
            return k, w, variant
        w = rng.choice(model.SUBSTRING_WORDS)
        variant = rng.choice(["exact", "case", "substring", "case+substring"])
        k = w
        if "case" in variant:
            k = rng.choice([w.upper(), w.title(), "".join(c.upper() if rng.random() < 0.5 else c for c in w)])
            if k == w:
                k = w.upper()
        if "substring" in variant:
            k = rng.choice(["x_", "my", "oauth-", "", "a"]) + k + rng.choice(["_id", "s", "Value", "2", "-x"])
        return k, w, variant

    def leaf(self) -> tuple[Any, str]:
        r = self.rng.random()
        if r < 0.7:
            return self.canary("str"), "str"
        return self.canary("int"), "int"

    def obj(self, depth: int, maxdepth: int, path: list[Any], via: list[str], under_sensitive: bool = False) -> dict[str, Any]:
        """A dict whose keys live at *depth*; records outermost sensitive names (with their path)."""
        rng = self.rng
        out: dict[str, Any] = {}
        for _ in range(rng.choice([1, 2, 2, 3, 4])):
            if rng.random() < 0.45:
                k, w, variant = self.sensitive_key()
                if k in out:
                    continue
                before = len(self.all_canaries)
                r = rng.random()
                if depth >= maxdepth or r < 0.6:
                    v, vkind = self.leaf()
                elif r < 0.8:
                    v, vkind = self._subtree_dict(depth + 1, maxdepth), "dict"
                else:
                    v, vkind = [self.leaf()[0] for _ in range(rng.choice([1, 2]))], "list"
                out[k] = v
                if not under_sensitive:
                    self.planted.append(
                        {
                            "path": [*path, k],
                            "word": w,
                            "variant": variant,
                            "depth": depth,
                            "via": "+".join(sorted(set(via))) or "top",
                            "vkind": vkind,
                            "canaries": self.all_canaries[before:],
                            "original": v,
                        }
                    )
            else:
                k = rng.choice(model.NEUTRAL_KEYS)
                if k in out:
                    continue
                r = rng.random()
                if depth >= maxdepth or r < 0.4:
                    out[k] = self.leaf()[0]
                elif r < 0.75:
                    out[k] = self.obj(depth + 1, maxdepth, [*path, k], [*via, "dict"], under_sensitive)
                else:
                    lst: list[Any] = []
                    for i in range(rng.choice([1, 2, 3])):
                        if depth + 1 <= maxdepth and rng.random() < 0.7:
                            lst.append(self.obj(depth + 1, maxdepth, [*path, k, i], [*via, "list"], under_sensitive))
                        else:
                            lst.append(self.leaf()[0])
                    out[k] = lst
        if not out:
            out[rng.choice(model.NEUTRAL_KEYS)] = self.leaf()[0]
        return out

    def _subtree_dict(self, depth: int, maxdepth: int) -> dict[str, Any]:
        # everything below a sensitive name belongs to its value: nothing in it is recorded separately
        saved = self.planted
        self.planted = []
        try:
            return self.obj(min(depth, maxdepth), maxdepth, [], [], under_sensitive=True)
        finally:
            self.planted = saved


def gen_claims(rng: random.Random) -> tuple[dict[str, Any], Gen]:
    g = Gen(rng)
    maxdepth = rng.choice([1, 2, 3, 4, 4])
    claims = g.obj(1, maxdepth, [], [])
    if not g.planted:
        k, w, variant = g.sensitive_key()
        before = len(g.all_canaries)
        v, vkind = g.leaf()
        claims[k] = v
        g.planted.append({"path": [k], "word": w, "variant": variant, "depth": 1, "via": "top", "vkind": vkind, "canaries": g.all_canaries[before:], "original": v})
    return claims, g


# ---------------------------------------------------------------------------
# judging one serialized record
# ---------------------------------------------------------------------------


def _navigate(obj: Any, path: list[Any]) -> tuple[bool, Any]:
    cur = obj
    for p in path:
        if isinstance(p, int):
            if not isinstance(cur, list) or p >= len(cur):
                return False, None
            cur = cur[p]
        else:
            if not isinstance(cur, dict) or p not in cur:
                return False, None
            cur = cur[p]
    return True, cur


def judge_default(line: str, logged_claims: Any, g: Gen) -> list[tuple[str, str, dict[str, Any]]]:
    """Return [(key, what, witness)] for one record produced with the default redactor."""
    out = []
    for p in g.planted:
        leaked = [c for c in p["canaries"] if c in line]
        where = "top_level" if p["depth"] == 1 else "nested"
        wit = {"path": p["path"], "word": p["word"], "variant": p["variant"], "depth": p["depth"], "leaked": leaked[:3]}
        if leaked:
            if where == "top_level":
                key = f"sensitive_value_leaked:top_level:{p['variant']}" + (f":word={p['word']}" if p["variant"] == "exact" else "")
            else:
                key = f"sensitive_value_leaked:nested:via={p['via']}"
            out.append((key, "value planted under a sensitive claim name occurs in the access-log line", wit))
        found, val = _navigate(logged_claims, p["path"])
        if not found:
            out.append((f"sensitive_key_not_visible:{where}", "sensitive claim name vanished from the record instead of being shown redacted", wit))
        elif not leaked and val == p["original"]:
            # cannot happen unless canaries are serialised differently; keep the monitor honest
            out.append((f"sensitive_value_unchanged:{where}", "value under a sensitive name is unchanged in the record", wit))
    return out


# ---------------------------------------------------------------------------
# shard
# ---------------------------------------------------------------------------


def _program() -> dict[str, Any]:
    return {
        "name": "ClaimSvc",
        "methods": [
            {"name": "u_ok", "kind": "unary", "params": [], "ret": ("int",), "u": {"logs": [], "act": ("return", 7)}},
            {"name": "u_err", "kind": "unary", "params": [], "ret": ("int",), "u": {"logs": [], "act": ("raise", "ValueError", "boom")}},
            {
                "name": "p",
                "kind": "producer",
                "params": [],
                "header": False,
                "out_cols": ["i"],
                "init": {"logs": [], "act": ("ok",)},
                "steps": [{"logs": [], "act": "emit"}, {"logs": [], "act": "emit_finish"}],
            },
            {
                "name": "x",
                "kind": "exchange",
                "params": [],
                "header": True,
                "out_cols": ["i"],
                "in_cols": ["i"],
                "init": {"logs": [], "act": ("ok",)},
                "steps": [{"logs": [], "act": "emit"}],
            },
        ],
        "calls": [],
    }


class _Capture(logging.Handler):
    def __init__(self) -> None:
        super().__init__()
        self.lines: list[str] = []

    def emit(self, record: logging.LogRecord) -> None:
        self.lines.append(self.format(record))


def run_shard(job: dict[str, Any]) -> dict[str, Any]:
    import warnings

    import pyarrow as pa

    from lib import svcgen
    from vgi_rpc import logging_utils
    from vgi_rpc.http import http_connect
    from vgi_rpc.http._testing import make_sync_client
    from vgi_rpc.rpc import AnnotatedBatch, AuthContext, RpcError, RpcServer

    warnings.simplefilter("ignore")
    chk = Check(PID, job["tier"], job["seed"])
    rng = random.Random(job["seed"])

    # the "claim redactor raised" warning goes to the vgi_rpc logger with a traceback: keep it quiet
    quiet = logging.getLogger("vgi_rpc")
    quiet.addHandler(logging.NullHandler())
    quiet.propagate = False

    cap = _Capture()
    cap.setFormatter(logging_utils.VgiAccessLogFormatter())
    access = logging.getLogger("vgi_rpc.access")
    access.addHandler(cap)
    access.setLevel(logging.INFO)
    access.propagate = False

    program = _program()
    proto, impl = svcgen.build(program)
    server = RpcServer(proto, impl)
    current: dict[str, Any] = {"claims": {}}

    def authenticate(req: Any) -> AuthContext:
        return AuthContext(domain="jwt", authenticated=True, principal="alice", claims=current["claims"])

    client = make_sync_client(server, authenticate=authenticate)

    def drive(proxy: Any, kind: str) -> None:
        if kind == "unary_ok":
            assert proxy.u_ok() == 7
        elif kind == "unary_err":
            try:
                proxy.u_err()
            except RpcError:
                pass
        elif kind == "producer":
            for ab in proxy.p():
                ab.release()
        else:
            sess = proxy.x()
            sess.exchange(AnnotatedBatch(batch=pa.RecordBatch.from_pydict({"i": [1]}, schema=svcgen.schema_of(["i"]))))
            sess.close()

    class Boom(Exception):
        pass

    def raiser_factory(kind: str) -> Any:
        def r(claims: Any) -> dict[str, object]:
            if kind == "ValueError":
                raise ValueError("redactor bug")
            if kind == "KeyError":
                raise KeyError(next(iter(claims)))
            if kind == "custom":
                raise Boom(str(dict(claims))[:40])
            if kind == "late":
                out = {}
                for k, v in claims.items():
                    out[k] = v
                raise RuntimeError("after copying")
            raise TypeError("x")

        return r

    try:
        with http_connect(proto, client=client) as proxy:
            for i in range(job["count"]):
                claims, g = gen_claims(rng)
                current["claims"] = claims
                kind = CALL_KINDS[i % len(CALL_KINDS)]
                raising = (i % 7) == 6
                # ---- direct function leg (default redactor only) -------------
                direct_keys: set[str] = set()
                if not raising:
                    red = logging_utils.apply_claim_redaction(claims)
                    dline = json.dumps(red, default=str)
                    chk.hit("direct_redaction_judged")
                    for key, what, wit in judge_default(dline, red, g):
                        direct_keys.add(key)
                        chk.violation(key, what, {**wit, "observed_at": "apply_claim_redaction", "claims": claims})
                # ---- real access-log leg ----------------------------------------
                cap.lines.clear()
                if raising:
                    rk = rng.choice(["ValueError", "KeyError", "custom", "late", "TypeError"])
                    logging_utils.set_claim_redactor(raiser_factory(rk))
                try:
                    drive(proxy, kind)
                finally:
                    if raising:
                        logging_utils.set_claim_redactor(logging_utils.redact_claims)
                lines = list(cap.lines)
                if not lines:
                    chk.skip(f"no_access_record:{kind}")
                    continue
                for line in lines:
                    rec = json.loads(line)
                    if raising:
                        chk.case(f"access:{kind}:raising_redactor")
                        chk.hit("raising_redactor_record_judged")
                        survivors = [c for c in g.all_canaries if c in line]
                        if survivors or rec.get("claims"):
                            chk.violation(
                                "raising_redactor_claims_survive",
                                "custom redactor raised but the record still carries claims",
                                {"call": kind, "survivors": survivors[:3], "claims_field": rec.get("claims"), "line": line[:600]},
                            )
                        continue
                    chk.hit("access_record_judged")
                    if "claims" not in rec:
                        chk.violation(
                            "claims_missing_from_record",
                            "authenticated call with non-empty claims produced a record without a claims object",
                            {"call": kind, "line": line[:600]},
                        )
                        continue
                    for p in g.planted:
                        chk.case(f"access:{kind}:d{p['depth']}:{p['via']}:{p['variant']}:{p['vkind']}")
                        chk.hit("planted_sensitive_name_checked")
                    for key, what, wit in judge_default(line, rec["claims"], g):
                        if key not in direct_keys:
                            key = key + "@access_path_only"
                        chk.violation(key, what, {**wit, "observed_at": f"access_log:{kind}", "claims": claims, "line": line[:800]})
                if i % 97 == 0 and lines:
                    chk.sample({"call": kind, "raising": raising, "claims": claims, "line": lines[0][:700]})
    finally:
        logging_utils.set_claim_redactor(logging_utils.redact_claims)
        access.removeHandler(cap)
    return chk.to_result()


def main(tier: str, seed: int) -> int:
    chk = Check(PID, tier, seed, level=CATEGORY, rule=RULE)
    chk.require("access_record_judged", "planted_sensitive_name_checked", "direct_redaction_judged", "raising_redactor_record_judged")
    chk.assumptions = [
        "reference list of sensitive names is lib/models/claims_redaction.py (from the statement and docs/access-log-spec.md)",
        "canaries are unique alphanumeric strings / 13-digit integers; occurrence is tested on the raw JSON line",
        "only the outermost sensitive name on a path is required to stay visible (its value, including inner names, is replaced)",
    ]
    n = shard.ncpu()
    total = 6000 if tier == "quick" else 160_000
    per = max(50, total // n)
    jobs = [{"tier": tier, "seed": seed * 7919 + i + 1, "count": per} for i in range(n)]
    for res in shard.pmap("checks.c35", "run_shard", jobs, timeout=300 if tier == "quick" else 1500):
        chk.merge(res)
    chk.exhaustive["claim_objects"] = False
    return chk.finish()

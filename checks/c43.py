"""C43 - XFCC identity extraction is injection-proof.

Headers are *generated as structure* (lib/models/xfcc.py: elements -> key/value pairs)
and rendered with the Envoy quoting rules; the oracle is that structure.  The real
``mtls_authenticate_xfcc`` callbacks (first / last, default identity / validate
callback) are invoked on a real ``falcon.Request`` and through the real WSGI app, and
the monitors compare

* the ``XfccElement`` handed to the ``validate`` callback with the selected generated
  element (all six fields),
* the default ``AuthContext`` (principal = Subject CN, claims) with the selected
  generated element, including the AuthContext the service method receives over HTTP,
* the number of elements (``_parse_xfcc``, when importable) with the generated count,
* reasons for missing / empty headers, and
* totality on arbitrary strings (only ``AuthFailure`` may be raised; never a 5xx).
"""

from __future__ import annotations

import random
from typing import Any

from lib import shard
from lib.evidence import Check

PID = "C43"
ENGINE = "E2-raw-drivers+E5-models+E6-evidence"
TECHNIQUE = "grammar-directed generation with the generator's structure as oracle; totality fuzz on arbitrary strings"
LEVEL_TEXT = (
    "Exploration: seeded grammar-directed XFCC headers (1-4 elements; quoted/unquoted values with embedded , ; = \\\" \\\\, "
    "URL-encoded Cert/URI/By, key-case variants, unknown keys, repeated DNS, injection-shaped payloads inside quoted values) are "
    "fed to the real authenticators; the extracted identity is compared field by field with the selected generated element. "
    "Arbitrary strings are checked for totality only. Held means no mismatch on the executions listed."
)
LEVEL_NOTE = (
    "generator structure is the oracle (no second parser); Envoy-literal backslashes (unescaped inside quotes) are compared modulo "
    "backslashes and skipped where the Envoy grammar itself is ambiguous; duplicate non-DNS keys not judged"
)
CATEGORY = "exploration"
RULE = (
    "case = generated header (elements x pairs x value kinds x quoting x separators) x select_element in {first,last} x "
    "path in {validate callback, default identity, HTTP app}; plus fixed missing/empty/whitespace headers and random strings; "
    "distinct class = (n elements, select, path, value-kind set of the selected element, subject shape, separator, backslash style)"
)

HDR = "x-forwarded-client-cert"


def _norm(v: Any) -> Any:
    return "" if v is None else v


def _strip_bs(v: Any) -> Any:
    if isinstance(v, str):
        return v.replace("\\", "")
    if isinstance(v, tuple):
        return tuple(x.replace("\\", "") for x in v)
    return v


def _literal_ambiguous(value: str) -> bool:
    """Envoy-literal rendering of this value is ambiguous in the Envoy grammar itself."""
    for i, c in enumerate(value):
        if c == "\\" and (i + 1 == len(value) or value[i + 1] in '"\\'):
            return True
    return False


def run_shard(job: dict[str, Any]) -> dict[str, Any]:
    import warnings

    import falcon
    import falcon.testing
    import pyarrow as pa

    from lib import httpdrv, svcgen
    from lib.models import xfcc
    from vgi_rpc.http import AuthFailure, AuthReason, make_wsgi_app, mtls_authenticate_xfcc
    from vgi_rpc.rpc import AuthContext, RpcServer

    try:
        from vgi_rpc.http._mtls import _parse_xfcc
    except ImportError:  # pragma: no cover - renamed mechanism
        _parse_xfcc = None  # type: ignore[assignment]

    warnings.simplefilter("ignore")
    chk = Check(PID, job["tier"], job["seed"])
    rng = random.Random(job["seed"])

    captured: list[Any] = []

    def validate(el: Any) -> Any:
        captured.append(el)
        return AuthContext(domain="mtls", authenticated=True, principal="from-validate")

    auths = {
        ("first", "validate"): mtls_authenticate_xfcc(validate=validate, select_element="first"),
        ("last", "validate"): mtls_authenticate_xfcc(validate=validate, select_element="last"),
        ("first", "default"): mtls_authenticate_xfcc(select_element="first"),
        ("last", "default"): mtls_authenticate_xfcc(select_element="last"),
    }

    # HTTP rigs: default identity, first / last
    program = {"name": "GenSvc", "methods": [{"name": "whoami", "kind": "unary", "params": [], "ret": ("int",), "u": {"logs": [], "act": ("return", 1)}}], "calls": []}
    rigs: dict[str, Any] = {}
    for sel in ("first", "last"):
        proto, impl = svcgen.build(program)
        seen: list[Any] = []

        def spy(name: str, kwargs: dict[str, Any], ctx: Any, _orig: Any = impl._unary, _seen: list[Any] = seen) -> Any:
            _seen.append(ctx.auth if ctx is not None else None)
            return _orig(name, kwargs, ctx)

        impl._unary = spy  # type: ignore[method-assign]
        app = make_wsgi_app(RpcServer(proto, impl), authenticate=mtls_authenticate_xfcc(select_element=sel), token_key=b"k" * 32)  # type: ignore[arg-type]
        rigs[sel] = (app, seen)
    body = httpdrv.request_body("whoami", pa.schema([]), None)

    def make_req(value: str | None) -> Any:
        env = falcon.testing.create_environ(path="/whoami", method="POST")
        if value is not None:
            env["HTTP_X_FORWARDED_CLIENT_CERT"] = value
        return falcon.Request(env)

    def call_auth(key: tuple[str, str], value: str | None) -> tuple[str, Any]:
        try:
            return "ok", auths[key](make_req(value))
        except AuthFailure as exc:
            return "failure", exc
        except BaseException as exc:  # noqa: BLE001
            return "raised", exc

    def http(sel: str, value: str | None) -> tuple[Any, Any]:
        app, seen = rigs[sel]
        n = len(seen)
        hs = [("Content-Type", httpdrv.ARROW_CT)]
        if value is not None:
            hs.append((HDR, value))
        r = httpdrv.call(app, "POST", "/whoami", hs, body)
        return r, (seen[-1] if len(seen) > n else None)

    # ------------------------------------------------------------------ fixed headers
    if job.get("fixed"):
        fixed = [
            (None, {"proxy_required"}, "missing"),
            ("", {"proxy_required", "invalid_credential"}, "zero-length"),
            (" ", {"invalid_credential"}, "whitespace"),
            ("   \t ", {"invalid_credential"}, "whitespace"),
            (",", {"invalid_credential"}, "commas"),
            (",,,", {"invalid_credential"}, "commas"),
            (" , ,  ,", {"invalid_credential"}, "commas+whitespace"),
        ]
        for value, want, shape in fixed:
            for key in auths:
                chk.case(f"fixed|{shape}|{key[0]}|{key[1]}")
                chk.hit("empty_or_missing_header")
                kind, res = call_auth(key, value)
                wit = {"header": value, "select": key[0], "path": key[1], "outcome": kind, "detail": repr(res)[:200]}
                if kind == "raised":
                    chk.violation(f"non_authfailure_exception:{type(res).__name__}", "an exception other than AuthFailure escaped the authenticator", wit)
                elif kind == "ok":
                    chk.violation(f"empty_header_accepted:{shape}", "a missing/empty header was accepted as authenticated", wit)
                elif res.reason.value not in want:
                    chk.violation(f"wrong_reason:{shape}:{res.reason.value}", f"reason {res.reason.value!r}, expected one of {sorted(want)}", wit)
            for sel in ("first", "last"):
                r, auth = http(sel, value)
                chk.case(f"fixed|{shape}|{sel}|http")
                wit = {"header": value, "select": sel, "status": r.status, "reason_header": r.header("VGI-Auth-Reason")}
                if r.status != 401 or auth is not None:
                    chk.violation(f"empty_header_accepted:{shape}", "HTTP: a missing/empty header did not produce a 401", wit)
                elif r.header("VGI-Auth-Reason") not in want:
                    chk.violation(f"wrong_reason:{shape}:{r.header('VGI-Auth-Reason')}", f"HTTP reason header, expected one of {sorted(want)}", wit)

    # ------------------------------------------------------------------ grammar cases
    for _ in range(job.get("grammar", 0)):
        elements, infos, sep = xfcc.gen_header(rng, hostile=rng.choice([0.0, 0.3, 0.6, 0.9]))
        header = xfcc.render(elements, sep)
        if len(header) > 60000:
            chk.skip("header_too_long")
            continue
        n = len(elements)
        literal = any(p.backslash_style == "literal" and "\\" in p.value and p.key not in xfcc.URLENC for e in elements for p in e.pairs)
        if literal and any(p.backslash_style == "literal" and p.key not in xfcc.URLENC and _literal_ambiguous(p.value) for e in elements for p in e.pairs):
            # still a totality case
            for key in auths:
                kind, res = call_auth(key, header)
                if kind == "raised":
                    chk.violation(f"non_authfailure_exception:{type(res).__name__}", "an exception other than AuthFailure escaped the authenticator", {"header": header})
            chk.skip("envoy_literal_backslash_before_quote_is_ambiguous_in_the_grammar")
            continue
        cmp = _strip_bs if literal else (lambda v: v)
        sepcls = "comma" if sep == "," else "comma+ows"
        base_wit = {"header": header, "generated": [[(p.spelling, p.value) for p in e.pairs] for e in elements], "n_elements": n}

        if _parse_xfcc is not None:
            chk.hit("element_count_compared")
            try:
                parsed = _parse_xfcc(header)
                if len(parsed) != n:
                    chk.violation(
                        "element_count_mismatch:" + ("merged" if len(parsed) < n else "split"),
                        f"_parse_xfcc returned {len(parsed)} elements for a header generated with {n}",
                        {**base_wit, "parsed": [repr(p) for p in parsed][:6]},
                    )
            except Exception as exc:  # noqa: BLE001
                chk.violation(f"non_authfailure_exception:{type(exc).__name__}", "_parse_xfcc raised on a grammatical header", base_wit)

        for sel in ("first", "last"):
            idx = 0 if sel == "first" else n - 1
            el, info = elements[idx], infos[idx]
            want = el.expected()
            dups = el.duplicate_keys()
            kinds = "+".join(sorted(info["value_kinds"])) or "none"
            cls_tail = f"n={n}|{sel}|kinds={kinds}|subj={info['subject_shape']}|{sepcls}|bs={'literal' if literal else 'escaped'}"

            # (a) validate callback sees the selected element
            chk.case("grammar|validate|" + cls_tail)
            captured.clear()
            kind, res = call_auth((sel, "validate"), header)
            wit = {**base_wit, "select": sel, "expected": want}
            if kind != "ok" or len(captured) != 1:
                key = f"non_authfailure_exception:{type(res).__name__}" if kind == "raised" else "grammatical_header_rejected"
                chk.violation(key, "a grammatical header was not accepted / validate not called exactly once", {**wit, "outcome": kind, "detail": repr(res)[:200]})
            else:
                chk.hit("selected_element_compared")
                got_el = captured[0]
                got = {f: getattr(got_el, f, None) for f in ("hash", "cert", "subject", "uri", "by", "dns")}
                for f in ("hash", "cert", "subject", "uri", "by", "dns"):
                    if f in dups:
                        chk.skip("duplicate_non_dns_key_not_judged")
                        continue
                    g, w = got[f], want[f]
                    if f == "dns":
                        g = tuple(g or ())
                    if cmp(_norm(g)) != cmp(_norm(w)):
                        other = [j for j, e2 in enumerate(elements) if j != idx and cmp(_norm(e2.expected()[f])) == cmp(_norm(g)) and _norm(g) != ""]
                        origin = "from_other_element" if other else "corrupted"
                        chk.violation(
                            f"selected_element_field_mismatch:{origin}",
                            f"field {f!r} handed to validate() differs from the selected generated element",
                            {**wit, "got": got, "value_kinds": kinds, "field": f},
                        )

            # (b) default identity
            chk.case("grammar|default|" + cls_tail)
            kind, res = call_auth((sel, "default"), header)
            r, http_auth = http(sel, header)
            for path, k2, a in (("direct", kind, res if kind == "ok" else None), ("http", "ok" if http_auth is not None else "failure", http_auth)):
                if path == "http" and (r.status >= 500 or r.exc is not None):
                    chk.violation("http_5xx_on_grammatical_header", "the app answered 5xx for a grammatical XFCC header", {**wit, "status": r.status})
                    continue
                if k2 != "ok" or a is None:
                    key = f"non_authfailure_exception:{type(res).__name__}" if (path == "direct" and kind == "raised") else "grammatical_header_rejected"
                    chk.violation(key, f"{path}: a grammatical header was not accepted", {**wit, "outcome": k2, "status": r.status if path == "http" else None})
                    continue
                chk.hit("default_identity_compared" if path == "direct" else "http_identity_compared")
                claims = dict(a.claims)
                exp_claims: dict[str, Any] = {}
                for f in ("hash", "subject", "uri", "by"):
                    if want[f] and f not in dups:
                        exp_claims[f] = want[f]
                if want["dns"]:
                    exp_claims["dns"] = list(want["dns"])
                got_claims = {k: (list(v) if k == "dns" else v) for k, v in claims.items() if k not in dups}
                c2 = (lambda d: {k: ([x.replace("\\", "") for x in v] if isinstance(v, list) else v.replace("\\", "")) for k, v in d.items()}) if literal else (lambda d: d)
                if c2(got_claims) != c2(exp_claims) or a.domain != "mtls" or a.authenticated is not True:
                    chk.violation(
                        "default_claims_mismatch",
                        f"{path}: claims/domain of the default AuthContext differ from the selected generated element",
                        {**wit, "got_claims": got_claims, "expected_claims": exp_claims, "domain": a.domain, "authenticated": a.authenticated},
                    )
                # principal
                cn = info["cn"]
                shape = info["subject_shape"]
                if "subject" in dups:
                    continue
                if shape in ("none", "no-cn"):
                    if a.principal not in ("", None):
                        chk.violation("principal_without_cn", f"{path}: principal {a.principal!r} although the selected element has no CN", {**wit, "principal": a.principal})
                elif shape == "simple":
                    chk.hit("principal_compared")
                    if a.principal != cn:
                        other_cns = [i2["cn"] for j, i2 in enumerate(infos) if j != idx and i2["cn"]]
                        origin = "from_other_element" if a.principal in other_cns else "corrupted"
                        chk.violation(f"principal_mismatch:{origin}", f"{path}: principal differs from the CN of the selected element's Subject", {**wit, "principal": a.principal, "expected_cn": cn})
                else:
                    # escaped DN values: the statement does not say whether the principal is the raw or the unescaped CN;
                    # only require that it comes from the selected element's subject
                    subj = want["subject"] or ""
                    if a.principal and cmp(a.principal) not in cmp(subj) and a.principal.replace("\\", "") not in subj.replace("\\", ""):
                        chk.violation("principal_mismatch:not_from_selected_subject", f"{path}: principal is not a substring of the selected element's Subject", {**wit, "principal": a.principal})
                    else:
                        chk.skip("escaped_dn_principal_form_not_judged")
        if rng.random() < 0.004:
            chk.sample({"header": header, "n": n, "selected_first": elements[0].expected(), "selected_last": elements[-1].expected()})

    # ------------------------------------------------------------------ arbitrary strings (totality only)
    alpha = list('abCN=,;"\\ %') + ['"', "\\", ",", ";", "=", "é", "\t", "%2C", "Subject=", "Hash=", 'URI="', "\x7f", "\x00"]
    for _ in range(job.get("arbitrary", 0)):
        n = rng.choice([1, 2, 3, 5, 8, 20, 60, 300])
        s = "".join(rng.choice(alpha) for _ in range(n))
        if rng.random() < 0.1:
            s = "".join(chr(rng.randrange(1, 0x2FF)) for _ in range(n))
        shape = ("quote" if '"' in s else "") + ("bs" if "\\" in s else "") + ("eq" if "=" in s else "") or "plain"
        for key in auths:
            chk.case(f"arbitrary|{key[0]}|{key[1]}|{shape}|len<{10 if n < 10 else 100 if n < 100 else 1000}")
            chk.hit("arbitrary_string_totality")
            kind, res = call_auth(key, s)
            if kind == "raised":
                chk.violation(f"non_authfailure_exception:{type(res).__name__}", "an exception other than AuthFailure escaped the authenticator on an arbitrary header", {"header": s, "select": key[0], "path": key[1], "exc": repr(res)[:200]})
            elif kind == "ok" and key[1] == "default" and not dict(res.claims) and not res.principal:
                chk.hit("arbitrary_string_accepted_with_empty_identity_recorded")
            elif kind == "failure" and res.reason not in (AuthReason.INVALID_CREDENTIAL, AuthReason.PROXY_REQUIRED):
                chk.violation(f"wrong_reason:arbitrary:{res.reason.value}", "arbitrary header rejected with a reason outside {invalid_credential, proxy_required}", {"header": s})
        if "\x00" not in s and "\n" not in s and "\r" not in s:
            r, _a = http(rng.choice(["first", "last"]), s)
            chk.hit("arbitrary_string_http")
            if r.status >= 500 or r.exc is not None:
                chk.violation("http_5xx_on_arbitrary_header", "the app answered 5xx / raised for an arbitrary XFCC header", {"header": s, "status": r.status, "exc": repr(r.exc)[:200]})
    return chk.to_result()


def _run(tier: str, seed: int) -> Check:
    chk = Check(PID, tier, seed, level=CATEGORY, rule=RULE)
    chk.require(
        "selected_element_compared",
        "default_identity_compared",
        "http_identity_compared",
        "principal_compared",
        "empty_or_missing_header",
        "arbitrary_string_totality",
    )
    chk.assumptions = [
        "the generator's structure is the oracle; rendering follows the Envoy XFCC grammar (DQUOTE escaped as backslash-DQUOTE; backslash as double backslash)",
        "Envoy-literal backslashes are compared modulo backslashes; values where that rendering is ambiguous in the grammar are totality-only",
        "zero-length header value: proxy_required and invalid_credential both accepted; ';'-only / '='-less strings are arbitrary strings (totality only)",
        "None and '' are treated as the same field value",
    ]
    g = 2500 if tier == "quick" else 200000
    a = 1500 if tier == "quick" else 60000
    nj = 8 if tier == "quick" else 32  # fixed shard count: results do not depend on the worker count
    jobs = [
        {"tier": tier, "seed": seed * 1000 + i, "fixed": i == 0, "grammar": g // nj + 1, "arbitrary": a // nj + 1}
        for i in range(nj)
    ]
    for res in shard.pmap("checks.c43", "run_shard", jobs, timeout=600 if tier == "quick" else 2400):
        chk.merge(res)
    chk.exhaustive["fixed missing/empty headers"] = True
    chk.exhaustive["grammar-generated headers"] = False
    chk.exhaustive["arbitrary strings"] = False
    return chk


def main(tier: str, seed: int) -> int:
    return _run(tier, seed).finish()


def replay(path: str) -> int:
    """Re-execute the run (tier, seed) recorded in a replay file; the recorded mechanism key must fire again."""
    import json

    with open(path) as fh:
        rec = json.load(fh)
    chk = _run(rec["tier"], int(rec["seed"]))
    v = chk.violations.get(rec["key"])
    if v is not None:
        print(f"VIOLATION property={PID} replay={path}")
        print(f"  key={rec['key']}: reproduced ({v['count']}x): {v['what']}")
        return 1
    print(f"INCONCLUSIVE property={PID} reason=replay of {rec['key']} did not reproduce (other keys: {sorted(chk.violations)})")
    return 2

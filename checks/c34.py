"""C34 - access logs record every dispatched call exactly once, schema-valid.

Runtime monitoring: generated programs (lib.svcgen) are run over HTTP (in-process WSGI,
x max_response_bytes x compression x access-log level) and over the socket family
(pipe / unix / tcp / shm, one fresh connection per call) while a handler on the
``vgi_rpc.access`` logger captures every record *through the real*
``VgiAccessLogFormatter`` (the final JSON line).  Oracle, from docs/access-log-spec.md,
``access_log.schema.json`` and the property statement:

* per dispatched call (HTTP: per POST - unary, init, producer continuation, exchange turn,
  cancel; sockets: per call) exactly one record, joined on the request id the harness
  injects (HTTP) or on the per-connection window (sockets);
* every record is one JSON line that validates against the published schema (jsonschema)
  and the repository's own ``access_log_conformance`` helper;
* ``status`` matches the outcome observed at the client boundary (HTTP: an EXCEPTION batch
  in the decoded response body; sockets: an error event in the client trace);
* all records of one stream call share one ``stream_id``;
* ``error_message`` equals the full server-side message (the ``exception_message`` the
  server put on the wire / the text after ``<Type>: `` in the client's RpcError).
"""

from __future__ import annotations

import base64
import json
import pickle
import random
import threading
from typing import Any

from lib import shard
from lib.evidence import Check

PID = "C34"
ENGINE = "E1-svcgen-rig+E2-raw-drivers"
TECHNIQUE = "log capture through the real formatter + per-dispatch join with the client/HTTP boundary history; JSON-schema and conformance-helper validation"
LEVEL_TEXT = (
    "Exploration: generated programs with exceptions whose texts are empty, whitespace, multi-line, non-ASCII, 500/501, "
    "3 000, 100 000 and >1 MiB characters, cancels, partial consumption and response-cap overshoots are run over HTTP "
    "(x cap {none,tiny,large} x compression {off,zstd} x access level {INFO,DEBUG} x call-state cache {default, disabled}) and pipe/unix/tcp/shm; every "
    "dispatched call is joined with the access records captured through VgiAccessLogFormatter and judged for count, "
    "schema validity, status, stream_id sharing and full error_message. Held means no counterexample among the joined "
    "dispatches listed in the evidence."
)
LEVEL_NOTE = (
    "jsonschema and the repo's schema file are trusted as the published schema; the socket family emits one record per "
    "call (a stream is one dispatch there) and is judged that way; the `cancelled` flag and the status of cancel records "
    "are recorded, not judged (spec and statement disagree); subprocess workers are not observed (their logger lives in "
    "another process)"
)
CATEGORY = "exploration"
RULE = (
    "case = one dispatched call (HTTP POST or socket call) joined with its access records; distinct class = "
    "(transport family, dispatch kind, outcome, exception-text class, access level, cap class)"
)

MESSAGES: list[tuple[str, str]] = [
    ("empty", ""),
    ("short", "boom"),
    ("space", " "),
    ("multiline", "multi\nline\r\nmsg\n"),
    ("unicode", "üni ¢ode   sep 😀"),
    ("len500", "a" * 500),
    ("len501", "b" * 501),
    ("len3000", "x" * 3000),
    ("len100k", "y" * 100_000),
    ("quotes", "with 'quotes' \"dq\" \\ backslash"),
]
CALL_TIMEOUT = 90.0


def msg_class(text: str | None) -> str:
    if text is None:
        return "none"
    if text == "":
        return "empty"
    if len(text) > 1_000_000:
        return "gt1MiB"
    if len(text) > 500:
        return "gt500"
    if "\n" in text:
        return "multiline"
    if not text.isascii():
        return "nonascii"
    return "short"


# ---------------------------------------------------------------------------
# workload
# ---------------------------------------------------------------------------


def _retext(program: dict[str, Any], rng: random.Random) -> None:
    """Replace every scripted exception text by one from MESSAGES (biased to the interesting ones)."""

    def pick() -> str:
        return rng.choice(MESSAGES)[1]

    for m in program["methods"]:
        if m["kind"] == "unary":
            a = m["u"]["act"]
            if a[0] == "raise":
                m["u"]["act"] = ("raise", a[1], pick())
        else:
            a = m["init"]["act"]
            if a[0] == "raise":
                m["init"]["act"] = ("raise", a[1], pick())
            for st in m["steps"]:
                if st["act"] == "raise":
                    st["exc"] = (st["exc"][0], pick())


def shape_programs() -> list[dict[str, Any]]:
    from checks.c01 import _E, _F, _L, _R, _X, _exch, _prod
    from lib import svcgen

    progs: list[dict[str, Any]] = []
    ins = [svcgen.make_rows("in", k, r, ["i"]) for k, r in enumerate([1, 0, 3, 2])]
    types = ["ValueError", "RuntimeError", "KindError", "UserBoom", "KeyError", "ArrowInvalid", "ZeroDivisionError", "TypeError", "PermissionError", "MethodNotImplementedError"]
    # every exception text at every dispatch site
    for i, (tag, text) in enumerate(MESSAGES):
        typ = types[i % len(types)]
        methods = [
            {"name": "u0", "kind": "unary", "params": [("p0", ("int",))], "ret": ("int",), "u": {"logs": _L("l"), "act": ("raise", typ, text)}},
            {"name": "u1", "kind": "unary", "params": [], "ret": ("str",), "u": {"logs": [], "act": ("return", "ok")}},
            _prod("pi", [_E()], header=True, init={"logs": _L("i"), "act": ("raise", typ, text)}),
            _prod("p0", [_R(text, typ)], header=True),
            _prod("p2", [_E(), _E(2), _R(text, typ, _L("pre"))]),
            _exch("ei", [_E()], header=True, init={"logs": [], "act": ("raise", typ, text)}),
            _exch("e1", [_E(), _R(text, typ)]),
        ]
        calls = [
            {"m": "u1", "args": {}},
            {"m": "u0", "args": {"p0": 1}},
            {"m": "pi", "args": {}, "take": None},
            {"m": "p0", "args": {}, "take": None},
            {"m": "p2", "args": {}, "take": None},
            {"m": "p2", "args": {}, "take": 1, "end": "cancel"},
            {"m": "ei", "args": {}, "inputs": ins[:1], "end": "close"},
            {"m": "e1", "args": {}, "inputs": ins[:3], "end": "close"},
            {"m": "e1", "args": {}, "inputs": ins[:1], "end": "cancel"},
            {"m": "u1", "args": {}},
        ]
        progs.append({"name": "GenSvc", "tag": f"texts:{tag}", "methods": methods, "calls": calls})
    # cancels, partial consumption, many continuations, finish shapes
    progs.append(
        {
            "name": "GenSvc",
            "tag": "lifecycle",
            "methods": [
                _prod("p0", [_E(3, _L(f"s{i}"), None, 300) for i in range(6)] + [_F(_L("done"))], header=True),
                _prod("p1", [_X(2, _L("x"))]),
                _prod("p2", []),
                _exch("e0", [_E(logs=_L("t"))], header=True, init={"logs": _L("xi"), "act": ("ok",)}),
            ],
            "calls": [
                {"m": "p0", "args": {}, "take": None},
                {"m": "p0", "args": {}, "take": 2, "end": "cancel"},
                {"m": "p0", "args": {}, "take": 3, "end": "close"},
                {"m": "p0", "args": {}, "take": 0, "end": "cancel"},
                {"m": "p1", "args": {}, "take": None},
                {"m": "p2", "args": {}, "take": None},
                {"m": "e0", "args": {}, "inputs": ins, "end": "close"},
                {"m": "e0", "args": {}, "inputs": ins[:2], "end": "cancel"},
                {"m": "e0", "args": {}, "inputs": [], "end": "cancel"},
                {"m": "e0", "args": {}, "inputs": [], "end": "close"},
            ],
        }
    )
    # cap overshoots: responses larger than any tiny cap, smaller than the large one
    progs.append(
        {
            "name": "GenSvc",
            "tag": "cap_overshoot",
            "methods": [
                {"name": "u0", "kind": "unary", "params": [], "ret": ("str",), "u": {"logs": _L("big" * 100), "act": ("return", "z" * 5000)}},
                _exch("e0", [_E(logs=_L("q" * 3000))], cols=["s", "i"]),
                _prod("p0", [_E(4, None, None, 2000) for _ in range(3)] + [_F()]),
            ],
            "calls": [
                {"m": "u0", "args": {}},
                {"m": "e0", "args": {}, "inputs": [svcgen.make_rows("in", 0, 3, ["s", "i"], 800)], "end": "close"},
                {"m": "p0", "args": {}, "take": None},
            ],
        }
    )
    return progs


def huge_program() -> dict[str, Any]:
    """An exception text larger than the formatter's default 1 MiB per-record cap (socket family only: HTTP cuts at 500)."""
    from checks.c01 import _E, _R, _prod

    text = "H" * 1_200_000
    return {
        "name": "GenSvc",
        "tag": "texts:gt1MiB",
        "huge": True,
        "methods": [
            {"name": "u0", "kind": "unary", "params": [], "ret": ("int",), "u": {"logs": [], "act": ("raise", "ValueError", text)}},
            _prod("p0", [_E(), _R(text, "RuntimeError")], header=True),
        ],
        "calls": [{"m": "u0", "args": {}}, {"m": "p0", "args": {}, "take": None}],
    }


def gen_programs(seed: int, n: int) -> list[dict[str, Any]]:
    from lib import svcgen

    rng = random.Random(f"C34:{seed}")
    out = []
    for i in range(n):
        p = svcgen.gen_program(rng)
        _retext(p, rng)
        p["tag"] = f"gen{i}"
        out.append(p)
    return out


# ---------------------------------------------------------------------------
# capture
# ---------------------------------------------------------------------------


class Capture:
    """Handlers on vgi_rpc.access (through the real formatter) and vgi_rpc.rpc (server-side exceptions)."""

    def __init__(self) -> None:
        import logging

        from vgi_rpc.logging_utils import VgiAccessLogFormatter

        self.lines: list[str] = []
        self.server_errors: list[tuple[str, str, str, str]] = []  # (request_id, method, type, str(exc))
        self.lock = threading.Lock()
        cap = self

        class AccessHandler(logging.Handler):
            def emit(self, record: logging.LogRecord) -> None:
                try:
                    line = self.format(record)
                except Exception as exc:  # noqa: BLE001 - a formatter crash loses the record; make it visible
                    line = "FORMATTER-RAISED " + type(exc).__name__
                with cap.lock:
                    cap.lines.append(line)

        class ErrHandler(logging.Handler):
            def emit(self, record: logging.LogRecord) -> None:
                args = record.args
                if isinstance(args, tuple) and len(args) == 3 and isinstance(args[2], BaseException):
                    with cap.lock:
                        cap.server_errors.append((str(getattr(record, "request_id", "")), str(args[1]), type(args[2]).__name__, str(args[2])))

        self.access_logger = logging.getLogger("vgi_rpc.access")
        self.handler = AccessHandler()
        self.handler.setFormatter(VgiAccessLogFormatter())
        self.access_logger.addHandler(self.handler)
        self.access_logger.propagate = False
        top = logging.getLogger("vgi_rpc")
        top.propagate = False
        top.addHandler(logging.NullHandler())
        rl = logging.getLogger("vgi_rpc.rpc")
        rl.setLevel(logging.ERROR)
        rl.addHandler(ErrHandler())

    def set_level(self, name: str) -> None:
        import logging

        self.access_logger.setLevel(getattr(logging, name))

    def mark(self) -> int:
        with self.lock:
            return len(self.lines)

    def since(self, start: int) -> list[str]:
        with self.lock:
            return list(self.lines[start:])


# ---------------------------------------------------------------------------
# judging
# ---------------------------------------------------------------------------

_validator: list[Any] = []


def schema_errors(entry: dict[str, Any]) -> list[tuple[str, str]]:
    """[(mechanism path, message)] from the published schema (Draft 2020-12)."""
    import jsonschema

    from vgi_rpc.access_log_conformance import _load_schema

    if not _validator:
        _validator.append(jsonschema.Draft202012Validator(_load_schema()))
    out = []
    for err in _validator[0].iter_errors(entry):
        sp = "/".join(str(p) for p in err.absolute_schema_path)
        if err.validator == "required":
            missing = [r for r in err.validator_value if r not in entry]
            sp += "[" + ",".join(missing) + "]"
        out.append((sp, err.message[:160]))
    return out


def judge_record(
    chk: Check,
    line: str,
    *,
    fam: str,
    what: str,
    method: str,
    observed: dict[str, Any] | None,
    level: str,
    witness: dict[str, Any],
) -> dict[str, Any] | None:
    """Validate one record line against the schema / helper / observed outcome; returns the parsed record."""
    from vgi_rpc.access_log_conformance import validate_access_logs

    w = dict(witness)
    w["record_head"] = line[:600]
    if "\n" in line or "\r" in line:
        chk.violation(f"record_not_single_line:{fam}:{what}", "the formatted access record contains a literal line break", w)
    try:
        rec = json.loads(line)
    except ValueError:
        chk.violation(f"record_not_json:{fam}:{what}", "the formatted access record is not parseable JSON", w)
        return None
    if not isinstance(rec, dict):
        chk.violation(f"record_not_json:{fam}:{what}", "the formatted access record is not a JSON object", w)
        return None
    chk.hit("record_schema_validated")
    obs_text = (observed.get("message") if observed.get("message") is not None else observed.get("server_text")) if observed else None
    sentinel = rec.get("truncated") == "record_too_large"
    for sp, message in schema_errors(rec):
        cause = f"exception_text={msg_class(obs_text)}" + (":sentinel_record" if sentinel else "")
        chk.violation(f"schema:{sp}:{cause}", f"access record fails access_log.schema.json: {message}", w)
    helper = validate_access_logs([rec])
    for v in helper:
        if v.path == "request_data":
            chk.violation(f"conformance_helper:request_data:{fam}:{what}", f"access_log_conformance rejects request_data: {v.message[:160]}", w)
    chk.hit("conformance_helper_ran")
    if "request_data" in rec:
        chk.hit("request_data_roundtrip_checked")
    if rec.get("truncated") is True:
        chk.hit("formatter_truncated_record")
    if sentinel:
        chk.hit("formatter_sentinel_record")

    # identity of the dispatch
    if rec.get("method") != method:
        chk.violation(f"record_wrong_method:{fam}:{what}", "the joined record names another method", w)
    want_type = "unary" if what == "unary" else "stream"
    if rec.get("method_type") != want_type:
        chk.violation(f"record_wrong_method_type:{fam}:{what}", f"method_type is {rec.get('method_type')!r}, expected {want_type!r}", w)

    # status vs. observed outcome
    if what == "cancel":
        chk.skip("cancel_status_and_flag_recorded_not_judged")
        if rec.get("cancelled") is True:
            chk.hit("cancel_record_has_cancelled_flag")
    elif observed is not None and observed.get("unobservable"):
        chk.skip(observed["unobservable"])
    else:
        want = "error" if observed else "ok"
        chk.hit("status_compared")
        if rec.get("status") != want:
            chk.violation(
                f"status_mismatch:{fam}:{what}:record={rec.get('status')},observed={want}",
                f"record status {rec.get('status')!r} but the client boundary observed {want!r}",
                w,
            )
        elif observed:
            chk.hit("error_status_compared")
            if rec.get("error_type") != observed.get("type"):
                chk.violation(f"error_type_mismatch:{fam}:{what}", f"record error_type {rec.get('error_type')!r} but the client saw {observed.get('type')!r}", w)
            full = observed.get("message")
            got = rec.get("error_message")
            if full is not None and got is not None:
                chk.hit("error_message_compared")
                if full == "":
                    # empty server-side text: the statement asks for a NON-empty error_message all the same,
                    # so the "equals the full text" clause cannot apply; any non-empty value is accepted
                    # (an empty or missing one is reported by the schema monitor above)
                    chk.skip("empty_server_text:any_nonempty_error_message_accepted")
                elif got != full:
                    if got == full[:500] and len(full) > 500:
                        how = "truncated_to_500_chars"
                    elif full.startswith(got):
                        how = "truncated"
                    elif sentinel:
                        how = "replaced_in_sentinel_record"
                    else:
                        how = "different_text"
                    chk.violation(
                        f"error_message_not_full:{fam}:{how}",
                        f"error_message ({len(got)} chars) is not the full server-side message ({len(full)} chars)",
                        {**w, "record_error_message_len": len(got), "server_message_len": len(full), "server_message_head": full[:80]},
                    )
            elif got is None and full:
                # non-empty server text but no error_message: the schema error above names the mechanism;
                # nothing more to add here.
                pass
    return rec


class Monitors:
    def __init__(self) -> None:
        self.c: dict[str, int] = {}

    def hit(self, k: str, n: int = 1) -> None:
        self.c[k] = self.c.get(k, 0) + n


def _decode(body: bytes, enc: str) -> bytes:
    enc = (enc or "").strip().lower()
    if enc in ("", "identity"):
        return body
    if enc == "zstd":
        import io

        import zstandard

        return zstandard.ZstdDecompressor().stream_reader(io.BytesIO(body)).read()
    if enc == "gzip":
        import zlib

        return zlib.decompress(body, 31)
    raise ValueError(enc)


def _observed_http_error(res: Any) -> dict[str, Any] | None:
    """The EXCEPTION batch of a decoded HTTP response body, if any: {type, message}."""
    from lib import httpdrv

    body = _decode(res.content, res.headers.get("content-encoding") or res.headers.get("x-vgi-content-encoding") or "")
    if not body:
        return None
    for stream in httpdrv.parse_ipc_multi(body):
        err = httpdrv.error_of(stream)
        if err is not None:
            return {"type": err["type"], "message": err["extra"].get("exception_message"), "summary": err["message"][:120]}
    return None


def run_http(chk: Check, cap: Capture, program: dict[str, Any], cfg: dict[str, Any], level: str) -> None:
    from lib import httpdrv, rig

    methods = {m["name"]: m for m in program["methods"]}
    posts: list[dict[str, Any]] = []
    state = {"call": -1, "n": 0}
    fam = "http"
    logs: list[Any] = []
    cap.set_level(level)
    start = cap.mark()
    rcfg = {k: v for k, v in cfg.items() if k not in ("cap", "comp")}
    with rig.open_transport(program, rcfg, lambda m: logs.append(rig.norm_log(m))) as (proxy, impl):
        tc = impl._http_client._client
        orig = tc.simulate_post

        def simulate_post(path: str, **kw: Any) -> Any:
            state["n"] += 1
            rid = f"c34-{id(tc) & 0xFFFF:x}-{state['n']}"
            hdrs = dict(kw.get("headers") or {})
            hdrs["X-Request-ID"] = rid
            kw["headers"] = hdrs
            res = orig(path, **kw)
            parts = path.strip("/").split("/")
            mname = parts[0]
            what = "unary"
            if len(parts) > 1 and parts[1] == "init":
                what = "init"
            elif len(parts) > 1 and parts[1] == "exchange":
                what = "exchange" if methods[mname]["kind"] == "exchange" else "continuation"
                try:
                    req = _decode(kw.get("body") or b"", hdrs.get("Content-Encoding", ""))
                    md = httpdrv.parse_ipc(req)[0][1]
                    if "vgi_rpc.cancel" in md:
                        what = "cancel"
                except Exception:  # noqa: BLE001
                    chk.skip("request_body_not_parsed")
            try:
                observed = _observed_http_error(res)
            except Exception as exc:  # noqa: BLE001
                observed = {"unobservable": f"response_body_not_parsed:{type(exc).__name__}"}
            posts.append(
                {
                    "rid": rid,
                    "call": state["call"],
                    "method": mname,
                    "what": what,
                    "http_status": res.status_code,
                    "error_header": res.headers.get("x-vgi-rpc-error"),
                    "echoed_rid": res.headers.get("x-request-id"),
                    "observed": observed,
                    "enc": res.headers.get("content-encoding"),
                }
            )
            return res

        tc.simulate_post = simulate_post
        for ci, call in enumerate(program["calls"]):
            state["call"] = ci
            rig.run_calls(proxy, program, collect_log=logs, calls=[call])
    lines = cap.since(start)
    by_rid: dict[str, list[str]] = {}
    orphans = 0
    for ln in lines:
        try:
            rid = json.loads(ln).get("request_id")
        except ValueError:
            rid = None
        if rid is None or not any(p["rid"] == rid for p in posts):
            orphans += 1
            continue
        by_rid.setdefault(rid, []).append(ln)
    if orphans:
        chk.violation("record_count:http:record_without_a_dispatch", "access records whose request_id matches no request of the workload", {"tag": program.get("tag"), "orphans": orphans, "cfg": cfg.get("label")})
    stream_ids: dict[int, set[str]] = {}
    for p in posts:
        call = program["calls"][p["call"]]
        m = methods[p["method"]]
        if p["http_status"] in (400, 401, 403, 404, 413, 415):
            chk.skip(f"http_{p['http_status']}_not_a_dispatch")
            continue
        if p["enc"]:
            chk.hit(f"http_response_{p['enc']}")
        obs = p["observed"]
        outcome = "cancel" if p["what"] == "cancel" else ("error" if obs and not obs.get("unobservable") else "ok")
        text_cls = msg_class(obs.get("message")) if obs and not obs.get("unobservable") else "none"
        capped = obs is not None and "exceeds max_response_bytes" in str(obs.get("message"))
        chk.case(f"{fam}|{p['what']}|{outcome}{'(cap)' if capped else ''}|text={text_cls}|{level}|cap={cfg.get('cap')}|comp={cfg.get('comp')}|hdr={'H' if m.get('header') else '-'}")
        if capped:
            chk.hit("cap_overshoot_dispatch_judged")
        if p["what"] in ("continuation", "exchange", "cancel"):
            chk.hit(f"http_{p['what']}_dispatch_judged")
        w = {"tag": program.get("tag"), "cfg": cfg.get("label"), "access_level": level, "post": {k: v for k, v in p.items() if k != "observed"}, "observed": None if not obs else {k: (v if not isinstance(v, str) else v[:120]) for k, v in obs.items()}, "call": _trim(call)}
        recs = by_rid.get(p["rid"], [])
        chk.hit("dispatch_joined")
        if len(recs) != 1:
            chk.violation(
                f"record_count:{fam}:{p['what']}:{'none' if not recs else 'more_than_one'}",
                f"{len(recs)} access records for one dispatched {p['what']} request (expected exactly 1)",
                {**w, "records": [r[:300] for r in recs[:3]]},
            )
        for ln in recs:
            rec = judge_record(chk, ln, fam=fam, what=p["what"], method=p["method"], observed=obs, level=level, witness=w)
            if rec is not None and m["kind"] != "unary" and isinstance(rec.get("stream_id"), str):
                stream_ids.setdefault(p["call"], set()).add(rec["stream_id"])
    by_call_posts: dict[int, int] = {}
    for p in posts:
        by_call_posts[p["call"]] = by_call_posts.get(p["call"], 0) + 1
    for ci, sids in stream_ids.items():
        if by_call_posts.get(ci, 0) > 1:
            chk.hit("stream_id_sharing_compared")
        if len(sids) > 1:
            chk.violation(
                "stream_id_not_shared:http",
                "records of one stream call carry different stream_id values",
                {"tag": program.get("tag"), "cfg": cfg.get("label"), "call": _trim(program["calls"][ci]), "stream_ids": sorted(sids), "posts": by_call_posts.get(ci)},
            )


def run_socket(chk: Check, cap: Capture, program: dict[str, Any], cfg: dict[str, Any], level: str) -> None:
    from lib import rig

    methods = {m["name"]: m for m in program["methods"]}
    fam = "socket"
    cap.set_level(level)
    for call in program["calls"]:
        m = methods[call["m"]]
        logs: list[Any] = []
        start = cap.mark()
        nerr = len(cap.server_errors)
        with rig.open_transport(program, cfg, lambda msg: logs.append(rig.norm_log(msg))) as (proxy, impl):
            trace = rig.run_calls(proxy, program, collect_log=logs, calls=[call])[0]
            dispatched = any(e[0] in ("unary", "init") and e[1] == call["m"] for e in impl.inv)
        # open_transport joined the serve thread (5 s cap): every record of this connection has normally been
        # emitted.  Under heavy load the join may time out, so wait for the logical event (a record arriving)
        # before judging "none"; the generous deadline is only a watchdog.
        lines = cap.since(start)
        if not lines and dispatched:
            import time

            deadline = time.monotonic() + 30.0
            while not lines and time.monotonic() < deadline:
                time.sleep(0.02)
                lines = cap.since(start)
            if lines:
                chk.hit("socket_record_arrived_after_wait")
        if not dispatched:
            chk.skip("socket_call_not_dispatched")
            continue
        what = "unary" if m["kind"] == "unary" else "stream"
        err_ev = next((e for e in trace if e[0] == "error"), None)
        cancelled = any(e[0] == "cancelled" for e in trace)
        server_errs = cap.server_errors[nerr:]
        observed: dict[str, Any] | None = None
        if err_ev is not None:
            etype, emsg = err_ev[1], err_ev[2] or ""
            full = emsg[len(etype) + 2 :] if emsg.startswith(f"{etype}: ") else None
            observed = {"type": etype, "message": full}
        elif server_errs and m["kind"] != "unary":
            # the server failed (init error on a header-less stream) but the client never read the reply
            # (the text of the server-side exception, from the vgi_rpc.rpc error log, still names the cause class)
            observed = {"unobservable": "socket_lazy_init_error_never_read_by_client", "server_text": server_errs[-1][3]}
        outcome = "error" if err_ev is not None else ("cancel" if cancelled else "ok")
        text_cls = msg_class(observed.get("message")) if observed and not observed.get("unobservable") else "none"
        chk.case(f"{fam}:{cfg['kind']}|{what}|{outcome}|text={text_cls}|{level}|hdr={'H' if m.get('header') else '-'}")
        chk.hit("dispatch_joined")
        chk.hit("socket_dispatch_judged")
        w = {"tag": program.get("tag"), "cfg": cfg["kind"], "access_level": level, "call": _trim(call), "trace_tail": _trim(trace[-2:])}
        if len(lines) != 1:
            chk.violation(
                f"record_count:{fam}:{what}:{'none' if not lines else 'more_than_one'}",
                f"{len(lines)} access records for one dispatched {what} call on a fresh connection (expected exactly 1)",
                {**w, "records": [r[:300] for r in lines[:3]]},
            )
        for ln in lines:
            judge_record(chk, ln, fam=fam, what="cancel" if cancelled and err_ev is None else what, method=call["m"], observed=observed, level=level, witness=w)


def run_hangup(chk: Check, cap: Capture) -> None:
    """The client hangs up before the server answers a failing call: the reply cannot be written, the record still
    has to name the error (type and full message).  Unary, stream init and stream step, over a unix socketpair."""
    import contextlib

    import pyarrow as pa
    from pyarrow import ipc

    from lib import httpdrv, svcgen
    from vgi_rpc.rpc import RpcServer, make_unix_pair, rpc_methods

    text = "hang-up case: " + "m" * 700
    program = {
        "name": "HangSvc",
        "methods": [
            {"name": "uf", "kind": "unary", "params": [], "ret": ("int",), "u": {"logs": [], "act": ("raise", "ValueError", text)}},
            {"name": "pi", "kind": "producer", "params": [], "header": False, "out_cols": ["i"], "init": {"logs": [], "act": ("raise", "KeyError", text)}, "steps": []},
            {"name": "ps", "kind": "producer", "params": [], "header": False, "out_cols": ["i"], "init": {"logs": [], "act": ("ok",)}, "steps": [{"logs": [], "act": "raise", "exc": ("RuntimeError", text)}]},
        ],
        "calls": [],
    }
    proto, impl = svcgen.build(program)
    infos = rpc_methods(proto)
    cap.set_level("INFO")
    for name, etype, what in (("uf", "ValueError", "unary"), ("pi", "KeyError", "stream"), ("ps", "RuntimeError", "stream")):
        server = RpcServer(proto, impl)
        ct, st = make_unix_pair()
        payload = httpdrv.request_body(name, infos[name].params_schema, {} if len(infos[name].params_schema) else None)
        if what == "stream":
            sink = pa.BufferOutputStream()
            with ipc.new_stream(sink, pa.schema([])) as w:
                w.write_batch(pa.RecordBatch.from_pydict({}, schema=pa.schema([])))
            payload += sink.getvalue().to_pybytes()
        ct.writer.write(payload)
        ct.writer.flush()
        with contextlib.suppress(Exception):
            ct.close()  # the client is gone before the server has read a byte
        start = cap.mark()
        with contextlib.suppress(Exception):
            server.serve(st)
        with contextlib.suppress(Exception):
            st.close()
        lines = [ln for ln in cap.since(start) if f'"method": "{name}"' in ln or f'"method":"{name}"' in ln]
        chk.case(f"socket:unix|{what}|error|client_hung_up_before_reply:{name}")
        chk.hit("hangup_case_judged")
        w_ = {"method": name, "records": [ln[:400] for ln in lines[:2]]}
        if len(lines) != 1:
            chk.violation(f"record_count:socket:{what}:{'none' if not lines else 'more_than_one'}:client_hung_up", f"{len(lines)} access records for a failing {what} call whose client hung up", w_)
            continue
        try:
            rec = json.loads(lines[0])
        except Exception:  # noqa: BLE001
            chk.violation("record_not_json:client_hung_up", "access record is not JSON", w_)
            continue
        if rec.get("status") != "error" or rec.get("error_type") != etype or text not in str(rec.get("error_message", "")):
            chk.violation(
                f"error_record_incomplete:client_hung_up:{what}",
                "the record of a failing call whose reply could not be written does not carry the error type and the full server-side message",
                {**w_, "status": rec.get("status"), "error_type": rec.get("error_type"), "error_message": str(rec.get("error_message"))[:120], "expected_type": etype},
            )


def _trim(obj: Any) -> Any:
    if isinstance(obj, str):
        return obj if len(obj) <= 160 else obj[:80] + f"...<{len(obj)} chars>"
    if isinstance(obj, (list, tuple)):
        return [_trim(x) for x in obj[:40]]
    if isinstance(obj, dict):
        return {k: _trim(v) for k, v in obj.items()}
    return obj


def guarded(fn: Any, timeout: float) -> tuple[bool, Any]:
    box: dict[str, Any] = {}

    def go() -> None:
        try:
            box["r"] = fn()
        except BaseException as exc:  # noqa: BLE001
            box["e"] = exc

    th = threading.Thread(target=go, daemon=True)
    th.start()
    th.join(timeout)
    if th.is_alive():
        return False, None
    return True, box.get("e")


def run_shard(job: dict[str, Any]) -> dict[str, Any]:
    import traceback
    import warnings

    warnings.filterwarnings("ignore")
    chk = Check(PID, job["tier"], job["seed"])
    cap = Capture()
    rng = random.Random(f"C34:shard:{job['seed']}:{job['index']}")
    programs: list[dict[str, Any]] = pickle.loads(base64.b64decode(job["programs_pickled"]))
    socket_kinds = job["socket_kinds"]
    if job["index"] == 0:
        ok, exc = guarded(lambda: run_hangup(chk, cap), CALL_TIMEOUT)
        if not ok or exc is not None:
            chk.inconclusive_because(f"hang-up leg did not complete: {exc!r}")
    for program in programs:
        legs: list[tuple[str, Any, dict[str, Any], str]] = []
        if not program.get("huge"):
            tiny = rng.choice([700, 1200, 2500])
            combos = [(c, k) for c in (("none", None), ("tiny", tiny), ("large", 100_000)) for k in ("off", "zstd")]
            if program["tag"].startswith("gen"):
                combos = rng.sample(combos, 3)
            # cold call-state cache (capacity 0): every continuation / exchange / cancel turn resolves its call from
            # the call token, as it does when a turn lands on another worker than the one that served /init
            combos3 = [(c, k, False) for c, k in combos]
            if program["tag"].startswith("gen"):
                combos3 = [(c, k, rng.random() < 0.35) for c, k, _ in combos3]
            else:
                combos3 += [(("none", None), "off", True), (("tiny", tiny), "zstd", True)]
            for (capname, capv), comp, cold in combos3:
                kw: dict[str, Any] = {}
                if capv is not None:
                    kw["max_response_bytes"] = capv
                if cold:
                    kw["call_state_cache_entries"] = 0
                cfg: dict[str, Any] = {"kind": "http", "app_kwargs": kw, "cap": capname, "comp": comp, "label": f"http:cap={capname}:comp={comp}" + (":cold_cache" if cold else "")}
                if comp == "zstd":
                    cfg["request_compression"] = 1
                legs.append(("http", run_http, cfg, rng.choice(["INFO", "INFO", "DEBUG"])))
        for kind in socket_kinds if program["tag"].startswith("gen") is False else rng.sample(socket_kinds, min(2, len(socket_kinds))):
            scfg: dict[str, Any] = {"kind": kind}
            if kind == "shm":
                scfg["shm_size"] = 1 << 17
            legs.append(("socket", run_socket, scfg, "DEBUG" if program.get("huge") else rng.choice(["INFO", "DEBUG"])))
        for _fam, fn, cfg, level in legs:
            ok, exc = guarded(lambda: fn(chk, cap, program, cfg, level), CALL_TIMEOUT)  # noqa: B023
            if not ok:
                chk.inconclusive_because(f"leg {cfg.get('label', cfg['kind'])} timed out for program {program.get('tag')}")
            elif exc is not None:
                tb = "".join(traceback.format_exception(exc))[-600:]
                chk.inconclusive_because(f"leg {cfg.get('label', cfg['kind'])} raised {type(exc).__name__} for program {program.get('tag')}: {tb}")
    return chk.to_result()


def main(tier: str, seed: int) -> int:
    chk = Check(PID, tier, seed, level=CATEGORY, rule=RULE)
    chk.require(
        "hangup_case_judged",
        "dispatch_joined",
        "record_schema_validated",
        "conformance_helper_ran",
        "request_data_roundtrip_checked",
        "status_compared",
        "error_status_compared",
        "error_message_compared",
        "stream_id_sharing_compared",
        "http_continuation_dispatch_judged",
        "http_exchange_dispatch_judged",
        "http_cancel_dispatch_judged",
        "socket_dispatch_judged",
        "cap_overshoot_dispatch_judged",
        "http_response_zstd",
        "formatter_sentinel_record",
    )
    chk.assumptions = [
        "jsonschema Draft 2020-12 validator and vgi_rpc/access_log.schema.json are the published schema",
        "records are captured by a logging.Handler on vgi_rpc.access formatted by the real VgiAccessLogFormatter (default 1 MiB cap)",
        "HTTP dispatches are joined on an injected X-Request-ID; socket dispatches on a one-call-per-connection window after the serve thread is joined",
        "server-side message = exception_message the server serialised into the EXCEPTION batch (HTTP) / RpcError text after '<Type>: ' (sockets)",
    ]
    shapes = shape_programs() + [huge_program()]
    ngen = _ngen(tier)
    progs = shapes + gen_programs(seed, ngen)
    nsh = shard.ncpu()
    nshards = max(1, min(len(progs), nsh * (1 if tier == "quick" else 3)))
    parts = shard.split(progs, nshards)
    jobs = [
        {
            "tier": tier,
            "seed": seed,
            "index": i,
            "programs_pickled": base64.b64encode(pickle.dumps(part)).decode(),
            "socket_kinds": ["pipe", "unix"] if tier == "quick" else ["pipe", "unix", "tcp", "shm"],
        }
        for i, part in enumerate(parts)
    ]
    for res in shard.pmap("checks.c34", "run_shard", jobs, timeout=600 if tier == "quick" else 3000):
        chk.merge(res)
    chk.extra["programs"] = len(progs)
    chk.extra["exception_text_classes"] = [t for t, _ in MESSAGES] + ["gt1MiB"]
    chk.exhaustive["every_exception_text_x_every_dispatch_site_x_all_configs"] = True
    chk.exhaustive["random_programs"] = False
    chk.sample({"shape_tags": [p["tag"] for p in shapes]})
    return chk.finish()


def _ngen(tier: str) -> int:
    return 120 if tier == "quick" else 1500


def replay(path: str) -> int:
    """Re-run the witnesses' (program, configuration) legs; exit 1 when the recorded key fires again."""
    import re
    import warnings

    warnings.filterwarnings("ignore")
    with open(path) as fh:
        rp = json.load(fh)
    progs = {p["tag"]: p for p in shape_programs() + [huge_program()] + gen_programs(int(rp["seed"]), _ngen(rp["tier"]))}
    chk = Check(PID, rp["tier"], int(rp["seed"]))
    cap = Capture()
    for w in rp.get("witnesses", []):
        program = progs.get(w.get("tag"))
        if program is None:
            continue
        label = str(w.get("cfg"))
        level = w.get("access_level", "INFO")
        m = re.match(r"http:cap=(\w+):comp=(\w+)", label)
        if m:
            capname, comp = m.group(1), m.group(2)
            caps = {"none": [None], "large": [100_000], "tiny": [700, 1200, 2500]}[capname]
            for capv in caps:
                cfg: dict[str, Any] = {"kind": "http", "app_kwargs": {} if capv is None else {"max_response_bytes": capv}, "cap": capname, "comp": comp, "label": label}
                if label.endswith(":cold_cache"):
                    cfg["app_kwargs"]["call_state_cache_entries"] = 0
                if comp == "zstd":
                    cfg["request_compression"] = 1
                run_http(chk, cap, program, cfg, level)
        else:
            scfg: dict[str, Any] = {"kind": label}
            if label == "shm":
                scfg["shm_size"] = 1 << 17
            run_socket(chk, cap, program, scfg, level)
    fired = rp["key"] in chk.violations
    print(f"replay of {rp['key']}: {'fires again' if fired else 'did not fire'}; keys seen: {sorted(chk.violations)}")
    if fired:
        print(f"VIOLATION property={PID} replay={path}")
        return 1
    print(f"[{PID}] replay did not reproduce (inconclusive)")
    return 2

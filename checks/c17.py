"""C17 - request size caps and content decoding.

A valid unary request ``U`` (bytes payload of chosen size) is wrapped in every
framing the property names - zstd frames with honest / lying / absent content
size, checksummed, multi-frame, big-window; gzip members of any ratio (stored ..
level 9), sync-flushed, multi-member, damaged trailers; identity; unknown,
disabled and case-variant codec tokens; corrupt and truncated frames - and sent
to real Falcon apps whose ``max_request_bytes`` straddles the encoded and the
decoded size (w-1, w, w+1, d-1, d, d+1, none, large).  Observed per request:

* HTTP status vs. ``lib.models.http_status.size_defects`` (413 / 415 / 400 / dispatched);
* the bytes handed to the RPC layer (``_get_request_stream`` wrapped in the resources
  module's namespace) vs. the client's uncompressed bytes, and the kwargs the
  implementation received (invocation log);
* for decompression bombs and oversize bodies: peak allocation while the request
  is served - ``tracemalloc`` peak AND ``ru_maxrss`` growth, each in its own forked
  child of a warmed-up process; the verdict (cap + 64 KiB chunk + slack) is taken
  only when both agree;
* completion: a request that does not return is classified by a logical probe of
  the decoder state found on the stack (end of member reached, zero output,
  non-empty unconsumed tail => the loop cannot make progress).

Transfer legs: Content-Length through the raw WSGI driver; chunked without
Content-Length through the raw driver (what gunicorn / ``wsgi.input_terminated``
servers hand over); chunked over a real waitress listener on loopback.
"""

from __future__ import annotations

import io
import os
import random
import signal
import zlib
from typing import Any

from lib import shard
from lib.evidence import Check

PID = "C17"
ENGINE = "E1-svcgen-rig+E2-raw-drivers+E4-injection+E5-models"
TECHNIQUE = "request-space map: status + bytes reaching the RPC layer + peak allocation (tracemalloc and forked-child RSS) per framing x cap relation"
LEVEL_TEXT = (
    "Exploration: valid requests of several sizes are wrapped in every listed framing (zstd honest/lying/absent content "
    "size, checksum, multi-frame, large window; gzip stored..level 9, flushed, multi-member, damaged; identity; unknown / "
    "disabled / case-variant tokens; corrupt, truncated incl. every frame flavour with its last 1-5 bytes removed) and sent with caps at w-1,w,w+1,d-1,d,d+1,none,large over "
    "Content-Length, chunked-without-length and real chunked (waitress) transfers; status, bytes handed to the RPC layer "
    "and the implementation's received arguments are compared with a size model written from the spec; for bombs the "
    "peak allocation is measured by tracemalloc and by forked-child RSS. Held means no counterexample among these executions."
)
LEVEL_NOTE = (
    "native allocations are visible only through RSS; the allocation verdict is taken only when both measures agree; "
    "zstandard/zlib used as independent frame producers are trusted; a frame whose declared size lies admits 400 or 413"
)
CATEGORY = "exploration"
RULE = (
    "case = (payload size, framing, Content-Encoding token, cap relation, transfer); caps are placed at the encoded "
    "length w and decoded length d +-1; distinct class = (framing, token kind, cap relation to w and to d, transfer, outcome class)"
)

ARROW_CT = "application/vnd.apache.arrow.stream"
CHUNK = 65536
SLACK_PY = 256 * 1024
SLACK_RSS = 4 * 1024 * 1024
WATCHDOG_S = 6

PROGRAM: dict[str, Any] = {
    "name": "SizeSvc",
    "methods": [
        {"name": "blob", "kind": "unary", "params": [("data", ("bytes",))], "ret": ("int",), "u": {"logs": [], "act": ("return", 7)}},
    ],
    "calls": [],
}


class Watchdog(BaseException):
    pass


_probe: dict[str, Any] = {}


def _on_alarm(signum: int, frame: Any) -> None:
    """Record the decoder state found on the interrupted stack, then abort the request."""
    _probe.clear()
    f = frame
    depth = 0
    while f is not None and depth < 60:
        name = f.f_code.co_name
        if name in ("_decompress_body_gzip", "_decompress_body_zstd"):
            loc = f.f_locals
            do = loc.get("do")
            _probe.update(
                function=name,
                line=f.f_lineno,
                total=loc.get("total"),
                chunk_len=len(loc["chunk"]) if isinstance(loc.get("chunk"), (bytes, bytearray)) else None,
                remaining_len=len(loc["remaining"]) if isinstance(loc.get("remaining"), (bytes, bytearray)) else None,
            )
            if do is not None and hasattr(do, "unconsumed_tail"):
                tail0 = bytes(do.unconsumed_tail)
                _probe.update(eof=bool(do.eof), unconsumed_tail_len=len(tail0))
                # logical probe: drive the loop body a few more times by hand; progress would shrink the tail or yield output
                progressed = False
                try:
                    for _ in range(5):
                        out = do.decompress(do.unconsumed_tail, 1)
                        if out or bytes(do.unconsumed_tail) != tail0:
                            progressed = True
                            break
                except Exception as exc:  # noqa: BLE001
                    _probe["probe_error"] = repr(exc)
                    progressed = True
                _probe["no_progress_confirmed"] = bool(do.eof) and bool(tail0) and not progressed
            break
        f = f.f_back
        depth += 1
    raise Watchdog()


# ---------------------------------------------------------------------------
# frames
# ---------------------------------------------------------------------------


def patch_fcs(frame: bytes, newsize: int) -> bytes:
    """Rewrite a zstd frame header so that it declares *newsize* (8-byte Frame_Content_Size field)."""
    fhd = frame[4]
    fcs_flag = fhd >> 6
    single = (fhd >> 5) & 1
    did = fhd & 3
    off = 5 + (0 if single else 1) + [0, 1, 2, 4][did]
    width = [1 if single else 0, 2, 4, 8][fcs_flag]
    new_fhd = (3 << 6) | (fhd & 0x3F)
    return frame[:4] + bytes([new_fhd]) + frame[5:off] + int(newsize).to_bytes(8, "little") + frame[off + width :]


def gz(data: bytes, level: int = 6) -> bytes:
    co = zlib.compressobj(level, zlib.DEFLATED, 31)
    return co.compress(data) + co.flush()


def family(name: str, token_kind: str) -> str:
    """Mechanism family of a framing (used in violation keys: one family per decoding mechanism)."""
    if token_kind == "unknown":
        return "unknown_token"
    if name.startswith("identity"):
        return "identity"
    if token_kind == "case":
        return "token_case_variant"
    for pat, fam in (
        ("multiframe", "zstd_multi_frame"),
        ("multimember", "gzip_multi_member"),
        ("trailing_junk", "trailing_bytes"),
        ("_lie_", "zstd_lying_content_size"),
        ("gzip_truncated", "gzip_truncated_member"),
        ("truncated", "corrupt_frame"),
        ("garbage", "corrupt_frame"),
        ("plain_body", "corrupt_frame"),
        ("bad_crc", "corrupt_frame"),
    ):
        if pat in name:
            return fam
    if name.startswith("zstd"):
        return "zstd_single_frame"
    if name.startswith("gzip"):
        return "gzip_single_member"
    return name


def frames_for(u: bytes, rng: random.Random, *, hang_risk_ok: bool) -> list[dict[str, Any]]:
    """Every framing of *u*: name, Content-Encoding, wire, decoded (None = undecodable), honest, note."""
    import zstandard

    out: list[dict[str, Any]] = []

    def add(name: str, ce: str | None, wire: bytes, decoded: bytes | None, *, honest: bool = True, token_kind: str = "exact", ambiguous: str | None = None) -> None:
        out.append({"name": name, "fam": family(name, token_kind), "ce": ce, "wire": wire, "decoded": decoded, "honest": honest, "token_kind": token_kind, "ambiguous": ambiguous})

    n = len(u)
    half = n // 2
    add("none", None, u, u, token_kind="absent")
    add("identity", "identity", u, u)
    add("identity_case", "Identity", u, u, token_kind="case")
    # --- zstd ---------------------------------------------------------------
    z1 = zstandard.ZstdCompressor(level=3).compress(u)
    add("zstd_fcs", "zstd", z1, u)
    add("zstd_fcs_case", rng.choice(["ZSTD", "Zstd", " zstd "]), z1, u, token_kind="case")
    co = zstandard.ZstdCompressor(level=1).compressobj()
    zs = co.compress(u) + co.flush()
    add("zstd_nofcs", "zstd", zs, u)
    zc = zstandard.ZstdCompressor(level=3, write_checksum=True).compress(u)
    add("zstd_checksum", "zstd", zc, u)
    buf = io.BytesIO()
    with zstandard.ZstdCompressor(level=1).stream_writer(buf, closefd=False) as w:
        for i in range(0, max(n, 1), 7919):
            w.write(u[i : i + 7919])
            w.flush(zstandard.FLUSH_BLOCK)
    add("zstd_flushed_blocks", "zstd", buf.getvalue(), u)
    params = zstandard.ZstdCompressionParameters.from_level(3, window_log=27)
    co = zstandard.ZstdCompressor(compression_params=params).compressobj()
    add("zstd_nofcs_window27", "zstd", co.compress(u) + co.flush(), u)
    if n >= 2:
        a, b = u[:half], u[half:]
        add("zstd_multiframe_fcs", "zstd", zstandard.ZstdCompressor().compress(a) + zstandard.ZstdCompressor().compress(b), u)
        c1 = zstandard.ZstdCompressor().compressobj()
        c2 = zstandard.ZstdCompressor().compressobj()
        add("zstd_multiframe_nofcs", "zstd", c1.compress(a) + c1.flush() + c2.compress(b) + c2.flush(), u)
    if n >= 1:
        add("zstd_lie_smaller", "zstd", patch_fcs(z1, max(0, half)), u, honest=False)
        add("zstd_lie_larger_by_one", "zstd", patch_fcs(z1, n + 1), u, honest=False)
        add("zstd_lie_larger_double", "zstd", patch_fcs(z1, 2 * n + 1000), u, honest=False)
        add("zstd_lie_huge", "zstd", patch_fcs(z1, 1 << 40), u, honest=False)
    add("zstd_trailing_junk", "zstd", z1 + b"JUNKJUNK", u, ambiguous="bytes after the last frame: 400 or the framed content are both defensible")
    add("zstd_truncated", "zstd", z1[: max(5, len(z1) // 2)], None)
    # streaming frame (no content size) that ends in a 4-byte content checksum, and every short cut of the tail of
    # each frame flavour: the frame is incomplete, so the body is undecodable
    cks = zstandard.ZstdCompressor(level=1, write_checksum=True).compressobj()
    zsc = cks.compress(u) + cks.flush()
    add("zstd_nofcs_checksum", "zstd", zsc, u)
    for base_name, base in (("fcs", z1), ("nofcs", zs), ("fcs_checksum", zc), ("nofcs_checksum", zsc)):
        for k in (1, 2, 3, 4, 5):
            if len(base) > k + 4:
                add(f"zstd_truncated_tail{k}_{base_name}", "zstd", base[:-k], None)
    for k in (1, 4, 8, 9):
        if len(gz(u)) > k + 10:
            add(f"gzip_truncated_tail{k}", "gzip", gz(u)[:-k], None)
    add("zstd_garbage", "zstd", rng.randbytes(rng.choice([1, 9, 200])), None)
    add("zstd_plain_body", "zstd", u if u else b"\x00", None)
    # --- gzip ---------------------------------------------------------------
    for lvl in (0, 1, 6, 9):
        add(f"gzip_l{lvl}", "gzip", gz(u, lvl), u)
    add("gzip_case", rng.choice(["GZIP", "GZip", "gzip "]), gz(u, 6), u, token_kind="case")
    co2 = zlib.compressobj(6, zlib.DEFLATED, 31)
    parts = []
    for i in range(0, max(n, 1), 4099):
        parts.append(co2.compress(u[i : i + 4099]) + co2.flush(zlib.Z_SYNC_FLUSH))
    add("gzip_sync_flushed", "gzip", b"".join(parts) + co2.flush(zlib.Z_FINISH), u)
    first_member_over_chunk = half > CHUNK
    if n >= 2 and (hang_risk_ok or not first_member_over_chunk):
        add("gzip_multimember", "gzip", gz(u[:half]) + gz(u[half:]), u)
    if hang_risk_ok or n <= CHUNK:
        add("gzip_trailing_junk", "gzip", gz(u) + b"JUNKJUNK", u, ambiguous="bytes after the last member: 400 or the framed content are both defensible")
    g = bytearray(gz(u))
    g[-8] ^= 0xFF  # CRC32 trailer
    add("gzip_bad_crc", "gzip", bytes(g), None)
    add("gzip_truncated", "gzip", gz(u)[: max(4, len(gz(u)) // 2)], None, ambiguous=None)
    add("gzip_garbage", "gzip", rng.randbytes(rng.choice([1, 9, 200])), None)
    add("gzip_plain_body", "gzip", u if u else b"\x00", None)
    # --- unknown tokens (raw body, so that falling through to identity would dispatch) ---------------
    for tok in ("br", "deflate", "compress", "x-gzip", "zstd, gzip", "gzip, identity", "*", "zstd;q=1", "snappy"):
        add(f"unknown:{tok}", tok, u, None, token_kind="unknown")
    add("unknown:br_zstd_body", "br", z1, None, token_kind="unknown")
    return out


def independent_decode(ce: str | None, wire: bytes) -> bytes | None:
    """Decoded content according to an independent decoder (all frames / members), None when it fails."""
    import zstandard

    c = (ce or "").strip().lower()
    try:
        if c in ("", "identity"):
            return wire
        if c == "zstd":
            return zstandard.ZstdDecompressor().stream_reader(io.BytesIO(wire), read_across_frames=True).read()
        if c == "gzip":
            out = []
            data = wire
            while data:
                do = zlib.decompressobj(31)
                out.append(do.decompress(data))
                if not do.eof:
                    return None
                data = do.unused_data
            return b"".join(out)
    except Exception:  # noqa: BLE001
        return None
    return None


# ---------------------------------------------------------------------------
# app + observation
# ---------------------------------------------------------------------------

_captured: list[bytes] = []
_capture_calls = [0]


def install_capture() -> None:
    """Wrap ``_get_request_stream`` in the resources module (late-bound name used by every on_post)."""
    import pyarrow as pa

    from vgi_rpc.http.server import _resources

    if getattr(_resources._get_request_stream, "_verif_wrapped", False):
        return
    orig = _resources._get_request_stream

    def wrapper(req: Any) -> Any:
        st = orig(req)
        data = st.read()
        data = data.to_pybytes() if hasattr(data, "to_pybytes") else bytes(data)
        _capture_calls[0] += 1
        _captured.append(data)
        return pa.BufferReader(data)

    wrapper._verif_wrapped = True  # type: ignore[attr-defined]
    _resources._get_request_stream = wrapper


def build_app(cap: int | None, *, disable_zstd: bool = False) -> tuple[Any, Any, Any]:
    import warnings

    from lib import svcgen
    from vgi_rpc.http import make_wsgi_app
    from vgi_rpc.rpc import RpcServer

    proto, impl = svcgen.build(PROGRAM)
    server = RpcServer(proto, impl)
    old = os.environ.get("VGI_HTTP_DISABLE_ZSTD")
    try:
        if disable_zstd:
            os.environ["VGI_HTTP_DISABLE_ZSTD"] = "1"
        else:
            os.environ.pop("VGI_HTTP_DISABLE_ZSTD", None)
        with warnings.catch_warnings():
            warnings.simplefilter("ignore")
            app = make_wsgi_app(server, token_key=b"k" * 32, max_request_bytes=cap)
    finally:
        if old is None:
            os.environ.pop("VGI_HTTP_DISABLE_ZSTD", None)
        else:
            os.environ["VGI_HTTP_DISABLE_ZSTD"] = old
    return app, server, impl


def request_bytes(server: Any, payload: bytes) -> bytes:
    from vgi_rpc.rpc._wire import _write_request

    info = server.methods["blob"]
    buf = io.BytesIO()
    _write_request(buf, "blob", info.params_schema, {"data": payload})
    return buf.getvalue()


def rel(x: int, cap: int | None) -> str:
    if cap is None:
        return "nocap"
    return "lt" if x < cap else "eq" if x == cap else "gt"


def send(app: Any, impl: Any, headers: dict[str, str], wire: bytes, *, chunked: bool) -> tuple[Any, list[bytes], list[Any]]:
    from lib import httpdrv

    # A watchdog expiry without the logical no-progress confirmation says nothing about the code (a loaded machine,
    # sixteen shards decoding 128 MiB-window frames at once): such a request is sent again under a longer watchdog.
    for wd in (WATCHDOG_S, 10 * WATCHDOG_S):
        del _captured[:]
        before = len(impl.inv)
        _probe.clear()
        signal.setitimer(signal.ITIMER_REAL, wd)
        try:
            r = httpdrv.call(app, "POST", "/blob", headers, wire, chunked=chunked)
        finally:
            signal.setitimer(signal.ITIMER_REAL, 0)
        if not isinstance(r.exc, Watchdog) or _probe.get("no_progress_confirmed"):
            break
    return r, list(_captured), list(impl.inv[before:])


def judge(chk: Check, case: dict[str, Any], r: Any, captured: list[bytes], new_inv: list[Any], u: bytes, payload: bytes) -> None:
    from lib.models import http_status as hs

    fr = case["frame"]
    cap = case["cap"]
    enabled = case["enabled"]
    coding = hs.coding_of(fr["ce"])
    wire_len = len(fr["wire"])
    decoded = fr["decoded"]
    real = u if not fr["honest"] else decoded
    defects, extra = hs.size_defects(
        coding=coding,
        enabled=enabled,
        wire_len=wire_len,
        decoded_len=None if real is None else len(real),
        cap=cap,
        frame_honest=fr["honest"],
    )
    adm = set(hs.admissible(defects))
    if extra:
        adm |= set(extra)
    if fr["ambiguous"]:
        adm |= {400}
    if real is None and coding in enabled and cap is not None:
        # a damaged frame may be refused from the part that does decode (or from its header) before the damage is noticed
        adm |= {413}
    fam = fr["fam"]
    wit = {
        "framing": fr["name"],
        "content_encoding": fr["ce"],
        "wire_len": wire_len,
        "decoded_len": None if real is None else len(real),
        "cap": cap,
        "transfer": case["transfer"],
        "status": r.status,
        "admissible": sorted(adm),
        "captured_len": [len(c) for c in captured],
        "resp_head": r.body[:100],
    }
    outcome = "dispatched" if r.status == 200 else str(r.status)
    chk.case(f"{fr['name']}|{fr['token_kind']}|w{rel(wire_len, cap)}|d{'x' if real is None else rel(len(real), cap)}|{case['transfer']}|{'zoff' if 'zstd' not in enabled else 'zon'}|{outcome}")
    chk.hit("requests_judged")
    chk.hit(f"status_{r.status}")
    if r.exc is not None:
        if isinstance(r.exc, Watchdog):
            chk.hit("watchdog_fired")
            if _probe.get("no_progress_confirmed"):
                chk.violation(
                    f"request_never_completes:{coding}:input_left_after_end_of_stream",
                    "the request does not return: the bounded decode loop has reached end-of-stream, yields no output and "
                    "its unconsumed tail never shrinks (confirmed by driving the decoder state found on the stack)",
                    {**wit, "probe": dict(_probe)},
                )
            else:
                chk.inconclusive_because(f"watchdog fired on framing {fr['name']} without logical confirmation: {dict(_probe)}")
        else:
            chk.violation(f"wsgi_app_raised:{type(r.exc).__name__}", "the WSGI callable raised", {**wit, "exc": repr(r.exc)})
        return
    # the chunked-without-length leg: the body is not seen at all (one mechanism, one key)
    if case["transfer"] == "chunked_nocl" and wire_len > 0 and ((captured and captured[0] == b"") or (r.status == 400 and 400 not in adm)):
        chk.hit("chunked_nocl_judged")
        chk.violation(
            "chunked_without_content_length:body_not_read",
            "a request without Content-Length (Transfer-Encoding: chunked as handed over by wsgi.input_terminated servers) is "
            "served as if its body were empty: the RPC layer receives 0 bytes and answers 400, whatever the body's size or coding",
            wit,
        )
        return
    if case["transfer"] == "chunked_nocl":
        chk.hit("chunked_nocl_judged")
    # ---- status 5xx ---------------------------------------------------------
    if r.status >= 500:
        chk.violation(f"status_5xx:{fam}", f"HTTP {r.status} for a client-controlled body", wit)
        return
    # ---- bytes handed to the RPC layer (decodable bodies: 'byte-for-byte equal to the client's uncompressed request')
    if captured and real is not None:
        chk.hit("rpc_layer_bytes_compared")
        if captured[0] != u:
            if fr["ambiguous"]:
                chk.skip(f"bytes_unjudged:{fam}")
            else:
                n = next((i for i, (x, y) in enumerate(zip(captured[0], u, strict=False)) if x != y), min(len(captured[0]), len(u)))
                chk.violation(
                    f"rpc_layer_bytes_differ:{fam}",
                    f"bytes handed to the RPC layer differ from the client's uncompressed request (got {len(captured[0])} bytes, "
                    f"sent {len(u)}, first difference at {n}); status {r.status}, implementation invoked: {bool(new_inv)}",
                    wit,
                )
                return
    # ---- status -------------------------------------------------------------
    if r.status not in adm and real is None and captured and coding in enabled:
        chk.violation(
            f"undecodable_body_passed_to_rpc_layer:{fam}:got_{r.status}",
            f"the decoder did not notice that the body is undecodable and handed {len(captured[0])} bytes to the RPC layer, which "
            f"answered {r.status} (implementation invoked: {bool(new_inv)}); the model admits {sorted(adm)}",
            wit,
        )
        return
    if real is None and captured and coding in enabled:
        chk.skip(f"undecodable_body_reached_rpc_layer_but_refused_{r.status}:{fam}")
    if r.status not in adm:
        why = "+".join(sorted(defects)) or "none"
        chk.violation(
            f"unexpected_status:{fam}:{why}:got_{r.status}",
            f"status {r.status}, the size/decoding model admits {sorted(adm)} (defects: {why}); RPC layer reached: {bool(captured)}, "
            f"implementation invoked: {bool(new_inv)}",
            wit,
        )
        return
    chk.hit("status_judged")
    # ---- refused requests never reach the RPC layer ---------------------------
    if r.status in (413, 415) and captured:
        chk.violation(f"rpc_layer_reached_despite_{r.status}:{fam}", "a refused request's body was handed to the RPC layer", wit)
    if r.status == 200:
        chk.hit("dispatched")
        if not captured:
            chk.inconclusive_because("a dispatched request was not seen by the _get_request_stream wrapper")
        got = [e for e in new_inv if e[0] == "unary"]
        if len(got) != 1 or got[0][2].get("data") != payload:
            chk.violation(f"implementation_received_other_bytes:{fam}", "the method did not receive exactly the payload the client sent", wit)
    elif new_inv:
        chk.violation(f"dispatched_despite_{r.status}:{fam}", "the implementation ran although the request was refused", wit)


# ---------------------------------------------------------------------------
# shard kinds
# ---------------------------------------------------------------------------


def caps_for(w: int, d: int | None, rng: random.Random) -> list[int | None]:
    s: set[int | None] = {None, w - 1, w, w + 1, max(w, d or 0) + 5000}
    if d is not None:
        s |= {d - 1, d, d + 1}
    if d is not None and d > w + 4:
        s.add((w + d) // 2)
    return [c for c in s if c is None or c >= 0]


def shard_map(chk: Check, job: dict[str, Any]) -> None:
    """Status / bytes map over framings x caps, Content-Length and chunked-without-length transfers."""
    rng = random.Random(job["seed"])
    install_capture()
    apps: dict[tuple[int | None, bool], tuple[Any, Any, Any]] = {}

    def app_for(cap: int | None, zoff: bool) -> tuple[Any, Any, Any]:
        key = (cap, zoff)
        if key not in apps:
            if len(apps) > 400:
                apps.clear()
            apps[key] = build_app(cap, disable_zstd=zoff)
        return apps[key]

    _a, server0, _i = app_for(None, False)
    for psize in job["sizes"]:
        kind = rng.choice(["rand", "zeros", "text"])
        payload = rng.randbytes(psize) if kind == "rand" else (b"\x00" * psize if kind == "zeros" else (b"lorem ipsum " * (psize // 12 + 1))[:psize])
        u = request_bytes(server0, payload)
        for fr in frames_for(u, rng, hang_risk_ok=False):
            dec = independent_decode(fr["ce"], fr["wire"]) if fr["token_kind"] != "unknown" else None
            if fr["honest"] and fr["ambiguous"] is None and fr["token_kind"] != "unknown" and fr["decoded"] is not None and dec != fr["decoded"]:
                chk.skip(f"harness_frame_inconsistent:{fr['name']}")
                continue
            real_len = len(u) if (fr["decoded"] is not None or not fr["honest"]) else None
            for cap in caps_for(len(fr["wire"]), real_len, rng):
                for zoff in (False, True) if (cap is None or rng.random() < 0.15) else (False,):
                    app, server, impl = app_for(cap, zoff)
                    enabled = ("gzip", "identity") if zoff else ("zstd", "gzip", "identity")
                    headers = {"Content-Type": ARROW_CT}
                    if fr["ce"] is not None:
                        headers["Content-Encoding"] = fr["ce"]
                    transfers = ["content_length"]
                    if fr["name"] in ("none", "zstd_fcs", "gzip_l6") and not zoff:
                        transfers.append("chunked_nocl")
                    for tr in transfers:
                        case = {"frame": fr, "cap": cap, "enabled": enabled, "transfer": tr}
                        r, captured, new_inv = send(app, impl, headers, fr["wire"], chunked=(tr == "chunked_nocl"))
                        judge(chk, case, r, captured, new_inv, u, payload)
        if rng.random() < 0.5:
            chk.sample({"payload_size": psize, "payload_kind": kind, "request_len": len(u)})
    chk.hit("capture_wrapper_calls", _capture_calls[0])


def shard_hang(chk: Check, job: dict[str, Any]) -> None:
    """Framings with input left after the first gzip member, decoded size over one decode chunk, under a cap."""
    rng = random.Random(job["seed"])
    install_capture()
    _a, server0, _i = build_app(None)
    payload = rng.randbytes(job["psize"])
    u = request_bytes(server0, payload)
    wanted = {"gzip_trailing_junk", "gzip_multimember"}
    for fr in frames_for(u, rng, hang_risk_ok=True):
        if fr["name"] not in wanted:
            continue
        cap = len(u) + 100_000
        app, server, impl = build_app(cap)
        headers = {"Content-Type": ARROW_CT, "Content-Encoding": fr["ce"]}
        case = {"frame": fr, "cap": cap, "enabled": ("zstd", "gzip", "identity"), "transfer": "content_length"}
        r, captured, new_inv = send(app, impl, headers, fr["wire"], chunked=False)
        chk.hit("completion_judged")
        judge(chk, case, r, captured, new_inv, u, payload)


def stream_gzip_bomb(total: int) -> bytes:
    co = zlib.compressobj(6, zlib.DEFLATED, 31)
    out = []
    z = b"\x00" * CHUNK
    for _ in range(total // CHUNK):
        out.append(co.compress(z))
    out.append(co.flush())
    return b"".join(out)


def stream_zstd_bomb(total: int, *, declare: bool) -> bytes:
    import zstandard

    co = zstandard.ZstdCompressor(level=3).compressobj(size=total) if declare else zstandard.ZstdCompressor(level=3).compressobj()
    out = []
    z = b"\x00" * CHUNK
    for _ in range(total // CHUNK):
        out.append(co.compress(z))
    out.append(co.flush())
    return b"".join(out)


def bomb_cases(cap: int, total: int, rng_seed: int) -> list[dict[str, Any]]:
    import zstandard

    small = zstandard.ZstdCompressor().compress(b"x" * 100)
    zb_fcs = stream_zstd_bomb(total, declare=True)
    cases = [
        {"name": "gzip_bomb", "ce": "gzip", "wire": stream_gzip_bomb(total), "expect": {413}},
        {"name": "zstd_bomb_honest_fcs", "ce": "zstd", "wire": zb_fcs, "expect": {413}},
        {"name": "zstd_bomb_no_fcs", "ce": "zstd", "wire": stream_zstd_bomb(total, declare=False), "expect": {413}},
        {"name": "zstd_bomb_fcs_lies_cap", "ce": "zstd", "wire": patch_fcs(zb_fcs, cap), "expect": {400, 413}},
        {"name": "zstd_bomb_fcs_lies_small", "ce": "zstd", "wire": patch_fcs(zb_fcs, 1000), "expect": {400, 413}},
        # multi-frame / multi-member: status and bytes are judged by the map shards; here only the allocation
        {"name": "zstd_small_then_bomb_frame", "ce": "zstd", "wire": small + stream_zstd_bomb(total, declare=False), "expect": None},
        {"name": "gzip_small_then_bomb_member", "ce": "gzip", "wire": gz(b"x" * 100) + stream_gzip_bomb(total), "expect": None},
        {"name": "wire_oversize_content_length", "ce": None, "wire": None, "expect": {413}},
        {"name": "wire_oversize_identity", "ce": "identity", "wire": None, "expect": {413}},
    ]
    return cases


def _serve_once(app: Any, headers: dict[str, str], wire: bytes) -> int:
    from lib import httpdrv

    r = httpdrv.call(app, "POST", "/blob", headers, wire)
    return r.status if r.exc is None else 599


def shard_alloc(chk: Check, job: dict[str, Any]) -> None:
    """Peak allocation while a bomb / oversize body is served: tracemalloc AND RSS growth, each in a forked child."""
    import resource
    import tracemalloc

    install_capture()
    cap = job["cap"]
    total = job["total"]
    app, server, impl = build_app(cap)
    # warm every lazy import / code path with small requests so that the measurements see only the request itself
    warm = request_bytes(server, b"abc")
    import zstandard

    for ce, w in (
        (None, warm),
        (None, b"not an ipc stream"),
        ("zstd", zstandard.ZstdCompressor().compress(warm)),
        ("zstd", zstandard.ZstdCompressor().compress(b"x" * 100)),
        ("gzip", gz(warm)),
        ("gzip", gz(b"x" * 100)),
        ("gzip", gz(b"\x00" * (cap + 10))),
        ("zstd", b"nonsense"),
    ):
        h = {"Content-Type": ARROW_CT}
        if ce:
            h["Content-Encoding"] = ce
        _serve_once(app, h, w)
    limit_py = cap + CHUNK + SLACK_PY
    limit_rss = cap + CHUNK + SLACK_RSS
    chk.extra["alloc_thresholds"] = {"cap": cap, "tracemalloc_limit": limit_py, "rss_limit": limit_rss, "bomb_decoded_bytes": total}
    for bc in bomb_cases(cap, total, job["seed"]):
        headers = {"Content-Type": ARROW_CT}
        if bc["ce"]:
            headers["Content-Encoding"] = bc["ce"]
        wire = bc["wire"]
        if wire is None:
            wire = os.urandom(8 * 1024 * 1024)  # incompressible, 8 MiB on the wire, announced by Content-Length
        def in_child(measure: str) -> tuple[int, int, int] | None:
            """Serve the request in a forked child; returns (status, measured bytes, reached_rpc_layer)."""
            rfd, wfd = os.pipe()
            pid = os.fork()
            if pid == 0:
                code = 0
                try:
                    os.close(rfd)
                    del _captured[:]
                    signal.setitimer(signal.ITIMER_REAL, 60)
                    if measure == "tracemalloc":
                        tracemalloc.start()
                        base = tracemalloc.get_traced_memory()[0]
                        tracemalloc.reset_peak()
                        st = _serve_once(app, headers, wire)
                        val = tracemalloc.get_traced_memory()[1] - base
                    else:
                        r0 = resource.getrusage(resource.RUSAGE_SELF).ru_maxrss
                        st = _serve_once(app, headers, wire)
                        val = (resource.getrusage(resource.RUSAGE_SELF).ru_maxrss - r0) * 1024
                    os.write(wfd, f"{st} {val} {1 if _captured else 0}".encode())
                except BaseException:  # noqa: BLE001
                    code = 3
                finally:
                    os._exit(code)
            os.close(wfd)
            data = b""
            try:
                while True:
                    part = os.read(rfd, 4096)
                    if not part:
                        break
                    data += part
            finally:
                os.close(rfd)
                os.waitpid(pid, 0)
            if not data:
                return None
            a, b, c = (int(x) for x in data.split())
            return a, b, c

        m1 = in_child("tracemalloc")
        m2 = in_child("rss")
        if m1 is None or m2 is None:
            chk.skip(f"measurement_child_failed:{bc['name']}")
            continue
        status, peak_py, reached = m1
        st2, rss_delta, _r2 = m2
        reached_rpc = bool(reached)
        wit = {"case": bc["name"], "cap": cap, "wire_len": len(wire), "decoded_len": total if bc["wire"] is not None else len(wire), "status": status, "child_status": st2, "tracemalloc_peak": peak_py, "rss_delta": rss_delta, "tracemalloc_limit": limit_py, "rss_limit": limit_rss}
        chk.case(f"alloc|{bc['name']}|{status}")
        chk.hit("alloc_measured")
        chk.sample(wit)
        if bc["expect"] is not None and status not in bc["expect"]:
            chk.violation(f"bomb_not_refused:{bc['name']}", f"status {status}, expected one of {sorted(bc['expect'])}", wit)
        if reached_rpc and bc["expect"] is not None:
            chk.violation(f"bomb_reached_rpc_layer:{bc['name']}", "an over-cap body was handed to the RPC layer", wit)
        over_py = peak_py > limit_py
        over_rss = rss_delta > limit_rss
        if over_py and over_rss:
            chk.hit("alloc_verdict_taken")
            chk.violation(
                f"decoded_allocation_exceeds_cap:{bc['name']}",
                f"serving the request allocated far more than cap + one chunk: tracemalloc peak {peak_py} B, child RSS growth {rss_delta} B (cap {cap})",
                wit,
            )
        elif not over_py and not over_rss:
            chk.hit("alloc_verdict_taken")
        else:
            chk.skip(f"alloc_measures_disagree:{bc['name']}")


def _raw_http(port: int, path: str, headers: dict[str, str], body: bytes, *, chunked: bool, timeout: float = 20.0) -> tuple[int, bytes]:
    import socket

    s = socket.create_connection(("127.0.0.1", port), timeout=timeout)
    try:
        lines = [f"POST {path} HTTP/1.1", "Host: 127.0.0.1", "Connection: close"]
        for k, v in headers.items():
            lines.append(f"{k}: {v}")
        if chunked:
            lines.append("Transfer-Encoding: chunked")
        else:
            lines.append(f"Content-Length: {len(body)}")
        s.sendall(("\r\n".join(lines) + "\r\n\r\n").encode())
        if chunked:
            pos = 0
            sizes = [1, 7, 1000, 65536, 3]
            k = 0
            while pos < len(body):
                n = sizes[k % len(sizes)]
                k += 1
                part = body[pos : pos + n]
                pos += len(part)
                s.sendall(f"{len(part):x}\r\n".encode() + part + b"\r\n")
            s.sendall(b"0\r\n\r\n")
        else:
            s.sendall(body)
        data = b""
        while True:
            part = s.recv(65536)
            if not part:
                break
            data += part
    finally:
        s.close()
    head, _, rest = data.partition(b"\r\n\r\n")
    status = int(head.split(b" ", 2)[1]) if head.startswith(b"HTTP/") else 599
    return status, rest


def shard_waitress(chk: Check, job: dict[str, Any]) -> None:
    """Real chunked requests over a loopback waitress listener (status + bytes reaching the RPC layer)."""
    import threading

    import zstandard
    from waitress.server import create_server

    from lib.models import http_status as hs

    install_capture()
    rng = random.Random(job["seed"])
    cap = job["cap"]
    app, server, impl = build_app(cap)
    srv = create_server(app, host="127.0.0.1", port=0, threads=2, _start=True)
    port = srv.effective_port if hasattr(srv, "effective_port") else srv.socket.getsockname()[1]
    th = threading.Thread(target=srv.run, daemon=True)
    th.start()
    try:
        small = request_bytes(server, rng.randbytes(cap // 4))
        big = request_bytes(server, rng.randbytes(cap * 2))
        bigz = request_bytes(server, b"\x00" * (cap * 3))
        plan = [
            ("small_plain", None, small, small, rng.randbytes(0)),
            ("small_zstd", "zstd", zstandard.ZstdCompressor().compress(small), small, b""),
            ("small_gzip", "gzip", gz(small), small, b""),
            ("wire_over", None, big, big, b""),
            ("decoded_over_zstd", "zstd", zstandard.ZstdCompressor().compress(bigz), bigz, b""),
            ("decoded_over_gzip", "gzip", gz(bigz), bigz, b""),
            ("unknown_coding", "br", small, None, b""),
        ]
        for name, ce, wire, u, _x in plan:
            for chunked in (True, False):
                headers = {"Content-Type": ARROW_CT}
                if ce:
                    headers["Content-Encoding"] = ce
                del _captured[:]
                before = len(impl.inv)
                try:
                    status, _body = _raw_http(port, "/blob", headers, wire, chunked=chunked)
                except Exception as exc:  # noqa: BLE001
                    chk.skip(f"waitress_io_error:{type(exc).__name__}")
                    continue
                captured = list(_captured)
                defects, _extra = hs.size_defects(
                    coding=hs.coding_of(ce),
                    enabled=("zstd", "gzip", "identity"),
                    wire_len=len(wire),
                    decoded_len=None if u is None else len(u),
                    cap=cap,
                )
                adm = hs.admissible(defects)
                tr = "waitress_chunked" if chunked else "waitress_content_length"
                wit = {"case": name, "transfer": tr, "cap": cap, "wire_len": len(wire), "decoded_len": None if u is None else len(u), "status": status, "admissible": sorted(adm), "captured_len": [len(c) for c in captured]}
                chk.case(f"{name}|{tr}|{status}")
                chk.hit("waitress_judged")
                if chunked:
                    chk.hit("real_chunked_judged")
                if status not in adm:
                    chk.violation(f"unexpected_status:{tr}:{'+'.join(sorted(defects)) or 'none'}:got_{status}", f"status {status}, model admits {sorted(adm)}", wit)
                    continue
                if status == 200:
                    if not captured or captured[0] != u:
                        chk.violation(f"rpc_layer_bytes_differ:{tr}", "bytes handed to the RPC layer differ from the client's uncompressed request", wit)
                    if len(impl.inv) - before != 1:
                        chk.violation(f"dispatch_count:{tr}", "expected exactly one invocation", wit)
                elif captured and status in (413, 415):
                    chk.violation(f"rpc_layer_reached_despite_{status}:{tr}", "refused body handed to the RPC layer", wit)
    finally:
        srv.close()
        th.join(timeout=5)


def run_shard(job: dict[str, Any]) -> dict[str, Any]:
    chk = Check(PID, job["tier"], job["seed"])
    signal.signal(signal.SIGALRM, _on_alarm)
    kind = job["kind"]
    if kind == "map":
        shard_map(chk, job)
    elif kind == "hang":
        shard_hang(chk, job)
    elif kind == "alloc":
        shard_alloc(chk, job)
    elif kind == "waitress":
        shard_waitress(chk, job)
    else:
        raise ValueError(kind)
    return chk.to_result()


def main(tier: str, seed: int) -> int:
    chk = Check(PID, tier, seed, level=CATEGORY, rule=RULE)
    chk.require(
        "requests_judged",
        "status_judged",
        "rpc_layer_bytes_compared",
        "dispatched",
        "capture_wrapper_calls",
        "status_413",
        "status_415",
        "status_400",
        "alloc_measured",
        "alloc_verdict_taken",
        "completion_judged",
        "chunked_nocl_judged",
        "real_chunked_judged",
    )
    chk.assumptions = [
        "zstandard and zlib (independent frame producers / decoders of the harness) and pyarrow are trusted",
        "tracemalloc sees the Python heap only; native buffers are seen through ru_maxrss growth in a forked child; the "
        "allocation verdict is taken only when both agree",
        "the chunked-without-Content-Length leg reproduces what wsgi.input_terminated servers (gunicorn) hand to the app; the "
        "real chunked leg uses waitress, which buffers the body and supplies CONTENT_LENGTH itself",
        "a request that does not return within the watchdog is a violation only with the logical no-progress probe, else inconclusive",
    ]
    rng = random.Random(f"{PID}:{seed}")
    nsh = shard.ncpu()
    fixed_sizes = [0, 1, 300, 4096, 65_000, 66_000, 140_000]
    if tier == "quick":
        sizes = fixed_sizes + [rng.randrange(2, 200_000) for _ in range(5)]
    else:
        sizes = fixed_sizes + [rng.randrange(2, 400_000) for _ in range(160)] + [65_536 - 500 + k * 32 for k in range(32)]
    rng.shuffle(sizes)
    jobs: list[dict[str, Any]] = []
    for i, part in enumerate(shard.split(sizes, max(1, nsh - 1) * (1 if tier == "quick" else 3))):
        jobs.append({"kind": "map", "tier": tier, "seed": seed * 1000 + i, "sizes": part})
    jobs.append({"kind": "hang", "tier": tier, "seed": seed * 1000 + 901, "psize": 150_000})
    jobs.append({"kind": "alloc", "tier": tier, "seed": seed * 1000 + 902, "cap": 256 * 1024, "total": 32 * 1024 * 1024})
    jobs.append({"kind": "waitress", "tier": tier, "seed": seed * 1000 + 903, "cap": 64 * 1024})
    if tier == "thorough":
        jobs.append({"kind": "alloc", "tier": tier, "seed": seed * 1000 + 904, "cap": 1024 * 1024, "total": 64 * 1024 * 1024})
        jobs.append({"kind": "waitress", "tier": tier, "seed": seed * 1000 + 905, "cap": 300 * 1024})
        jobs.append({"kind": "hang", "tier": tier, "seed": seed * 1000 + 906, "psize": 70_000})
    chk.extra["payload_sizes"] = sorted(sizes)
    chk.exhaustive["framings_x_cap_relations"] = True
    chk.exhaustive["payload_sizes"] = False
    for res in shard.pmap("checks.c17", "run_shard", jobs, timeout=600 if tier == "quick" else 3000):
        chk.merge(res)
    return chk.finish()

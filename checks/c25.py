"""C25 - sticky sessions are isolated by worker and identity.

Runtime monitoring of the real sticky machinery (``make_wsgi_app(enable_sticky=True)``
driven through the raw WSGI driver) against a reference model written from
``docs/sticky-sessions-spec.md``: a session is usable only on the worker that
minted its token, only under the identity that opened it, only while live.

Two legs:

* **histories** - seeded random sequences of open / resume / close / DELETE /
  clock step / reaper sweep / shutdown over 2-3 workers (shared key, distinct
  ``server_id``; plus a twin with the *same* ``server_id`` and a foreign-key
  worker), in which every token minted so far keeps being presented under every
  (worker, identity) pair of an adversarial identity table, with a method call
  and with ``DELETE {prefix}/__session__``;
* **mutations** - every single-bit flip, truncation and prefix drop of the sealed
  bytes and of the token text of sampled tokens, substitutions, extensions and
  re-encodings, presented on the owning worker under the owning identity while
  the session is live.

Monitors: HTTP boundary (status, ``vgi_rpc.error_kind``, result value, DELETE
status, full header list + body of DELETE 200s), the implementation's
invocation log (method dispatched?) and the session state object itself
(value, number of ``close()`` calls).  The reaper thread is not started; its
body (``drain_expired``) is run explicitly; ``time`` of ``_sticky`` is a logical clock.
"""

from __future__ import annotations

import base64
import random
from typing import Any

from lib import shard
from lib.evidence import Check

PID = "C25"
ENGINE = "E2-raw-drivers+E5-models"
TECHNIQUE = "model-based histories + exhaustive session-token mutation at the HTTP boundary, invocation log and state-object monitors"
LEVEL_TEXT = (
    "Exploration: seeded random session histories over 2-3 workers (+ same-server_id twin, foreign-key worker) in which every "
    "minted token is presented under every (worker, identity) pair of an adversarial identity table before/after close, DELETE, "
    "expiry, reaper sweep and shutdown; plus all bit flips / truncations / prefix drops of sampled tokens (bytes and text), "
    "substitutions, extensions, re-encodings. Each presentation judged against a reference model (owner => dispatched on the "
    "right state; anything else => session_lost, no dispatch, state untouched; DELETE 204 only for the live owner, all 200s identical). "
    "Held means no counterexample on those executions."
)
LEVEL_NOTE = "reaper thread replaced by explicit drain_expired() calls; logical clock on _sticky.time; concurrency is C26's subject"
CATEGORY = "exploration"
RULE = (
    "case = (token, lifecycle position, presenting worker relation, presenting identity relation, verb) or (token, mutation, verb); "
    "distinct class = (lifecycle, worker relation, identity relation, verb) / (mutation shape:envelope region, verb)"
)

KEY = b"C25-shared-token-key-32-bytes!!!"
TTL = 30.0
VOLATILE = {"x-request-id", "date"}


OPENS: dict[str, int] = {"ok": 0}
FORCED: list[bytes] = []
LAST_SID: list[bytes | None] = [None]


class World:
    def __init__(self, nworkers: int, clock: Any) -> None:
        import pyarrow as pa

        from lib.models import stickysvc
        from lib.models import tokenlab as tl
        from vgi_rpc.http import drain_handle
        from vgi_rpc.http.server import _sticky

        self.tl = tl
        self.clock = clock
        _sticky._StickyMiddleware._ensure_reaper = lambda self_: None  # type: ignore[method-assign]
        if not getattr(_sticky, "_verif_c25_wrapped", False):
            orig_open = _sticky._open_session_token

            def counting_open(*a: Any, **k: Any) -> Any:
                out = orig_open(*a, **k)
                OPENS["ok"] += 1  # reached only when the AEAD open + framing succeeded
                return out

            _sticky._open_session_token = counting_open  # type: ignore[assignment]
            real_secrets = _sticky.secrets

            class _Secrets:
                def token_bytes(self, n: int = 32) -> bytes:
                    v = FORCED.pop(0) if (n == 12 and FORCED) else real_secrets.token_bytes(n)
                    LAST_SID[0] = v
                    return v

                def __getattr__(self, name: str) -> Any:
                    return getattr(real_secrets, name)

            _sticky.secrets = _Secrets()  # type: ignore[assignment]
            _sticky._verif_c25_wrapped = True  # type: ignore[attr-defined]
        self.S = {
            "open": pa.schema([pa.field("initial", pa.int64(), nullable=False), pa.field("ttl", pa.float64(), nullable=False)]),
            "incr": pa.schema([pa.field("by", pa.int64(), nullable=False)]),
            "close_it": pa.schema([]),
            "plain": pa.schema([pa.field("x", pa.int64(), nullable=False)]),
        }
        self.workers: list[dict[str, Any]] = []
        specs = [(f"w{i}", f"srv{i:09d}", KEY) for i in range(nworkers)] + [("twin0", "srv000000000", KEY), ("foreign", "srvforeignkey", b"another-key-of-32-bytes-for-c25!!")]
        for name, sid, key in specs:
            impl = stickysvc.StickyImpl()
            app, _h = tl.make_app(stickysvc.StickySvc, impl, key=key, server_id=sid, enable_sticky=True, sticky_default_ttl=TTL)
            reg = None
            for group in getattr(app, "_middleware", ()):
                for bm in group:
                    owner = getattr(bm, "__self__", None)
                    if isinstance(owner, _sticky._StickyMiddleware):
                        reg = owner._registry
            self.workers.append({"name": name, "app": app, "impl": impl, "registry": reg, "drain": drain_handle(app), "server_id": sid, "key": key})
        self.nreal = nworkers

    def call(self, w: dict[str, Any], method: str, idx: int, row: dict[str, Any] | None, token: str | None, accept: bool = False) -> dict[str, Any]:
        from lib import httpdrv

        tl = self.tl
        extra: dict[str, str] = {}
        if token is not None:
            extra["VGI-Session"] = token
        if accept:
            extra["VGI-Session-Accept"] = "true"
        inv0 = len(w["impl"].inv)
        p0 = OPENS["ok"]
        r = httpdrv.call(w["app"], "POST", f"/{method}", tl.hdrs(idx, extra), httpdrv.request_body(method, self.S[method], row))
        o = tl.outcome(r)
        o["token_opened"] = OPENS["ok"] - p0
        o["new_inv"] = list(w["impl"].inv[inv0:])
        o["session_header"] = r.header("vgi-session")
        o["close_header"] = r.header("vgi-session-close")
        res = [b for b in o["batches"] if b[0] == "data"]
        o["result"] = res[0][1].get("result", [None])[0] if res else None
        return o

    def delete(self, w: dict[str, Any], idx: int, token: str | None) -> dict[str, Any]:
        from lib import httpdrv

        extra = {} if token is None else {"VGI-Session": token}
        inv0 = len(w["impl"].inv)
        h = self.tl.hdrs(idx, extra)
        h.pop("Content-Type", None)
        p0 = OPENS["ok"]
        r = httpdrv.call(w["app"], "DELETE", "/__session__", h, b"")
        return {
            "token_opened": OPENS["ok"] - p0,
            "status": r.status,
            "escaped": repr(r.exc)[:200] if r.exc is not None else None,
            "shape": (r.status, tuple(sorted((k.lower(), v) for k, v in r.headers if k.lower() not in VOLATILE)), r.body),
            "new_inv": list(w["impl"].inv[inv0:]),
        }


class Judge:
    def __init__(self, chk: Check) -> None:
        self.chk = chk
        self.delete200: dict[Any, str] = {}
        self.lost_msgs: dict[str, set[str]] = {}

    def opener(self, opened: int, keycls: str, w: dict[str, Any]) -> None:
        """Spec 3.1: rejection of a wrong-identity / forged token must come from the AEAD open itself."""
        if "other_identity" in keycls or keycls.startswith("mutated") or "foreign_key_worker" in keycls:
            if opened:
                short = keycls.split("other_identity:")[1].split(":")[0] if "other_identity:" in keycls else ("foreign_key_worker" if "foreign_key_worker" in keycls else keycls)
                self.chk.violation(f"token_opened_despite:{short}", "the session-token opener accepted a token presented under another identity / key / after tampering", w)
            else:
                self.chk.hit("bad_token_not_opened")

    # -- non-owner presentations -----------------------------------------
    def lost_call(self, o: dict[str, Any], st: Any, before: tuple[int, int], cls: str, keycls: str, wit: dict[str, Any]) -> None:
        chk = self.chk
        chk.case(f"{cls}|call")
        w = dict(wit, case=cls, outcome={k: o.get(k) for k in ("status", "error", "result", "new_inv", "session_header", "escaped")})
        if "escaped" in o and o.get("escaped"):
            chk.violation(f"exception_escaped_wsgi:{keycls}", "a presented session token made an exception escape the WSGI app", w)
            return
        self.opener(o.get("token_opened", 0), keycls, w)
        dispatched = [e for e in o["new_inv"] if e[0] != "state_close"]
        if dispatched:
            chk.violation(f"dispatched_for_non_owner:{keycls}", "the method was dispatched for a presentation that is not the live owner's", w)
        else:
            chk.hit("non_owner_not_dispatched")
        kind = (o.get("error") or (None, None, None))[2]
        if kind != "session_lost":
            chk.violation(f"not_session_lost:{keycls}", f"a non-owner presentation did not get a session_lost error (got kind={kind!r}, status={o['status']})", w)
        else:
            chk.hit("session_lost_seen")
            self.lost_msgs.setdefault(o["error"][1], set()).add(keycls)
        if st is not None and (st.value, st.closed) != before and not cls.startswith(("expired", "evicted", "swept", "closed", "deleted", "shutdown")):
            chk.violation(f"state_touched_by_non_owner:{keycls}", "the session state changed (value/close) through a non-owner presentation", dict(w, before=before, after=(st.value, st.closed)))

    def lost_delete(self, d: dict[str, Any], st: Any, before: tuple[int, int], cls: str, keycls: str, wit: dict[str, Any], *, may_close: bool = False) -> None:
        chk = self.chk
        chk.case(f"{cls}|delete")
        w = dict(wit, case=cls, delete_status=d["status"])
        if d["escaped"]:
            chk.violation(f"exception_escaped_wsgi:{keycls}", "a presented session token made an exception escape the WSGI app", w)
            return
        self.opener(d.get("token_opened", 0), keycls, w)
        if d["status"] == 204:
            chk.violation(f"delete_204_for_non_owner:{keycls}", "DELETE answered 204 for a presentation that is not the live owner's", w)
        elif d["status"] != 200:
            chk.violation(f"delete_not_200:{keycls}:status{d['status']}", "DELETE for a non-owner presentation is neither 204 nor the idempotent 200", w)
        else:
            chk.hit("delete_200_seen")
            self.delete200.setdefault(d["shape"], keycls)
        if st is not None and not may_close and (st.value, st.closed) != before:
            chk.violation(f"state_touched_by_non_owner:{keycls}", "the session state changed (value/close) through a non-owner DELETE", dict(w, before=before, after=(st.value, st.closed)))

    def finish(self) -> None:
        chk = self.chk
        if self.delete200:
            chk.hit("delete_200_shapes_compared", len(self.delete200))
            chk.case("delete_200_indistinguishable")
            if len(self.delete200) > 1:
                shapes = [{"status": s[0], "headers": list(s[1]), "body": s[2], "first_seen_for": c} for s, c in self.delete200.items()]
                chk.violation("delete_200_distinguishable", "two 'not yours / not live' DELETE answers differ in headers or body", {"shapes": shapes[:4]})


def _rel_worker(world: World, home: int, wi: int) -> str:
    if wi == home:
        return "home_worker"
    return {"twin0": "same_server_id_other_registry" if home == 0 else "other_worker", "foreign": "foreign_key_worker"}.get(world.workers[wi]["name"], "other_worker")


def run_history(hseed: str, chk: Check, judge: Judge, ids: list[int]) -> None:
    from lib.models import tokenlab as tl

    rng = random.Random(hseed)
    clock = tl.Clock(1_700_000_000.0 + rng.choice([0.0, 0.25, 0.5]))
    tl.install_clock(clock, sticky=True)
    world = World(rng.choice([2, 3]), clock)
    sessions: list[dict[str, Any]] = []
    nreal = world.nreal

    def status_of(s: dict[str, Any]) -> str:
        if s["status"] == "live" and clock.now > s["expires"]:
            return "expired"
        return s["status"]

    def present_everywhere(s: dict[str, Any], budget: int) -> None:
        pairs = [(wi, j) for wi in range(len(world.workers)) for j in ids]
        rng.shuffle(pairs)
        pairs.insert(rng.randrange(max(1, budget)), (s["home"], s["idx"]))  # the owner pair is always among the presentations
        for pw in s["partners"]:  # workers holding ANOTHER session under the same (forced) session id
            pairs.insert(rng.randrange(max(1, budget)), (pw, s["idx"]))
        home = world.workers[s["home"]]
        st = home["impl"].states[s["sid"]]
        for wi, j in pairs[:budget]:
            life = status_of(s)
            if life == "live" and abs(clock.now - s["expires"]) < 1e-9:
                chk.skip("clock exactly at expires_at: boundary not fixed by the statement")
                continue
            same = tl.same_identity(s["idx"], j)
            if same is None:
                chk.skip("identity pair differs only by None vs '' (statement silent)")
                continue
            wrel = _rel_worker(world, s["home"], wi)
            irel = "owner_identity" if same else "other_identity:" + tl.pair_relation(s["idx"], j)
            owner = life == "live" and wi == s["home"] and same
            verb = rng.choice(["incr", "incr", "plain", "delete"])
            cls = f"{life}|{wrel}|{irel.split(':')[0]}"
            keycls = f"{'removed' if life in ('closed', 'deleted', 'shutdown', 'swept') else life}:{wrel}:{irel}"
            if wi in s["partners"]:
                keycls += ":same_session_id_on_that_worker"
                chk.hit("collision_partner_presentations")
            wit = {"history": hseed, "session": {k: s[k] for k in ("home", "idx", "sid", "status")}, "presented_on": world.workers[wi]["name"], "as": tl.IDENTITIES[j][0], "lifecycle": life, "verb": verb}
            before = (st.value, st.closed)
            if verb == "delete":
                d = world.delete(world.workers[wi], j, s["token"])
                if owner:
                    chk.case(f"{cls}|delete")
                    if d["status"] != 204:
                        chk.violation("owner_delete_not_204", "DELETE by the live owner did not answer 204", dict(wit, status=d["status"]))
                    else:
                        chk.hit("owner_delete_204")
                    if st.closed != before[1] + 1:
                        chk.violation("owner_delete_close_count", "DELETE 204 did not invoke state.close() exactly once", dict(wit, closed=st.closed))
                    s["status"] = "deleted"
                else:
                    # an expired-but-unswept session may be closed in-line by a lookup from its own worker/identity
                    may_close = life == "expired" and wi == s["home"]
                    judge.lost_delete(d, st, before, cls, keycls, wit, may_close=may_close)
                continue
            row = {"by": 1} if verb == "incr" else {"x": 7}
            o = world.call(world.workers[wi], verb, j, row, s["token"])
            if owner:
                chk.case(f"{cls}|{verb}")
                exp_val = before[0] + 1 if verb == "incr" else 7
                names = [e[0] for e in o["new_inv"]]
                if o["error"] is not None or o["result"] != exp_val or names != [verb] or o["new_inv"][0][1] != s["sid"]:
                    chk.violation(f"owner_rejected_or_wrong_state:{verb}", "the live owner's call was not dispatched on its own session state", dict(wit, outcome={k: o[k] for k in ("status", "error", "result", "new_inv")}, expected=exp_val))
                else:
                    chk.hit("owner_dispatched")
            else:
                judge.lost_call(o, st, before, cls, keycls, wit)

    try:
        for _ in range(rng.choice([12, 20, 30])):
            r = rng.random()
            if not sessions or (r < 0.2 and len(sessions) < 5):
                wi = rng.randrange(nreal)
                idx = rng.choice(ids)
                others = [t for t in sessions if t["home"] != wi]
                if others and rng.random() < 0.5:
                    idx = rng.choice(others)["idx"]
                ttl = rng.choice([0.0, 0.0, 5.0, 60.0])
                twin = None
                if rng.random() < 0.7:
                    # same identity, another worker, same session id: only the server_id binding tells the two apart
                    twins = [t for t in sessions if t["home"] != wi and tl.same_identity(t["idx"], idx) is True and t["session_id"] is not None and not any(u["home"] == wi and u["session_id"] == t["session_id"] for u in sessions)]
                    if twins:
                        twin = rng.choice(twins)
                        FORCED.append(twin["session_id"])
                o = world.call(world.workers[wi], "open", idx, {"initial": rng.randrange(100), "ttl": ttl}, None, accept=True)
                if FORCED:
                    FORCED.clear()
                    twin = None
                if o["error"] is not None or not o["session_header"]:
                    chk.violation("open_failed", "open_session did not return a token", {"history": hseed, "outcome": {k: o[k] for k in ("status", "error", "new_inv")}})
                    continue
                sessions.append({"home": wi, "idx": idx, "sid": o["result"], "token": o["session_header"], "session_id": LAST_SID[0], "partners": [], "status": "live", "expires": clock.now + (ttl if ttl > 0 else TTL)})
                chk.hit("sessions_opened")
                if twin is not None and LAST_SID[0] == twin["session_id"]:
                    chk.hit("forced_session_id_collisions")
                    sessions[-1]["partners"].append(twin["home"])
                    twin["partners"].append(wi)
                    present_everywhere(twin, 3)
                    present_everywhere(sessions[-1], 3)
                continue
            s = rng.choice(sessions)
            if r < 0.3:
                clock.now += rng.choice([0.5, 1.0, 4.0, 5.0, 6.0, 29.0, 30.0, 31.0, 61.0])
                chk.hit("clock_steps")
            elif r < 0.36:
                w = world.workers[rng.randrange(nreal)]
                w["registry"].drain_expired()
                chk.hit("reaper_sweeps")
                for t in sessions:
                    if world.workers[t["home"]] is w and status_of(t) == "expired":
                        t["status"] = "swept"
            elif r < 0.40:
                wi = rng.randrange(nreal)
                world.workers[wi]["drain"].shutdown()
                chk.hit("shutdowns")
                for t in sessions:
                    if t["home"] == wi and t["status"] == "live":
                        t["status"] = "shutdown" if status_of(t) == "live" else "swept"
            elif r < 0.48 and status_of(s) == "live":
                st = world.workers[s["home"]]["impl"].states[s["sid"]]
                c0 = st.closed
                o = world.call(world.workers[s["home"]], "close_it", s["idx"], None, s["token"])
                chk.case("live|home_worker|owner_identity|close_it")
                if o["error"] is not None or o["close_header"] != "true" or st.closed != c0 + 1:
                    chk.violation("owner_close_failed", "close_session by the live owner did not close the session exactly once", {"history": hseed, "outcome": {k: o[k] for k in ("status", "error", "new_inv", "close_header")}, "closed": st.closed})
                else:
                    chk.hit("owner_closed")
                s["status"] = "closed"
            else:
                present_everywhere(s, rng.choice([4, 8, 16]))
        # final sweep: every token under every pair once more
        for s in sessions:
            present_everywhere(s, 6)
        # DELETE without any token
        d = world.delete(world.workers[0], rng.choice(ids), None)
        judge.lost_delete(d, None, (0, 0), "no_token|home_worker|n/a", "no_token", {"history": hseed})
        chk.hit("histories")
        if clock.reads:
            chk.hit("clock_shim_read")
        if len(chk.samples) < 3:
            chk.sample({"history": hseed, "workers": [w["name"] for w in world.workers], "sessions": [{k: s[k] for k in ("home", "idx", "status")} for s in sessions]})
    finally:
        for w in world.workers:
            try:
                w["drain"].shutdown()
            except Exception:  # noqa: BLE001
                pass


def run_mutations(job: dict[str, Any], chk: Check, judge: Judge) -> None:
    from lib.models import tokenlab as tl

    rng = random.Random(job["seed"])
    clock = tl.Clock()
    tl.install_clock(clock, sticky=True)
    world = World(2, clock)
    idx = tl.ID_INDEX[job["id"]]
    w = world.workers[job["worker"]]
    o = world.call(w, "open", idx, {"initial": 10, "ttl": 0.0}, None, accept=True)
    token = o["session_header"]
    if not token:
        chk.violation("open_failed", "open_session did not return a token", {"outcome": {k: o[k] for k in ("status", "error")}})
        return
    st = w["impl"].states[o["result"]]
    sealed = base64.urlsafe_b64decode(token + "=" * (-len(token) % 4))
    base = world.call(w, "incr", idx, {"by": 1}, token)
    if base["error"] is not None or base["result"] != 11:
        chk.violation("owner_rejected_or_wrong_state:incr", "the live owner's call was not dispatched on its own session state", {"outcome": {k: base[k] for k in ("status", "error", "result")}})
        return
    chk.hit("owner_dispatched")

    def present(text: str, cls: str, equivalent: bool) -> None:
        if text == "":
            chk.skip("empty VGI-Session value: the same as presenting no token")
            return
        wit = {"job": {k: job[k] for k in ("id", "worker", "seed")}, "token_text": text[:140]}
        fam = cls.split(":")[0]
        before = (st.value, st.closed)
        oo = world.call(w, "incr", idx, {"by": 1}, text)
        if equivalent:
            chk.case(f"equiv:{cls}|call")
            if oo["error"] is None:
                chk.hit("equivalent_encoding_accepted")
                if oo["result"] != before[0] + 1 or [e[:2] for e in oo["new_inv"]] != [("incr", st.sid)]:
                    chk.violation(f"equivalent_encoding_diverges:{fam}", "an accepted re-encoding of the token did not behave like the original", dict(wit, outcome={k: oo[k] for k in ("status", "error", "result", "new_inv")}))
            else:
                chk.hit("equivalent_encoding_rejected")
                judge.lost_call(oo, st, before, "mutated_equiv:" + cls, "mutated:" + fam, wit)
            return
        judge.lost_call(oo, st, before, "mutated:" + cls, "mutated:" + fam, wit)
        before = (st.value, st.closed)
        d = world.delete(w, idx, text)
        judge.lost_delete(d, st, before, "mutated:" + cls, "mutated:" + fam, wit)

    n = 0
    for cls, raw in tl.raw_mutations(sealed, rng, exhaustive=True):
        if raw == sealed:
            continue
        n += 1
        present(tl.enc_url_nopad(raw).decode(), cls, False)
    chk.hit("raw_mutations", n)
    tb = token.encode()
    for cls, text in tl.text_mutations(tb, rng, exhaustive=True):
        if text == tb:
            continue
        s = text.decode("latin-1")
        if any(c in s for c in "\r\n") or s != s.strip(" \t"):
            # not transportable as one header value / whitespace is trimmed by HTTP itself
            chk.skip("variant not transportable in a header field (CR/LF or outer blanks)")
            continue
        present(s, cls, tl.equivalent_encoding(text, sealed))
    chk.hit("text_mutations")
    after = world.call(w, "incr", idx, {"by": 1}, token)
    if after["error"] is not None or after["result"] != st.value or st.closed:
        chk.violation("owner_rejected_after_mutations", "after the mutation run the untouched token no longer reaches its live session", {"outcome": {k: after[k] for k in ("status", "error", "result")}, "closed": st.closed})
    else:
        chk.hit("owner_dispatched")
    d = world.delete(w, idx, token)
    chk.case("live|home_worker|owner_identity|delete")
    if d["status"] != 204 or st.closed != 1:
        chk.violation("owner_delete_not_204", "DELETE by the live owner did not answer 204 / close once", {"status": d["status"], "closed": st.closed})
    else:
        chk.hit("owner_delete_204")
    chk.sample({"mutation_job": job, "token_len": len(token), "sealed_len": len(sealed)})


def run_shard(job: dict[str, Any]) -> dict[str, Any]:
    from lib.models import tokenlab as tl

    chk = Check(PID, job["tier"], job["seed"], level=CATEGORY, rule=RULE)
    judge = Judge(chk)
    try:
        if job["kind"] == "histories":
            ids = [tl.ID_INDEX[x] for x in job["ids"]]
            for h in job["histories"]:
                run_history(h, chk, judge, ids)
        else:
            run_mutations(job, chk, judge)
    except Exception as exc:  # noqa: BLE001
        import traceback

        chk.inconclusive_because(f"shard {job['kind']} crashed: {exc!r} {traceback.format_exc()[-800:]}")
    judge.finish()
    res = chk.to_result()
    res["delete200"] = [[list(map(list, s[1])), s[0], s[2].hex(), c] for s, c in judge.delete200.items()]
    res["lost_msgs"] = {m: sorted(c)[:6] for m, c in judge.lost_msgs.items()}
    return res


def main(tier: str, seed: int) -> int:
    from lib.models import tokenlab as tl

    chk = Check(PID, tier, seed, level=CATEGORY, rule=RULE)
    chk.require(
        "histories",
        "sessions_opened",
        "owner_dispatched",
        "owner_delete_204",
        "owner_closed",
        "bad_token_not_opened",
        "forced_session_id_collisions",
        "collision_partner_presentations",
        "non_owner_not_dispatched",
        "session_lost_seen",
        "delete_200_seen",
        "delete_200_shapes_compared",
        "raw_mutations",
        "text_mutations",
        "clock_steps",
        "clock_shim_read",
        "reaper_sweeps",
        "shutdowns",
    )
    chk.assumptions += [
        "reaper thread not started; drain_expired() invoked explicitly; logical clock rebound over `time` in _sticky",
        "'equivalent encoding' = a lenient stdlib base64 reading of the presented text yields exactly the original sealed bytes",
        "`secrets.token_bytes(12)` of _sticky rebound to force equal session ids on two different workers (same identity) in half of the opens where possible",
        "uniformity of session_lost *messages* is recorded (evidence: session_lost_messages), not judged: the C25 statement only requires the error kind",
    ]
    nh, nm = (140, 6) if tier == "quick" else (4000, 96)
    ids_q = ["anon", "empty_dom_anonymous", "d_alice", "d_bob", "e_alice", "a_bNULc", "a_b", "ab_c", "a_bc", "none_x", "empty_x"]
    ids_all = [lab for lab, *_r in tl.IDENTITIES]
    hs = [f"h:{seed}:{i}" for i in range(nh)]
    jobs: list[dict[str, Any]] = [{"kind": "histories", "histories": part, "ids": ids_q if tier == "quick" else ids_all, "tier": tier, "seed": seed} for part in shard.split(hs, 8 if tier == "quick" else 48)]
    for k in range(nm):
        jobs.append({"kind": "mutations", "id": ids_all[(k * 3 + seed) % len(ids_all)], "worker": k % 2, "seed": seed * 1000 + k, "tier": tier})
    shapes: dict[str, str] = {}
    msgs: dict[str, set[str]] = {}
    for res in shard.pmap("checks.c25", "run_shard", jobs, timeout=1500.0):
        chk.merge(res)
        for hdrs, status, body, c in res.get("delete200", []):
            shapes.setdefault(repr((status, hdrs, body)), c)
        for m, cs in res.get("lost_msgs", {}).items():
            msgs.setdefault(m, set()).update(cs)
    if len(shapes) > 1 and "delete_200_distinguishable" not in chk.violations:
        chk.violation("delete_200_distinguishable", "two 'not yours / not live' DELETE answers differ in headers or body (across shards)", {"shapes": [{"shape": s, "first_seen_for": c} for s, c in list(shapes.items())[:4]]})
    chk.extra["delete_200_distinct_shapes"] = len(shapes)
    chk.extra["session_lost_messages"] = {m: sorted(c)[:8] for m, c in sorted(msgs.items())}
    chk.exhaustive["bit_flips_truncations_per_sampled_token"] = True
    chk.exhaustive["histories"] = False
    return chk.finish()

"""C15 - HTTP status codes and body shapes follow the mapping.

The request space of the property's quantifier (route x method class x body x
content type x content encoding x token [x size x auth x protocol version]) is
enumerated class by class against real Falcon apps built around a fixed svcgen
service and seeded generated services, through the raw WSGI driver.  Every
response is judged against ``lib.models.http_status`` (written from
WIRE_PROTOCOL.md sections 10 and 13): admissible status for the defects the
generator put into the request, no 5xx, Arrow IPC body (with an error batch on
4xx) unless 401/415, error marker <=> in-band failure on 200, and - through the
server-side invocation log - 'dispatched <=> 200'.
"""

from __future__ import annotations

import io
import random
import re
import signal
from typing import Any

from lib import shard
from lib.evidence import Check

PID = "C15"
ENGINE = "E1-svcgen-rig+E2-raw-drivers+E5-models"
TECHNIQUE = "request-space map: status / marker / body shape / dispatch log per request class vs. spec status model"
LEVEL_TEXT = (
    "Exploration: every class of the quantifier's product (route x known/unknown/kind-mismatched method x "
    "valid/corrupted/truncated/empty/batch-less/wrong-metadata/wrong-parameter body x correct/wrong/missing content type x "
    "none/zstd/gzip/identity/unsupported/corrupt content encoding x valid/tampered/missing/garbage/expired token, plus "
    "size-cap, authentication and protocol-version variants) is instantiated several times against the real WSGI app for a "
    "fixed and for generated services; status, error marker, content type, body decodability and the server-side "
    "invocation log are compared with a model written from the spec. Exhaustive over the classes, sampled within a class."
)
LEVEL_NOTE = (
    "precedence between simultaneous defects is not specified: any defect's status is admitted; mutated bodies that an "
    "independent Arrow reader still accepts admit 200 as well; kind-mismatched methods admit 400 or 404; pyarrow trusted"
)
CATEGORY = "exploration"
RULE = (
    "case = (app configuration, service, route, target method class, body kind, content-type kind, content-encoding kind, "
    "token kind, size kind, auth kind); several seeded instances per class (random arguments, corruption offsets, "
    "truncation points); distinct class = that tuple without the random values"
)

ARROW_CT = "application/vnd.apache.arrow.stream"
STATE_KEY = b"vgi_rpc.stream_state#b64"
CALL_KEY = b"vgi_rpc.call_state#b64"
WATCHDOG_S = 30

FIXED: dict[str, Any] = {
    "name": "FixSvc",
    "methods": [
        {"name": "echo", "kind": "unary", "params": [("s", ("str",))], "ret": ("str",), "u": {"logs": [("INFO", "hi", {})], "act": ("echo", "s")}},
        {"name": "add", "kind": "unary", "params": [("a", ("int",)), ("b", ("float",))], "ret": ("float",), "u": {"logs": [], "act": ("return", 1.5)}},
        {"name": "boom", "kind": "unary", "params": [("n", ("int",))], "ret": ("int",), "u": {"logs": [], "act": ("raise", "ValueError", "bad value")}},
        {"name": "void", "kind": "unary", "params": [], "ret": None, "u": {"logs": [], "act": ("return", None)}},
        {
            "name": "prod",
            "kind": "producer",
            "params": [("n", ("int",))],
            "header": False,
            "out_cols": ["i"],
            "init": {"logs": [], "act": ("ok",)},
            "steps": [{"logs": [], "act": "emit", "rows": 2}, {"logs": [], "act": "emit", "rows": 2}, {"logs": [], "act": "finish"}],
        },
        {
            "name": "prodh",
            "kind": "producer",
            "params": [],
            "header": True,
            "out_cols": ["i", "s"],
            "init": {"logs": [("WARN", "w", {})], "act": ("ok",)},
            "steps": [{"logs": [], "act": "emit", "rows": 1}, {"logs": [], "act": "raise", "exc": ("RuntimeError", "step failed")}],
        },
        {
            "name": "exch",
            "kind": "exchange",
            "params": [],
            "header": False,
            "out_cols": ["i"],
            "in_cols": ["i"],
            "init": {"logs": [], "act": ("ok",)},
            "steps": [{"logs": [], "act": "emit"}],
        },
        {
            "name": "initboom",
            "kind": "producer",
            "params": [],
            "header": False,
            "out_cols": ["i"],
            "init": {"logs": [], "act": ("raise", "KindError", "init failed")},
            "steps": [],
        },
    ],
    "calls": [],
}
# what the fixed service's valid calls must look like in band (True = the call fails)
FIXED_FAILS = {("unary", "echo"): False, ("unary", "add"): False, ("unary", "boom"): True, ("unary", "void"): False, ("init", "prod"): False, ("init", "exch"): False, ("init", "initboom"): True}

APPS: dict[str, dict[str, Any]] = {
    "plain": {"prefix": "", "describe": True},
    "prefix": {"prefix": "/vgi"},
    "cap": {"prefix": "", "max_request_bytes": 8192},
    "auth": {"prefix": "/vgi", "auth": True},
    "pver": {"prefix": "", "version": "1.2.0"},
    "ttl": {"prefix": "", "token_ttl": 60},
}

BODY_KINDS_CALL = [
    "valid",
    "corrupt",
    "truncated",
    "empty",
    "no_batch",
    "method_missing",
    "method_mismatch",
    "version_missing",
    "version_wrong",
    "missing_col",
    "extra_col",
    "null_param",
    "wrong_type",
    "two_rows",
    "zero_rows",
]
BODY_KINDS_EXCH = ["valid", "corrupt", "truncated", "empty", "no_batch"]
TOKEN_KINDS = ["valid", "missing", "tampered", "garbage"]
CT_KINDS = ["ok", "wrong", "missing"]
CE_KINDS = ["none", "zstd", "gzip", "identity", "unsupported", "corrupt"]
WRONG_CTS = ["application/json", "application/octet-stream", "application/vnd.apache.arrow.file", "text/plain", "Application/Vnd.Apache.Arrow.Stream+x"]
UNSUPPORTED_CES = ["br", "deflate", "compress", "x-gzip", "zstd, gzip", "snappy"]


BODY_GROUP = {"corrupt": "malformed", "truncated": "malformed", "bitflip_sweep": "malformed", "empty": "malformed"}


class Watchdog(BaseException):
    pass


def _on_alarm(signum: int, frame: Any) -> None:
    raise Watchdog()


# ---------------------------------------------------------------------------
# building apps
# ---------------------------------------------------------------------------


def build_app(cfg: dict[str, Any], program: dict[str, Any]) -> tuple[Any, Any, Any]:
    import warnings

    from lib import svcgen
    from vgi_rpc.http import make_wsgi_app
    from vgi_rpc.rpc import AuthContext, RpcServer

    prog = dict(program)
    if cfg.get("version"):
        prog["version"] = cfg["version"]
    proto, impl = svcgen.build(prog)
    server = RpcServer(proto, impl, enable_describe=bool(cfg.get("describe")))
    kw: dict[str, Any] = {"prefix": cfg.get("prefix", ""), "token_key": b"k" * 32}
    if cfg.get("max_request_bytes") is not None:
        kw["max_request_bytes"] = cfg["max_request_bytes"]
    if cfg.get("token_ttl") is not None:
        kw["token_ttl"] = cfg["token_ttl"]
    if cfg.get("auth"):

        def authenticate(req: Any) -> Any:
            if req.get_header("Authorization") != "Bearer good":
                raise ValueError("bad credentials")
            return AuthContext(domain="test", authenticated=True, principal="alice")

        kw["authenticate"] = authenticate
    with warnings.catch_warnings():
        warnings.simplefilter("ignore")
        app = make_wsgi_app(server, **kw)
    return app, server, impl


# ---------------------------------------------------------------------------
# request construction
# ---------------------------------------------------------------------------


def valid_call_bytes(info: Any, kwargs: dict[str, Any], pver: str | None) -> bytes:
    from vgi_rpc.rpc._wire import _write_request

    buf = io.BytesIO()
    _write_request(buf, info.name, info.params_schema, kwargs, protocol_version=pver)
    return buf.getvalue()


def reserialise(batch: Any, md: dict[bytes, bytes]) -> bytes:
    from lib import httpdrv

    return httpdrv.ipc_bytes(batch, md)


def mutate_call_body(kind: str, valid: bytes, info: Any, other_names: list[str], rng: random.Random) -> tuple[bytes, set[str], bool] | None:
    """(body, defects, maybe_valid) for a unary/init body of *kind*; None when the kind does not apply to this method."""
    import pyarrow as pa

    from lib import httpdrv

    if kind == "valid":
        return valid, set(), False
    if kind == "empty":
        return b"", {"ipc_malformed"}, False
    if kind in ("corrupt", "truncated"):
        if kind == "corrupt":
            b = bytearray(valid)
            style = rng.choice(["flip", "span", "head"])
            if style == "flip":
                for _ in range(rng.choice([1, 2, 8])):
                    i = rng.randrange(len(b))
                    b[i] ^= 1 << rng.randrange(8)
            elif style == "span":
                i = rng.randrange(len(b))
                n = rng.choice([4, 16, 64])
                b[i : i + n] = rng.randbytes(len(b[i : i + n]))
            else:
                b[: rng.choice([1, 4, 8])] = rng.randbytes(rng.choice([1, 4, 8]))
            body = bytes(b)
        else:
            body = valid[: rng.randrange(1, len(valid))]
        # independent judge: if schema + first batch still read, the request batch itself may be intact
        # (damage confined to what follows it), so the call may legitimately be accepted
        ok = False
        try:
            pa.ipc.open_stream(body).read_next_batch_with_custom_metadata()
            ok = True
        except Exception:  # noqa: BLE001 - independent reader says: malformed
            ok = False
        return body, {"ipc_malformed"}, ok
    parsed = httpdrv.parse_ipc(valid)
    batch, md_s = parsed[0]
    md = {k.encode(): v for k, v in md_s.items()}
    schema = batch.schema
    if kind == "no_batch":
        sink = io.BytesIO()
        with pa.ipc.new_stream(sink, schema):
            pass
        return sink.getvalue(), {"ipc_no_batch"}, False
    if kind == "method_missing":
        md.pop(b"vgi_rpc.method", None)
        return reserialise(batch, md), {"metadata_method_missing"}, False
    if kind == "method_mismatch":
        md[b"vgi_rpc.method"] = rng.choice(other_names + ["zzz_not_a_method"]).encode()
        return reserialise(batch, md), {"metadata_method_mismatch"}, False
    if kind == "version_missing":
        md.pop(b"vgi_rpc.request_version", None)
        return reserialise(batch, md), {"metadata_version_missing"}, False
    if kind == "version_wrong":
        md[b"vgi_rpc.request_version"] = rng.choice([b"2", b"0", b"", b"01", b"1.0", b"one"])
        return reserialise(batch, md), {"metadata_version_wrong"}, False
    if kind == "pver_missing":
        md.pop(b"vgi_rpc.protocol_version", None)
        return reserialise(batch, md), {"protocol_version_mismatch"}, False
    if kind == "pver_mismatch":
        md[b"vgi_rpc.protocol_version"] = rng.choice([b"2.0.0", b"1.3.0", b"0.2.0", b"1.1.9"])
        return reserialise(batch, md), {"protocol_version_mismatch"}, False
    if kind == "pver_malformed":
        md[b"vgi_rpc.protocol_version"] = rng.choice([b"1.2", b"v1.2.0", b"1.2.0-rc1", b"01.2.0", b"", b"\xff\xfe"])
        return reserialise(batch, md), {"protocol_version_mismatch"}, False
    if kind == "pver_patch_differs":
        md[b"vgi_rpc.protocol_version"] = b"1.2.7"
        return reserialise(batch, md), set(), False
    # parameter-shape kinds need at least one parameter
    required = [f.name for f in schema if f.name not in getattr(info, "param_defaults", {})]
    if len(schema) == 0:
        return None
    if kind == "missing_col":
        if not required:
            return None
        drop = rng.choice(required)
        keep = [n for n in schema.names if n != drop]
        return reserialise(batch.select(keep), md), {"param_rejected"}, False
    if kind == "extra_col":
        b2 = batch.append_column("zz_unexpected", pa.array([7], type=pa.int64()))
        # rejecting an undeclared column is a parameter rejection (400); tolerating it is not forbidden
        return reserialise(b2, md), {"param_rejected"}, True
    if kind == "null_param":
        cands = [f for f in schema if not f.nullable]
        if not cands:
            return None
        f = rng.choice(cands)
        idx = schema.get_field_index(f.name)
        arrays = list(batch.columns)
        arrays[idx] = pa.array([None], type=f.type)
        fields = list(schema)
        fields[idx] = pa.field(f.name, f.type, nullable=True)
        b2 = pa.RecordBatch.from_arrays(arrays, schema=pa.schema(fields))
        return reserialise(b2, md), {"param_rejected"}, False
    if kind == "wrong_type":
        f = schema.field(rng.randrange(len(schema)))
        idx = schema.get_field_index(f.name)
        arrays = list(batch.columns)
        arrays[idx] = pa.array([[1, 2]], type=pa.list_(pa.int64()))
        fields = list(schema)
        fields[idx] = pa.field(f.name, pa.list_(pa.int64()), nullable=f.nullable)
        b2 = pa.RecordBatch.from_arrays(arrays, schema=pa.schema(fields))
        return reserialise(b2, md), {"param_rejected"}, False
    if kind == "two_rows":
        t = pa.Table.from_batches([batch, batch]).combine_chunks().to_batches()[0]
        return reserialise(t, md), {"param_rejected"}, False
    if kind == "zero_rows":
        return reserialise(batch.slice(0, 0), md), {"param_rejected"}, False
    raise AssertionError(kind)


def tamper_token(tok: bytes, rng: random.Random) -> bytes:
    b = bytearray(tok)
    i = rng.randrange(len(b))
    alphabet = b"ABCDEFGHIJKLMNOPQRSTUVWXYZabcdefghijklmnopqrstuvwxyz0123456789"
    c = rng.choice(alphabet)
    while c == b[i]:
        c = rng.choice(alphabet)
    b[i] = c
    return bytes(b)


def apply_encoding(kind: str, body: bytes, rng: random.Random) -> tuple[bytes, str | None, set[str]]:
    """(wire body, Content-Encoding header or None, defects)."""
    import zlib

    import zstandard

    if kind == "none":
        return body, None, set()
    if kind == "identity":
        return body, rng.choice(["identity", "Identity"]), set()
    if kind == "zstd":
        return zstandard.ZstdCompressor(level=rng.choice([1, 3])).compress(body), rng.choice(["zstd", "ZSTD", " zstd "]), set()
    if kind == "gzip":
        co = zlib.compressobj(rng.choice([1, 6]), zlib.DEFLATED, 31)
        return co.compress(body) + co.flush(), rng.choice(["gzip", "GZip"]), set()
    if kind == "unsupported":
        return body, rng.choice(UNSUPPORTED_CES), {"encoding_unsupported"}
    if kind == "corrupt":
        codec = rng.choice(["zstd", "gzip"])
        style = rng.choice(["plain", "garbage", "truncated", "flipped"])
        if codec == "zstd":
            good = zstandard.ZstdCompressor().compress(body or b"x")
        else:
            co = zlib.compressobj(6, zlib.DEFLATED, 31)
            good = co.compress(body or b"x") + co.flush()
        if style == "plain":
            wire = body if body else b"\x00"
        elif style == "garbage":
            wire = rng.randbytes(rng.choice([1, 7, 64]))
        elif style == "truncated":
            wire = good[: max(1, len(good) // 2)]
        else:
            b = bytearray(good)
            for k in range(min(6, len(b))):  # header bytes: breaks the magic / frame descriptor
                b[k] ^= 0xA5
            wire = bytes(b)
        return wire, codec, {"encoding_corrupt"}
    raise AssertionError(kind)


def slug(text: str) -> str:
    return re.sub(r"[^a-z0-9]+", "_", text.lower()).strip("_")[:70]


# ---------------------------------------------------------------------------
# judging
# ---------------------------------------------------------------------------


def judge(chk: Check, case: dict[str, Any], r: Any, new_inv: list[Any]) -> None:
    import json

    from lib import httpdrv
    from lib.models import http_status as hs

    route = case["route"]
    defects = frozenset(case["defects"])
    sig = hs.signature(defects)
    adm = hs.admissible(defects, maybe_valid=case["maybe_valid"]) | frozenset(case.get("extra_adm", ()))
    wit = {k: case[k] for k in ("app", "route", "path", "mclass", "body_kind", "ct_kind", "ce_kind", "token_kind", "size_kind", "auth_kind", "defects", "headers")}
    wit["status"] = r.status
    wit["resp_content_type"] = r.header("content-type")
    wit["body_head"] = r.body[:120]
    chk.case("|".join(str(case[k]) for k in ("app", "svc_kind", "route", "mclass", "body_kind", "ct_kind", "ce_kind", "token_kind", "size_kind", "auth_kind")))
    chk.hit("responses_judged")
    chk.hit(f"status_{r.status}")
    if r.exc is not None:
        if isinstance(r.exc, Watchdog):
            chk.inconclusive_because(f"watchdog fired on {route}:{sig}")
        else:
            chk.violation(f"wsgi_app_raised:{route}:{type(r.exc).__name__}", "the WSGI callable raised instead of answering", {**wit, "exc": repr(r.exc)})
        return
    # ---- what produced the response (mechanism for keys) --------------------
    ct = (r.header("content-type") or "").strip()
    streams: list[Any] | None = None
    decode_error: Exception | None = None
    origin = slug(ct or "no_content_type")
    falcon_level = False
    if ct == ARROW_CT:
        try:
            streams = httpdrv.parse_ipc_multi(r.decoded_body())
            errs = [httpdrv.error_of(s2) for s2 in streams]
            first = next((e for e in errs if e is not None), None)
            origin = f"arrow_error:{first['type']}" if first is not None else "arrow_no_error"
        except Exception as exc:  # noqa: BLE001
            decode_error = exc
            origin = "arrow_undecodable"
    else:
        try:
            origin = "falcon:" + slug(str(json.loads(r.body.decode())["title"]))
            falcon_level = True
        except Exception:  # noqa: BLE001
            pass
    wit["origin"] = origin
    # ---- status -----------------------------------------------------------
    if hs.is_5xx(r.status):
        chk.violation(
            f"status_5xx:{route}:body={BODY_GROUP.get(case['body_kind'], case['body_kind'])}:token={case['token_kind']}",
            f"client-controlled input produced HTTP {r.status} (defects [{sig}])",
            wit,
        )
    elif r.status == 200 and not new_inv and (not case.get("describe") or origin.startswith("arrow_error")):
        # nothing was dispatched: the request was refused, but reported as 200
        chk.violation(
            f"unexpected_status:{route}:got_200:refused_as_server_error:body={'malformed' if defects & {'ipc_malformed', 'encoding_corrupt'} else BODY_GROUP.get(case['body_kind'], case['body_kind'])}",
            f"request refused without dispatch but answered 200 ({origin}); the mapping admits {sorted(adm - {200}) or sorted(adm)} for defects [{sig}]",
            wit,
        )
    elif r.status not in adm:
        if falcon_level:
            key = f"unexpected_status:got_{r.status}:{origin}:ce={case['ce_kind']}"
        else:
            key = f"unexpected_status:{route}:got_{r.status}:{origin}"
        chk.violation(key, f"status {r.status} ({origin}) but the mapping admits {sorted(adm)} for defects [{sig}]", wit)
    # ---- body shape ---------------------------------------------------------
    has_exc: bool | None = None
    if hs.must_be_arrow(r.status) and not hs.is_5xx(r.status):
        chk.hit("body_shape_judged")
        if ct != ARROW_CT:
            chk.violation(
                f"non_arrow_body:{r.status}:{origin}",
                f"a {r.status} response must carry an Arrow IPC body; got Content-Type {ct!r}",
                wit,
            )
        elif streams is None:
            chk.violation(
                f"undecodable_arrow_body:{r.status}:{route}",
                f"body announced as Arrow IPC does not decode: {type(decode_error).__name__}: {str(decode_error)[:100]}",
                wit,
            )
        else:
            chk.hit("arrow_body_decoded")
            has_exc = any(httpdrv.error_of(s2) is not None for s2 in streams)
            if has_exc is False and 400 <= r.status < 500:
                chk.violation(f"arrow_4xx_without_error_batch:{r.status}:{route}", "4xx Arrow body carries no EXCEPTION batch", wit)
    # ---- marker <=> failure on 200 -----------------------------------------
    marker = (r.header("x-vgi-rpc-error") or "").strip().lower() == "true"
    if r.status == 200 and has_exc is not None:
        chk.hit("marker_judged")
        if has_exc and not marker:
            chk.violation(f"marker_missing_on_failed_call:{route}", "200 body carries an EXCEPTION batch but X-VGI-RPC-Error is absent", wit)
        if marker and not has_exc:
            chk.violation(f"marker_on_successful_call:{route}", "X-VGI-RPC-Error: true on a 200 whose body has no EXCEPTION batch", wit)
        want = case.get("expect_fail")
        if want is not None and not defects and not case["maybe_valid"]:
            chk.hit("known_outcome_judged")
            if want != has_exc:
                chk.violation(
                    f"in_band_outcome_wrong:{route}:{'expected_failure' if want else 'expected_success'}",
                    "the scripted method's outcome (raise / return) is not what the 200 body reports",
                    wit,
                )
    # ---- dispatched <=> 200 (server-side invocation log) ---------------------
    chk.hit("dispatch_judged")
    if r.status != 200 and new_inv:
        chk.violation(
            f"dispatched_despite_{r.status}:{route}:body={case['body_kind']}:token={case['token_kind']}",
            f"the implementation was invoked ({new_inv[0][0]}) although the request was answered {r.status}",
            {**wit, "invocations": [list(map(str, e[:3])) for e in new_inv[:3]]},
        )


# ---------------------------------------------------------------------------
# case enumeration for one (app, service)
# ---------------------------------------------------------------------------


def enumerate_and_run(chk: Check, app_name: str, cfg: dict[str, Any], program: dict[str, Any], svc_kind: str, rng: random.Random, instances: int) -> None:
    import pyarrow as pa

    from lib import httpdrv, svcgen, tygen

    app, server, impl = build_app(cfg, program)
    prefix = cfg.get("prefix", "")
    pver = cfg.get("version")
    scripts = {m["name"]: m for m in program["methods"]}
    methods = dict(server.methods)
    unary = [n for n, i in methods.items() if i.method_type.value == "unary"]
    streams = [n for n, i in methods.items() if i.method_type.value == "stream"]
    base_headers: dict[str, str] = {}
    if cfg.get("auth"):
        base_headers["Authorization"] = "Bearer good"

    def kwargs_for(name: str) -> dict[str, Any]:
        m = scripts.get(name)
        if m is None:
            return {}
        return {p[0]: tygen.gen_value(p[1], rng) for p in m["params"]}

    def send(case: dict[str, Any], body: bytes, headers: dict[str, str]) -> None:
        before = len(impl.inv)
        signal.setitimer(signal.ITIMER_REAL, WATCHDOG_S)
        try:
            r = httpdrv.call(app, "POST", case["path"], headers, body)
        finally:
            signal.setitimer(signal.ITIMER_REAL, 0)
        case["headers"] = headers
        judge(chk, case, r, list(impl.inv[before:]))

    def finish_case(case: dict[str, Any], body: bytes, defects: set[str], maybe_valid: bool) -> None:
        """Apply content-type / content-encoding / auth kinds and send."""
        for ct_kind in CT_KINDS:
            for ce_kind in CE_KINDS:
                auth_kinds = ["ok", "missing", "wrong"] if cfg.get("auth") else ["n/a"]
                for auth_kind in auth_kinds:
                    d = set(defects)
                    mv = maybe_valid
                    wire, ce_header, ce_def = apply_encoding(ce_kind, body, rng)
                    d |= ce_def
                    if ce_kind == "corrupt" and "encoding_corrupt" in ce_def:
                        # a 'corrupt' frame that an independent decoder accepts is not corrupt
                        try:
                            from lib.httpdrv import Resp

                            Resp(200, [("content-encoding", ce_header or "")], wire).decoded_body()
                            mv = True
                        except Exception:  # noqa: BLE001
                            pass
                    headers = dict(base_headers)
                    if ct_kind == "ok":
                        headers["Content-Type"] = ARROW_CT
                    elif ct_kind == "wrong":
                        headers["Content-Type"] = rng.choice(WRONG_CTS)
                        d.add("content_type_wrong")
                    else:
                        d.add("content_type_missing")
                    if ce_header is not None:
                        headers["Content-Encoding"] = ce_header
                    if auth_kind == "missing":
                        headers.pop("Authorization", None)
                        d.add("auth_failure")
                    elif auth_kind == "wrong":
                        headers["Authorization"] = "Bearer nope"
                        d.add("auth_failure")
                    cap = cfg.get("max_request_bytes")
                    extra: list[int] = []
                    if cap is not None:
                        if len(wire) > cap:
                            d.add("oversize_wire")
                        if ce_kind in ("zstd", "gzip") and len(body) > cap:
                            d.add("oversize_decoded")
                        if ce_kind == "corrupt":
                            # a damaged frame header may *declare* a size over the cap; refusing it from the
                            # frame-size precheck (413) is as legitimate as failing to decode it (400)
                            extra.append(413)
                    c = dict(case)
                    c.update(ct_kind=ct_kind, ce_kind=ce_kind, auth_kind=auth_kind, defects=sorted(d), maybe_valid=mv, extra_adm=extra)
                    send(c, wire, headers)

    for _inst in range(instances):
        # ------------------------------------------------------------- unary and init routes
        for route in ("unary", "init"):
            own = unary if route == "unary" else streams
            other = streams if route == "unary" else unary
            targets = [(n, "known") for n in own] + [(n, "kind_mismatch") for n in other] + [("no_such_method", "unknown"), ("Echo ", "unknown")]
            for name, mclass in targets:
                path = f"{prefix}/{name.strip()}" + ("/init" if route == "init" else "")
                info = methods.get(name)
                describe = name == "__describe__"
                kinds = list(BODY_KINDS_CALL)
                if pver:
                    kinds += ["pver_missing", "pver_mismatch", "pver_malformed", "pver_patch_differs"]
                # the body is built for the *addressed* method when it exists, else for some real method
                body_info = info if info is not None else methods[rng.choice(unary)]
                body_name = body_info.name
                for body_kind in kinds:
                    kw = {} if describe else kwargs_for(body_name)
                    try:
                        valid = valid_call_bytes(body_info, kw, pver if not describe else None)
                    except Exception as exc:  # noqa: BLE001 - generator produced a value pyarrow cannot hold
                        chk.skip(f"request_not_buildable:{type(exc).__name__}")
                        continue
                    if info is None:
                        # unknown method: metadata names the unknown method so only one defect is present
                        valid = reserialise(*_rename(valid, name.strip()))
                    others = [n for n in methods if n != name]
                    mut = mutate_call_body(body_kind, valid, body_info, others, rng)
                    if mut is None:
                        continue
                    body, defects, maybe_valid = mut
                    if describe and body_kind.startswith("pver"):
                        continue
                    if mclass == "unknown":
                        defects = defects | {"method_unknown"}
                    elif mclass == "kind_mismatch":
                        defects = defects | {"method_kind_mismatch"}
                    size_kind = "n/a"
                    case = {
                        "app": app_name,
                        "svc_kind": svc_kind,
                        "route": route,
                        "path": path,
                        "mclass": mclass,
                        "body_kind": body_kind,
                        "token_kind": "n/a",
                        "size_kind": size_kind,
                        "describe": describe,
                        "expect_fail": FIXED_FAILS.get((route, name)) if svc_kind == "fixed" else None,
                    }
                    finish_case(case, body, defects, maybe_valid)
            # size dimension (apps with a cap): a valid call whose body is over the cap, plain and compressed
            cap = cfg.get("max_request_bytes")
            if cap is not None and route == "unary" and "echo" in methods:
                for size_kind, n in (("at_cap_minus", cap // 2), ("over_cap", cap * 3)):
                    valid = valid_call_bytes(methods["echo"], {"s": "x" * n}, pver)
                    case = {
                        "app": app_name,
                        "svc_kind": svc_kind,
                        "route": route,
                        "path": f"{prefix}/echo",
                        "mclass": "known",
                        "body_kind": "valid",
                        "token_kind": "n/a",
                        "size_kind": size_kind,
                        "describe": False,
                        "expect_fail": False,
                    }
                    finish_case(case, valid, set(), False)
        # ------------------------------------------------------------- exhaustive single-bit-flip sweep (fixed service)
        if svc_kind == "fixed" and cfg.get("describe") and _inst == 0:
            for route, name in (("unary", "add"), ("init", "prod")):
                info = methods[name]
                valid = valid_call_bytes(info, {"a": 3, "b": 2.5} if name == "add" else {"n": 4}, pver)
                for pos in range(len(valid)):
                    b = bytearray(valid)
                    b[pos] ^= 0x01
                    body = bytes(b)
                    try:
                        pa.ipc.open_stream(body).read_next_batch_with_custom_metadata()
                        mv = True
                    except Exception:  # noqa: BLE001
                        mv = False
                    case = {
                        "app": app_name,
                        "svc_kind": svc_kind,
                        "route": route,
                        "path": f"{prefix}/{name}" + ("/init" if route == "init" else ""),
                        "mclass": "known",
                        "body_kind": "bitflip_sweep",
                        "token_kind": "n/a",
                        "size_kind": "n/a",
                        "describe": False,
                        "expect_fail": None,
                        "ct_kind": "ok",
                        "ce_kind": "none",
                        "auth_kind": "n/a",
                        # a flipped bit that keeps the batch readable may change a value or a metadata byte
                        "defects": ["ipc_malformed"] if not mv else ["ipc_malformed", "metadata_method_mismatch", "metadata_version_wrong", "param_rejected"],
                        "maybe_valid": mv,
                    }
                    send(case, body, {**base_headers, "Content-Type": ARROW_CT})
            chk.extra["bitflip_sweep_positions"] = chk.extra.get("bitflip_sweep_positions", 0) + 1
        # ------------------------------------------------------------- exchange route
        tokens: dict[str, dict[bytes, bytes]] = {}
        expired: dict[str, dict[bytes, bytes]] = {}
        for name in streams:
            kw = kwargs_for(name)
            for store, shift in ((tokens, 0), (expired, -100_000)):
                if shift and not cfg.get("token_ttl"):
                    continue
                from vgi_rpc.http.server import _state_token as st_mod

                real_time = st_mod.time

                class _Shifted:
                    def __getattr__(self, item: str) -> Any:
                        return getattr(real_time, item)

                    @staticmethod
                    def time() -> float:
                        return real_time.time() + shift

                if shift:
                    st_mod.time = _Shifted()  # harness clock shift while minting only
                try:
                    r = httpdrv.call(app, "POST", f"{prefix}/{name}/init", {**base_headers, "Content-Type": ARROW_CT}, valid_call_bytes(methods[name], kw, pver))
                finally:
                    st_mod.time = real_time
                if r.status != 200:
                    continue
                try:
                    for st in httpdrv.parse_ipc_multi(r.decoded_body()):
                        for _b, md in st:
                            if STATE_KEY.decode() in md:
                                store[name] = {STATE_KEY: md[STATE_KEY.decode()], CALL_KEY: md.get(CALL_KEY.decode(), b"")}
                except Exception:  # noqa: BLE001 - judged elsewhere
                    pass
        if svc_kind == "fixed" and cfg.get("describe") and _inst == 0 and "exch" in tokens:
            # exhaustive single-bit-flip sweep over a valid exchange request (tokens included)
            xb = pa.RecordBatch.from_pydict({"i": [1, 2]}, schema=svcgen.schema_of(["i"]))
            valid = httpdrv.ipc_bytes(xb, dict(tokens["exch"]))
            for pos in range(len(valid)):
                b = bytearray(valid)
                b[pos] ^= 0x01
                body = bytes(b)
                try:
                    pa.ipc.open_stream(body).read_next_batch_with_custom_metadata()
                    mv = True
                except Exception:  # noqa: BLE001
                    mv = False
                case = {
                    "app": app_name,
                    "svc_kind": svc_kind,
                    "route": "exchange",
                    "path": f"{prefix}/exch/exchange",
                    "mclass": "known",
                    "body_kind": "bitflip_sweep",
                    "token_kind": "valid",
                    "size_kind": "n/a",
                    "describe": False,
                    "expect_fail": None,
                    "ct_kind": "ok",
                    "ce_kind": "none",
                    "auth_kind": "n/a",
                    "defects": ["ipc_malformed"] if not mv else ["ipc_malformed", "token_tampered", "token_missing", "call_token_unresolvable"],
                    "maybe_valid": mv,
                }
                send(case, body, {**base_headers, "Content-Type": ARROW_CT})
        targets = [(n, "known") for n in streams if n in tokens] + [(n, "kind_mismatch") for n in unary if n != "__describe__"][:2] + [("no_such_method", "unknown")]
        for name, mclass in targets:
            path = f"{prefix}/{name}/exchange"
            src = name if name in tokens else (next(iter(tokens)) if tokens else None)
            if src is None:
                chk.skip("no_stream_tokens_available")
                continue
            m = scripts[src]
            if m["kind"] == "exchange":
                in_schema = svcgen.schema_of(m["in_cols"])
                batch = pa.RecordBatch.from_pydict(svcgen.make_rows("in", 0, rng.choice([0, 1, 3]), m["in_cols"]), schema=in_schema)
            else:
                batch = pa.RecordBatch.from_pydict({}, schema=pa.schema([]))
            for body_kind in BODY_KINDS_EXCH:
                tks = list(TOKEN_KINDS) if body_kind == "valid" else ["valid"]
                if body_kind == "valid" and src in expired:
                    tks.append("expired")
                for token_kind in tks:
                    md = dict(tokens[src])
                    defects: set[str] = set()
                    if token_kind == "missing":
                        md.pop(STATE_KEY)
                        defects.add("token_missing")
                    elif token_kind == "tampered":
                        md[STATE_KEY] = tamper_token(md[STATE_KEY], rng)
                        defects.add("token_tampered")
                    elif token_kind == "garbage":
                        md[STATE_KEY] = rng.choice([b"", b"AAAA", b"not base64 !!", rng.randbytes(40)])
                        defects.add("token_garbage")
                    elif token_kind == "expired":
                        md = dict(expired[src])
                        defects.add("token_expired")
                    valid = httpdrv.ipc_bytes(batch, md)
                    maybe_valid = False
                    if body_kind == "valid":
                        body = valid
                    elif body_kind == "empty":
                        body, defects = b"", defects | {"ipc_malformed"}
                    elif body_kind == "no_batch":
                        sink = io.BytesIO()
                        with pa.ipc.new_stream(sink, batch.schema):
                            pass
                        body, defects = sink.getvalue(), defects | {"ipc_no_batch"}
                    else:
                        mut = mutate_call_body(body_kind, valid, None, [], rng)
                        assert mut is not None
                        body, d2, maybe_valid = mut
                        defects |= d2
                        if maybe_valid:
                            # the flipped bytes may sit inside the token
                            defects |= {"token_tampered"}
                    if mclass == "unknown":
                        defects.add("method_unknown")
                    elif mclass == "kind_mismatch":
                        defects.add("method_kind_mismatch")
                    case = {
                        "app": app_name,
                        "svc_kind": svc_kind,
                        "route": "exchange",
                        "path": path,
                        "mclass": mclass,
                        "body_kind": body_kind,
                        "token_kind": token_kind,
                        "size_kind": "n/a",
                        "describe": False,
                        "expect_fail": None,
                    }
                    finish_case(case, body, defects, maybe_valid)


def _rename(valid: bytes, method: str) -> tuple[Any, dict[bytes, bytes]]:
    from lib import httpdrv

    batch, md_s = httpdrv.parse_ipc(valid)[0]
    md = {k.encode(): v for k, v in md_s.items()}
    md[b"vgi_rpc.method"] = method.encode()
    return batch, md


def run_shard(job: dict[str, Any]) -> dict[str, Any]:
    from lib import svcgen

    chk = Check(PID, job["tier"], job["seed"])
    signal.signal(signal.SIGALRM, _on_alarm)
    rng = random.Random(job["seed"])
    for unit in job["units"]:
        app_name = unit["app"]
        cfg = APPS[app_name]
        if unit["service"] == "fixed":
            program, svc_kind = FIXED, "fixed"
        else:
            prng = random.Random(unit["service"])
            program = svcgen.gen_program(prng, nmethods=prng.choice([3, 4, 5]), ncalls=1)
            svc_kind = "generated"
            kinds = {m["kind"] for m in program["methods"]}
            if "unary" not in kinds:
                program["methods"].append(svcgen.gen_method(prng, 9, kinds=("unary",)))
        enumerate_and_run(chk, app_name, cfg, program, svc_kind, rng, unit["instances"])
    return chk.to_result()


def main(tier: str, seed: int) -> int:
    chk = Check(PID, tier, seed, level=CATEGORY, rule=RULE)
    chk.require(
        "responses_judged",
        "body_shape_judged",
        "arrow_body_decoded",
        "marker_judged",
        "known_outcome_judged",
        "dispatch_judged",
        "status_200",
        "status_400",
        "status_401",
        "status_404",
        "status_413",
        "status_415",
    )
    chk.assumptions = [
        "pyarrow (independent reader/writer of the harness), zstandard and zlib are trusted",
        "status model written from WIRE_PROTOCOL.md sections 10 and 13; no precedence between simultaneous defects is assumed",
        "expired tokens are minted under a shifted clock (harness rebinding of the token module's `time` during /init only)",
    ]
    inst = 2 if tier == "quick" else 5
    ngen = 4 if tier == "quick" else 48
    units: list[dict[str, Any]] = []
    for app_name in APPS:
        units.append({"app": app_name, "service": "fixed", "instances": inst})
    for k in range(ngen):
        units.append({"app": ["plain", "prefix", "auth", "cap"][k % 4], "service": seed * 10_000 + k, "instances": inst})
    chk.extra["units"] = len(units)
    chk.exhaustive["request_classes_of_the_quantifier"] = True
    chk.exhaustive["instances_within_a_class"] = False
    nsh = shard.ncpu()
    jobs = []
    for i, part in enumerate(shard.split(units, min(len(units), nsh * 2))):
        jobs.append({"tier": tier, "seed": seed * 1000 + i, "units": part})
    for res in shard.pmap("checks.c15", "run_shard", jobs, timeout=600 if tier == "quick" else 3000):
        chk.merge(res)
    return chk.finish()

"""C41 - concurrent socket connections are isolated.

A real threaded Unix / TCP server (``serve_unix`` / ``serve_tcp`` with ``threaded=True``)
serves 2-3 client threads running generated call scripts (unary echo with
client-specific nonces, producers, exchanges with client-specific inputs) while
seeded micro-delays are injected (sys.monitoring LINE hook) into ``_transport.py`` and
``_server.py``.  Monitors: (1) each connection's client-visible trace equals the
trace of the same script run alone; (2) a class-level wrapper around
``RpcServer.serve`` records begin/end per connection - the number of connections
simultaneously inside ``serve`` never exceeds ``max_connections``; (3) client-side
corroboration: with ``max_connections = k`` and k connections held open, a further
client's first call does not complete until one of them closes; (4) the scripted
stream states log ``(connection thread, id(state), pos)`` - a state object is only
ever stepped from one connection and its positions are contiguous.
"""

from __future__ import annotations

import random
from typing import Any

from lib import shard
from lib.evidence import Check

PID = "C41"
ENGINE = "E4-injection+E1-svcgen-rig"
TECHNIQUE = "stress with injected delays on a real threaded socket server; solo-vs-concurrent trace differential + serve() occupancy monitor"
LEVEL_TEXT = (
    "Exploration (stress-sampled interleavings, not enumerated): generated 2-3 client scripts against a real threaded "
    "unix/tcp server (incl. ctx-less methods and a cancel hook that logs) under seeded delay injection, max_connections in {None,1,2}. Held = every concurrent trace equalled its "
    "solo trace, no state object was stepped from two connections, and occupancy of serve() never exceeded max_connections."
)
LEVEL_NOTE = "schedules are whatever the OS scheduler plus injected delays produce; evidence reports observed overlap (max simultaneous connections inside serve)"
RULE = "case = (transport, max_connections, client scripts, delay seed); class = (transport, max_connections, #clients, script shape)"


def _program() -> dict[str, Any]:
    def steps(n: int) -> list[dict[str, Any]]:
        return [{"logs": [("INFO", f"s{k}", {})], "act": "emit", "rows": 2} for k in range(n)]

    return {
        "name": "ConcSvc",
        "methods": [
            {"name": "echo", "kind": "unary", "params": [("nonce", ("str",))], "ret": ("str",), "u": {"logs": [("INFO", "e", {})], "act": ("echo", "nonce")}},
            {"name": "fail", "kind": "unary", "params": [], "ret": ("str",), "u": {"logs": [], "act": ("raise", "ValueError", "boom")}},
            # methods whose implementation takes no CallContext; the producer's cancel hook logs to its client
            {"name": "nonce_len", "kind": "unary", "noctx": True, "params": [("nonce", ("str",))], "ret": ("str",), "u": {"logs": [], "act": ("echo", "nonce")}},
            {"name": "prodn", "kind": "producer", "noctx": True, "params": [], "header": False, "out_cols": ["i", "s"], "init": {"logs": [], "act": ("ok",)}, "steps": steps(4), "cancel_logs": [("WARN", "prodn-cancelled", {})]},
            {"name": "prod", "kind": "producer", "params": [], "header": False, "out_cols": ["i", "s"], "init": {"logs": [], "act": ("ok",)}, "steps": steps(4)},
            {"name": "prodh", "kind": "producer", "params": [], "header": True, "out_cols": ["i"], "init": {"logs": [("INFO", "init", {})], "act": ("ok",)}, "steps": steps(3)},
            {"name": "xch", "kind": "exchange", "params": [], "header": False, "in_cols": ["i", "s"], "out_cols": ["i", "s"], "init": {"logs": [], "act": ("ok",)}, "steps": [{"logs": [], "act": "emit"}]},
            {
                "name": "perr",
                "kind": "producer",
                "params": [],
                "header": False,
                "out_cols": ["i"],
                "init": {"logs": [], "act": ("ok",)},
                "steps": [{"logs": [], "act": "emit", "rows": 1}, {"logs": [], "act": "raise", "exc": ("RuntimeError", "mid")}],
            },
        ],
        "calls": [],
    }


def _gen_script(rng: random.Random, cid: int) -> list[dict[str, Any]]:
    out = []
    for j in range(rng.choice([3, 4, 6])):
        k = rng.choice(["echo", "echo", "prod", "prodh", "xch", "fail", "perr", "prod_partial", "nonce_len", "prodn_cancel", "prodn_cancel"])
        if k == "nonce_len":
            out.append({"m": "nonce_len", "args": {"nonce": f"n{cid}-{j}-{rng.randrange(10**6)}"}})
        elif k == "prodn_cancel":
            out.append({"m": "prodn", "args": {}, "take": rng.choice([1, 2]), "end": "cancel"})
        elif k == "echo":
            out.append({"m": "echo", "args": {"nonce": f"c{cid}-{j}-{rng.randrange(10**6)}"}})
        elif k == "fail":
            out.append({"m": "fail", "args": {}})
        elif k in ("prod", "prodh", "perr"):
            out.append({"m": k, "args": {}, "take": None})
        elif k == "prod_partial":
            out.append({"m": "prod", "args": {}, "take": rng.choice([1, 2]), "end": rng.choice(["close", "cancel"])})
        else:
            out.append({"m": "xch", "args": {}, "inputs": [{"i": [cid * 1000 + j, t], "s": [f"c{cid}", f"t{t}"]} for t in range(rng.choice([1, 2, 3]))], "end": "close"})
    return out


def _shape(script: list[dict[str, Any]]) -> str:
    return "".join(c["m"][0] + ("p" if c.get("take") not in (None,) and "take" in c else "") for c in script)


def run_shard(job: dict[str, Any]) -> dict[str, Any]:
    import os
    import socket
    import sys
    import tempfile
    import threading
    import time

    import vgi_rpc.rpc._server as srvmod
    import vgi_rpc.rpc._transport as tr
    from lib import rig, svcgen
    from vgi_rpc.rpc import RpcConnection, RpcServer, TcpTransport, UnixTransport, serve_tcp, serve_unix

    chk = Check(PID, job["tier"], job["seed"])
    program = _program()

    # -- occupancy monitor on RpcServer.serve (class attribute; looked up at call time by _handle) --
    occ_lock = threading.Lock()
    occ = {"cur": 0, "max": 0, "log": []}
    orig_serve = RpcServer.serve

    def serve_wrapper(self: Any, transport: Any) -> None:
        with occ_lock:
            occ["cur"] += 1
            occ["max"] = max(occ["max"], occ["cur"])
        try:
            orig_serve(self, transport)
        finally:
            with occ_lock:
                occ["cur"] -= 1

    RpcServer.serve = serve_wrapper  # type: ignore[method-assign]

    # -- delay injection ------------------------------------------------------------------------
    mon = sys.monitoring
    try:
        mon.use_tool_id(4, "verif-c41")
    except ValueError:
        pass
    targets = (tr.__file__, srvmod.__file__)
    rlock = threading.Lock()
    drng = random.Random(job["seed"])
    delay_on = [True]

    def on_line(code: Any, lineno: int) -> Any:
        if code.co_filename not in targets:
            return mon.DISABLE
        if not delay_on[0]:
            return None
        with rlock:
            r = drng.random()
            d = drng.random()
        if r < 0.04:
            time.sleep(d * 0.003)
        elif r < 0.08:
            time.sleep(0)
        return None

    mon.register_callback(4, mon.events.LINE, on_line)
    mon.set_events(4, mon.events.LINE)

    def start_server(kind: str, mc: int | None) -> tuple[Any, Any, Any]:
        proto, impl = svcgen.build(program)
        server = RpcServer(proto, impl)
        ready = threading.Event()
        addr: dict[str, Any] = {}
        if kind == "unix":
            td = tempfile.mkdtemp(prefix="verif-c41-")
            path = os.path.join(td, "s.sock")

            def run() -> None:
                serve_unix(server, path, threaded=True, max_connections=mc, idle_timeout=0.5, on_bound=lambda p: (addr.update(path=p), ready.set()))

        else:

            def run() -> None:
                serve_tcp(server, "127.0.0.1", 0, threaded=True, max_connections=mc, idle_timeout=0.5, on_bound=lambda h, p: (addr.update(host=h, port=p), ready.set()))

        th = threading.Thread(target=run, daemon=True)
        th.start()
        if not ready.wait(10):
            raise RuntimeError("server did not bind")
        return proto, impl, addr

    def open_client(kind: str, addr: dict[str, Any], proto: Any, logs: list[Any]) -> tuple[Any, Any]:
        if kind == "unix":
            s = socket.socket(socket.AF_UNIX, socket.SOCK_STREAM)
            s.connect(addr["path"])
            t: Any = UnixTransport(s)
        else:
            s = socket.create_connection((addr["host"], addr["port"]))
            t = TcpTransport(s)
        s.settimeout(30)
        return t, RpcConnection(proto, t, on_log=lambda m: logs.append(rig.norm_log(m))).__enter__()

    solo_cache: dict[str, Any] = {}

    def run_script(kind: str, addr: dict[str, Any], proto: Any, script: list[dict[str, Any]]) -> Any:
        logs: list[Any] = []
        t, proxy = open_client(kind, addr, proto, logs)
        try:
            return rig.run_calls(proxy, program, collect_log=logs, calls=script)
        finally:
            t.close()

    rng = random.Random(job["seed"])
    for case in job["cases"]:
        kind, mc, nclients, cseed = case["kind"], case["mc"], case["nclients"], case["seed"]
        crng = random.Random(cseed)
        scripts = [_gen_script(crng, c) for c in range(nclients)]
        cls = f"{kind}|mc{mc}|n{nclients}|{'/'.join(_shape(s) for s in scripts)}"
        # solo references (no delays, one connection at a time, fresh server)
        delay_on[0] = False
        proto, impl, addr = start_server(kind, None)
        solos = []
        for s in scripts:
            key = repr(s)
            if key not in solo_cache:
                solo_cache[key] = run_script(kind, addr, proto, s)
            solos.append(solo_cache[key])
        # concurrent run
        delay_on[0] = True
        with occ_lock:
            occ["cur"] = 0
            occ["max"] = 0
        proto, impl, addr = start_server(kind, mc)
        results: list[Any] = [None] * nclients
        errors: list[Any] = [None] * nclients

        def worker(i: int) -> None:
            try:
                results[i] = run_script(kind, addr, proto, scripts[i])
            except BaseException as exc:  # noqa: BLE001
                errors[i] = f"{type(exc).__name__}: {exc}"

        ths = [threading.Thread(target=worker, args=(i,), daemon=True) for i in range(nclients)]
        for t_ in ths:
            t_.start()
        for t_ in ths:
            t_.join(60)
        delay_on[0] = False
        chk.case(cls)
        wit = {"case": case, "scripts": scripts}
        if any(t_.is_alive() for t_ in ths):
            chk.inconclusive_because("a client script did not finish within 60 s under load")
            continue
        for i in range(nclients):
            if errors[i] is not None:
                chk.violation("client_script_failed_under_concurrency", f"client {i}: {errors[i]}", wit)
            elif repr(results[i]) != repr(solos[i]):
                bad = next((j for j, (a, b) in enumerate(zip(results[i], solos[i], strict=False)) if repr(a) != repr(b)), -1)
                chk.violation(
                    f"concurrent_trace_differs_from_solo:{scripts[i][bad]['m'] if bad >= 0 else 'len'}",
                    "a connection observed a different result under concurrency than when served alone",
                    {**wit, "client": i, "call_index": bad, "got": results[i][bad] if bad >= 0 else None, "solo": solos[i][bad] if bad >= 0 else None},
                )
            else:
                chk.hit("trace_equal_to_solo")
        with occ_lock:
            omax = occ["max"]
        chk.extra["max_simultaneous_connections_observed"] = max(chk.extra.get("max_simultaneous_connections_observed", 0), omax)
        if omax >= 2:
            chk.hit("overlap_observed")
        if mc is not None:
            chk.hit("occupancy_checked")
            if omax > mc:
                chk.violation(f"serve_occupancy_exceeds_max_connections:mc={mc}", f"{omax} connections were inside RpcServer.serve at once with max_connections={mc}", wit)
        # state sharing: every (state id, method) stepped from one thread only with contiguous positions
        per_state: dict[tuple[int, str], list[int]] = {}
        for ev in impl.inv:
            if ev[0] == "step":
                per_state.setdefault((ev[7], ev[1]), []).append(ev[2])
        for (sid, mname), poss in per_state.items():
            # ids may be recycled after a stream ended: split into runs starting at 0
            runs: list[list[int]] = []
            for p in poss:
                if p == 0 or not runs:
                    runs.append([p])
                else:
                    runs[-1].append(p)
            for r in runs:
                if r != list(range(r[0], r[0] + len(r))):
                    chk.violation("stream_state_positions_not_contiguous", f"state of {mname} stepped at positions {r}", wit)
        chk.hit("state_runs_checked", len(per_state))

        # client-side corroboration of max_connections
        if mc is not None:
            proto, impl, addr = start_server(kind, mc)
            held = []
            for _ in range(mc):
                lg: list[Any] = []
                t, p = open_client(kind, addr, proto, lg)
                p.echo(nonce="hold")
                held.append(t)
            # clients that connect while every slot is taken and hang up without ever being served
            for _g in range(case.get("ghosts", 2)):
                if kind == "unix":
                    g = socket.socket(socket.AF_UNIX, socket.SOCK_STREAM)
                    g.connect(addr["path"])
                else:
                    g = socket.create_connection((addr["host"], addr["port"]))
                time.sleep(0.05)
                g.close()
            time.sleep(0.3)
            chk.hit("ghost_clients_gave_up_while_queued", case.get("ghosts", 2))
            done = threading.Event()
            box: dict[str, Any] = {}

            def extra() -> None:
                lg2: list[Any] = []
                t2, p2 = open_client(kind, addr, proto, lg2)
                try:
                    box["r"] = p2.echo(nonce="extra")
                    box["t"] = time.monotonic()
                finally:
                    done.set()
                    t2.close()

            th = threading.Thread(target=extra, daemon=True)
            th.start()
            early = done.wait(0.6)
            t_release = time.monotonic()
            for t in held:
                t.close()
            finished = done.wait(20)
            if early and box.get("r") == "extra":
                chk.violation(f"extra_connection_served_beyond_max_connections:mc={mc}", "a further client's call completed while max_connections connections were still open", wit)
            elif not finished:
                chk.inconclusive_because("the waiting client was not served within 20 s after a slot was released")
            else:
                chk.hit("extra_client_waited_then_served")
            _ = t_release
        if len(chk.samples) < 2:
            chk.sample({"case": case, "scripts": scripts[:2], "max_overlap": omax})
    mon.set_events(4, 0)
    RpcServer.serve = orig_serve  # type: ignore[method-assign]
    _ = rng
    return chk.to_result()


def main(tier: str, seed: int) -> int:
    chk = Check(PID, tier, seed, rule=RULE)
    chk.require("trace_equal_to_solo", "overlap_observed", "occupancy_checked", "extra_client_waited_then_served", "state_runs_checked", "ghost_clients_gave_up_while_queued")
    quick = tier == "quick"
    rng = random.Random(seed)
    cases = []
    for k in range(24 if quick else 600):
        cases.append({"kind": rng.choice(["unix", "tcp"]), "mc": rng.choice([None, None, 1, 2]), "nclients": rng.choice([2, 3, 3]), "seed": seed * 100000 + k})
    n = shard.ncpu()
    jobs = [{"tier": tier, "seed": seed * 100 + i, "cases": sh} for i, sh in enumerate(shard.split(cases, n))]
    for res in shard.pmap("checks.c41", "run_shard", jobs, timeout=600 if quick else 1700):
        chk.merge(res)
    return chk.finish()

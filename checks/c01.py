"""C01 - transport-agnostic call semantics.

Differential runtime monitoring: the same generated program (lib.svcgen) is run over
every transport configuration (lib.rig) and the client-visible trace of every call is
compared with the in-process pipe trace:

* the sequence of non-log events (header, batches with their application metadata,
  result, error type + message, end) must be equal up to and including the first error;
* the log messages must be equal in order (level / text / extras);
* each log must be delivered no later than the data event it precedes on the pipe
  reference (HTTP legitimately delivers a whole turn's logs early).

Two legs per program: every call on a FRESH connection ("isolated"), and the whole call
script on one connection ("sequence").  The socket transports are known to desynchronise
after a stream-init error on a header-less stream (C04's subject): the sequence leg
reconnects after such a call and divergences that carry the desync signature are counted
as unjudged, not as C01 violations.
"""

from __future__ import annotations

import base64
import contextlib
import pickle
import random
import re
import threading
from typing import Any

from lib import shard
from lib.evidence import Check

PID = "C01"
ENGINE = "E1-svcgen-rig"
TECHNIQUE = "differential execution of generated programs over all transports; per-call trace equality oracle against the pipe reference"
LEVEL_TEXT = (
    "Exploration: generated services (unary / producer / exchange, with and without headers, scripted "
    "return / emit / log / finish / raise behaviours incl. the shapes the statement names) are run over pipe, unix, "
    "tcp, shm-pipe, subprocess, in-process HTTP x max_response_bytes {none, tiny, large} x response compression "
    "{off, zstd, gzip} and a real waitress listener + httpx2; every call's client trace is compared with the pipe "
    "trace (data events up to the first error, log order/content, log-no-later-than rule). Held means no trace "
    "divergence among the compared (call, configuration) pairs listed in the evidence."
)
LEVEL_NOTE = (
    "pipe transport is the reference; externalization legs are NOT run here (external resolution needs the absent "
    "`tenacity`; left to C30); cap-shaped errors (max_response_bytes overshoot) are C16's subject and skipped; "
    "divergences that follow the C04 socket desync are skipped; HTTP eager first producer turn is allowed to deliver "
    "more logs / an unrequested error on partially consumed streams; the real httpx2 client cannot decode zstd in this "
    "sandbox (no backports.zstd), so the real-listener leg uses gzip/identity and zstd is covered in-process only"
)
CATEGORY = "exploration"
RULE = (
    "case = (program, call, transport configuration, leg); programs = fixed named shapes + seeded svcgen.gen_program; "
    "distinct class = (method kind, behaviour shape incl. header/init/step acts/consumption, configuration label, leg)"
)

CAP_RE = re.compile(r"^RuntimeError: (HTTP body exceeds max_response_bytes|Externalised payload exceeds max_externalized_response_bytes) \(\d+ > \d+\) for method '[^']*'$")
DESYNC_SIG = "Missing 'vgi_rpc.method'"
TERMINAL_CLIENT = ("closed", "cancelled", "abandoned")
CALL_TIMEOUT = 60.0


# ---------------------------------------------------------------------------
# workload
# ---------------------------------------------------------------------------


def _L(*msgs: str) -> list[tuple[str, str, dict[str, str]]]:
    lv = ["INFO", "WARN", "DEBUG", "ERROR", "TRACE"]
    return [(lv[i % 5], m, {"k": str(i)} if i % 2 else {}) for i, m in enumerate(msgs)]


def _prod(name: str, steps: list[dict[str, Any]], *, header: bool = False, cols: list[str] | None = None, init: Any = None) -> dict[str, Any]:
    return {
        "name": name,
        "kind": "producer",
        "params": [],
        "header": header,
        "out_cols": ["i", "s"] if cols is None else cols,
        "init": init or {"logs": [], "act": ("ok",)},
        "steps": steps,
    }


def _exch(name: str, steps: list[dict[str, Any]], *, header: bool = False, cols: list[str] | None = None, init: Any = None) -> dict[str, Any]:
    c = ["i"] if cols is None else cols
    return {
        "name": name,
        "kind": "exchange",
        "params": [],
        "header": header,
        "out_cols": c,
        "in_cols": c,
        "init": init or {"logs": [], "act": ("ok",)},
        "steps": steps,
    }


def _E(rows: int = 1, logs: Any = None, meta: Any = None, pad: int = 0) -> dict[str, Any]:
    st: dict[str, Any] = {"logs": logs or [], "act": "emit", "rows": rows, "pad": pad}
    if meta is not None:
        st["meta"] = meta
    return st


def _R(msg: str = "boom", typ: str = "ValueError", logs: Any = None) -> dict[str, Any]:
    return {"logs": logs or [], "act": "raise", "exc": (typ, msg)}


def _F(logs: Any = None) -> dict[str, Any]:
    return {"logs": logs or [], "act": "finish"}


def _X(rows: int = 1, logs: Any = None, meta: Any = None) -> dict[str, Any]:
    st: dict[str, Any] = {"logs": logs or [], "act": "emit_finish", "rows": rows}
    if meta is not None:
        st["meta"] = meta
    return st


def shape_programs() -> list[dict[str, Any]]:
    """Fixed programs for the shapes the statement / DESIGN name explicitly."""
    from lib import svcgen

    progs: list[dict[str, Any]] = []

    def P(tag: str, methods: list[dict[str, Any]], calls: list[dict[str, Any]]) -> None:
        progs.append({"name": "GenSvc", "tag": tag, "methods": methods, "calls": calls})

    def pc(name: str, **kw: Any) -> dict[str, Any]:
        return {"m": name, "args": {}, **({"take": None} if not kw else kw)}

    # producer: emit, emit, raise (DESIGN section 6) + consumption variants
    P(
        "emit_emit_raise",
        [_prod("p0", [_E(), _E(2), _R("third step fails")])],
        [pc("p0"), pc("p0", take=1, end="close"), pc("p0", take=2, end="cancel"), pc("p0", take=3, end="close")],
    )
    P("emit_emit_raise_hdr_logs", [_prod("p0", [_E(1, _L("a")), _E(2, _L("b", "c")), _R("x", "KindError", _L("before error"))], header=True, init={"logs": _L("init1", "init2"), "act": ("ok",)})], [pc("p0")])
    # header + logs + finish in the same (first) step
    P("hdr_logs_finish_same_step", [_prod("p0", [_F(_L("only log", "second"))], header=True, init={"logs": _L("i"), "act": ("ok",)})], [pc("p0"), pc("p0", take=1, end="close")])
    P("nohdr_logs_finish_same_step", [_prod("p0", [_F(_L("only log"))])], [pc("p0")])
    # log-only steps before an error
    P("log_only_then_error", [_prod("p0", [_E(1, _L("s0")), _R("late", "RuntimeError", _L("l1", "l2", "l3"))], header=True)], [pc("p0"), pc("p0", take=1, end="cancel")])
    P("error_at_step0_logs", [_prod("p0", [_R("first", "UserBoom", _L("pre"))])], [pc("p0")])
    P("error_at_step0_hdr", [_prod("p0", [_R("", "ValueError")], header=True)], [pc("p0")])
    # zero-column output schema / zero-row batches
    P("zero_columns", [_prod("p0", [_E(1), _E(0, _L("z")), _X(2)], cols=[])], [pc("p0")])
    P("zero_rows", [_prod("p0", [_E(0, _L("z0"), {"k": "v"}), _E(0), _E(3), _F()], cols=["s", "f", "i"])], [pc("p0"), pc("p0", take=2, end="close")])
    # emit + finish in one step, at step 0 and later
    P("emit_finish_step0", [_prod("p0", [_X(2, _L("x"), {"app.key": "v"})], header=True)], [pc("p0")])
    P("emit_finish_last", [_prod("p0", [_E(), _E(1, None, {"k": ""}), _X(1, _L("last"))])], [pc("p0"), pc("p0", take=3, end="close")])
    # empty script => finish immediately; no data at all
    P("immediate_finish", [_prod("p0", [])], [pc("p0"), pc("p0", take=0, end="close"), pc("p0", take=0, end="cancel")])
    # a step that neither emits nor finishes
    P("nothing_step", [_prod("p0", [_E(), {"logs": _L("n"), "act": "nothing"}])], [pc("p0")])
    # many batches, bigger than a tiny cap, smaller than a large one
    P("many_batches", [_prod("p0", [_E(5, _L(f"s{i}"), None, 400) for i in range(8)] + [_F(_L("done"))], header=True)], [pc("p0"), pc("p0", take=4, end="cancel")])
    P("many_then_error", [_prod("p0", [_E(2, None, None, 50) for _ in range(6)] + [_R("after six", "ZeroDivisionError")])], [pc("p0")])
    # init failures (headered => no socket desync; header-less => C04 trigger, handled)
    P("init_raise_hdr", [_prod("p0", [_E()], header=True, init={"logs": _L("ilog"), "act": ("raise", "ValueError", "init failed")})], [pc("p0"), pc("p0")])
    P("init_raise_nohdr", [_prod("p0", [_E()], init={"logs": _L("ilog"), "act": ("raise", "KindError", "init failed")})], [pc("p0"), pc("p0", take=0, end="close")])
    # unary shapes
    umeths = [
        {"name": "u0", "kind": "unary", "params": [("p0", ("int",))], "ret": ("int",), "u": {"logs": _L("a", "b"), "act": ("echo", "p0")}},
        {"name": "u1", "kind": "unary", "params": [], "ret": None, "u": {"logs": [], "act": ("return", None)}},
        {"name": "u2", "kind": "unary", "params": [("p0", ("str",))], "ret": ("str",), "u": {"logs": _L("before raise"), "act": ("raise", "KindError", "multi\nline\nmsg")}},
        {"name": "u3", "kind": "unary", "params": [], "ret": ("bytes",), "u": {"logs": _L("x" * 200), "act": ("raise", "ValueError", "")}},
        {"name": "u4", "kind": "unary", "params": [], "ret": ("opt", ("str",)), "u": {"logs": [], "act": ("return", None)}},
        {"name": "u5", "kind": "unary", "params": [], "ret": ("str",), "u": {"logs": [], "act": ("raise", "RuntimeError", "x" * 3000)}},
    ]
    P(
        "unary_shapes",
        umeths,
        [
            {"m": "u0", "args": {"p0": -(2**63)}},
            {"m": "u1", "args": {}},
            {"m": "u2", "args": {"p0": "héllo"}},
            {"m": "u3", "args": {}},
            {"m": "u4", "args": {}},
            {"m": "u5", "args": {}},
            {"m": "u0", "args": {"p0": 7}},
        ],
    )
    # exchange shapes
    ins = [svcgen.make_rows("in", k, r, ["i"]) for k, r in enumerate([1, 0, 3, 2])]
    P(
        "exchange_basic",
        [_exch("e0", [_E(logs=_L("t0")), _E(meta={"k": "ü"}), _E(logs=_L("t2a", "t2b"))], header=True, init={"logs": _L("xi"), "act": ("ok",)})],
        [{"m": "e0", "args": {}, "inputs": ins, "end": "close"}, {"m": "e0", "args": {}, "inputs": ins[:2], "end": "cancel"}, {"m": "e0", "args": {}, "inputs": [], "end": "close"}],
    )
    P(
        "exchange_error_mid",
        [_exch("e0", [_E(), _R("turn 1 fails", "TypeError", _L("pre")), _E()])],
        [{"m": "e0", "args": {}, "inputs": ins, "end": "close"}, {"m": "e0", "args": {}, "inputs": ins[:1], "end": "close"}],
    )
    P("exchange_error_first", [_exch("e0", [_R("", "UserBoom")], header=True)], [{"m": "e0", "args": {}, "inputs": ins[:2], "end": "close"}])
    P("exchange_init_raise_hdr", [_exch("e0", [_E()], header=True, init={"logs": _L("il"), "act": ("raise", "ArrowInvalid", "bad init")})], [{"m": "e0", "args": {}, "inputs": ins[:1], "end": "close"}])
    P("exchange_multi_col", [_exch("e0", [_E(logs=_L("m"))], cols=["s", "f", "i"])], [{"m": "e0", "args": {}, "inputs": [svcgen.make_rows("in", k, 2, ["s", "f", "i"]) for k in range(3)], "end": "close"}])
    # exchange whose output passes the input's columns through in another order (the reply references the
    # input's buffers until it is written), several turns, batches of a few KiB up to a few hundred KiB
    ac = ["s", "f", "i", "b"]
    alias = _exch("e0", [_E(logs=_L("a"))], cols=ac)
    alias["alias"] = True
    alias["out_cols"] = ["i", "b", "s", "f"]
    P(
        "exchange_alias_reorder",
        [alias],
        [{"m": "e0", "args": {}, "inputs": [svcgen.make_rows("in", k, r, ac, pad) for k, (r, pad) in enumerate([(3, 0), (40, 100), (7, 3000), (200, 1500), (2, 10)])], "end": "close"}],
    )
    # mixed sequence on one connection: stream outcomes followed by unary calls
    P(
        "mixed_sequence",
        [
            _prod("p0", [_E(), _E(), _R("boom")]),
            _prod("p1", [_E(1, _L("q")), _X(0)], header=True),
            _exch("e0", [_E(), _R("xb")]),
            {"name": "u0", "kind": "unary", "params": [("p0", ("str",))], "ret": ("str",), "u": {"logs": _L("ul"), "act": ("echo", "p0")}},
        ],
        [
            {"m": "u0", "args": {"p0": "a"}},
            {"m": "p0", "args": {}, "take": None},
            {"m": "u0", "args": {"p0": "b"}},
            {"m": "p1", "args": {}, "take": 1, "end": "cancel"},
            {"m": "u0", "args": {"p0": "c"}},
            {"m": "e0", "args": {}, "inputs": ins[:3], "end": "close"},
            {"m": "u0", "args": {"p0": "d"}},
            {"m": "p1", "args": {}, "take": 1, "end": "close"},
            {"m": "e0", "args": {}, "inputs": ins[:1], "end": "cancel"},
            {"m": "u0", "args": {"p0": "e"}},
        ],
    )
    return progs


def gen_programs(seed: int, n: int) -> list[dict[str, Any]]:
    from lib import svcgen

    rng = random.Random(f"C01:{seed}")
    out = []
    for i in range(n):
        p = svcgen.gen_program(rng)
        p["tag"] = f"gen{i}"
        arng = random.Random(f"C01alias:{seed}:{i}")
        for m in p["methods"]:
            if m["kind"] == "exchange" and len(m["in_cols"]) >= 2 and arng.random() < 0.5:
                m["alias"] = True
                m["out_cols"] = arng.sample(m["in_cols"], len(m["in_cols"]))
        out.append(p)
    return out


def http_cfgs(tiny: int, large: int = 100_000) -> list[tuple[str, dict[str, Any]]]:
    out = []
    for capname, cap in (("none", None), ("tiny", tiny), ("large", large)):
        for comp in ("off", "zstd", "gzip"):
            kw: dict[str, Any] = {}
            if cap is not None:
                kw["max_response_bytes"] = cap
            cfg: dict[str, Any] = {"kind": "http", "app_kwargs": kw, "cap": capname, "comp": comp}
            if comp == "zstd":
                cfg["request_compression"] = 1  # client then sends Accept-Encoding: zstd, gzip
            elif comp == "gzip":
                kw["default_headers"] = {"Accept-Encoding": "gzip"}
            out.append((f"http:cap={capname}:comp={comp}", cfg))
    return out


def inproc_cfgs(tiny: int, shm_size: int) -> list[tuple[str, dict[str, Any]]]:
    return [
        ("unix", {"kind": "unix"}),
        ("tcp", {"kind": "tcp"}),
        ("shm", {"kind": "shm", "shm_size": shm_size}),
        *http_cfgs(tiny),
    ]


# ---------------------------------------------------------------------------
# classification helpers
# ---------------------------------------------------------------------------


def method_of(program: dict[str, Any], call: dict[str, Any]) -> dict[str, Any]:
    for m in program["methods"]:
        if m["name"] == call["m"]:
            return m
    raise KeyError(call["m"])


def is_c04_trigger(program: dict[str, Any], call: dict[str, Any]) -> bool:
    """A stream-init error on a header-less stream (desynchronises socket transports; C04)."""
    m = method_of(program, call)
    return m["kind"] != "unary" and not m.get("header") and m["init"]["act"][0] != "ok"


_ACT = {"emit": "E", "raise": "R", "finish": "F", "emit_finish": "X", "nothing": "N"}


def shape_of(program: dict[str, Any], call: dict[str, Any]) -> str:
    m = method_of(program, call)
    if m["kind"] == "unary":
        u = m["u"]
        return f"unary:{u['act'][0]}:{'void' if m.get('ret') is None else m['ret'][0]}:{'logs' if u['logs'] else 'nolog'}"
    steps = "".join(_ACT[s["act"]] + ("l" if s.get("logs") else "") for s in m["steps"][:6])
    base = f"{m['kind']}:{'H' if m.get('header') else '-'}:init={m['init']['act'][0]}{'+l' if m['init']['logs'] else ''}:cols={len(m['out_cols'])}:steps={steps}"
    if m["kind"] == "producer":
        cons = "all" if call.get("take") is None else f"take{call['take']}-{call.get('end', 'close')}"
    else:
        cons = f"n{len(call.get('inputs', []))}-{call.get('end', 'close')}"
    return f"{base}:{cons}"


def split_trace(trace: list[Any]) -> tuple[list[Any], list[tuple[Any, int]]]:
    """-> (data events, [(log event, number of data events delivered before it)])."""
    data: list[Any] = []
    logs: list[tuple[Any, int]] = []
    for ev in trace:
        if ev[0] == "log":
            logs.append((ev, len(data)))
        else:
            data.append(ev)
    return data, logs


def _ev_detail(a: Any, b: Any) -> str:
    from lib import tygen

    k = a[0]
    if k == "batch":
        if a[1]["schema"] != b[1]["schema"]:
            return "schema"
        if not tygen.veq(a[1]["data"], b[1]["data"]) or a[1]["rows"] != b[1]["rows"]:
            return "data"
        return "metadata"
    if k == "error":
        return "type" if a[1] != b[1] else "message"
    return "value"


def is_cap_shaped(ev: Any) -> bool:
    return ev[0] == "error" and ev[1] == "RuntimeError" and bool(CAP_RE.match(ev[2] or ""))


def has_desync_sig(trace: list[Any]) -> bool:
    return any(ev[0] == "error" and DESYNC_SIG in str(ev[2]) for ev in trace)


def compare(ref: list[Any], got: list[Any], *, is_http: bool) -> tuple[str, str, dict[str, Any]]:
    """Judge *got* against the pipe reference trace *ref*.

    Returns (verdict, detail, info): verdict in {"equal", "skip", "violation"}; for a
    violation *detail* is the mechanism part of the key.
    """
    from lib import tygen

    dref, lref = split_trace(ref)
    dgot, lgot = split_trace(got)
    info: dict[str, Any] = {}
    partial = bool(dref) and dref[-1][0] in TERMINAL_CLIENT

    # ---- data events, up to and including the first error ----
    n = max(len(dref), len(dgot))
    for i in range(n):
        a = dref[i] if i < len(dref) else None
        b = dgot[i] if i < len(dgot) else None
        if a is not None and b is not None and tygen.veq(a, b):
            if a[0] == "error":
                break
            continue
        if b is not None and is_cap_shaped(b) and not (a is not None and is_cap_shaped(a)):
            return "skip", "cap_shaped_error_c16", info
        if is_http and partial and b is not None and b[0] == "error":
            # HTTP ran further than the pipe client asked for (eager first turn) or surfaced a lazily
            # reported init error: the pipe client never requested that step.
            return "skip", "http_eager_error_on_partially_consumed_stream", info
        ka = a[0] if a is not None else "none"
        kb = b[0] if b is not None else "none"
        info["first_diff_index"] = i
        if b is not None and b[0] == "error":
            j = next((k for k in range(i + 1, len(dref)) if dref[k][0] == "error"), None)
            if j is not None and tygen.veq(dref[j], b):
                # got == ref with the events that precede the first error removed
                info["dropped_event_kinds"] = [e[0] for e in dref[i:j]]
                return "violation", "data_events_differ:events_before_error_dropped", info
        if ka == kb and a is not None and b is not None:
            return "violation", f"data_events_differ:ref={ka},got={kb}:{_ev_detail(a, b)}", info
        return "violation", f"data_events_differ:ref={ka},got={kb}", info

    # ---- logs: equal in order (prefix for partially consumed streams over HTTP) ----
    mref = [e for e, _ in lref]
    mgot = [e for e, _ in lgot]
    if not tygen.veq(mref, mgot):
        if is_http and partial and len(mgot) >= len(mref) and tygen.veq(mref, mgot[: len(mref)]):
            info["http_extra_logs_on_partial"] = len(mgot) - len(mref)
        else:
            if len(mgot) < len(mref) and tygen.veq(mgot, mref[: len(mgot)]):
                how = "missing_tail"
            elif len(mgot) > len(mref) and tygen.veq(mref, mgot[: len(mref)]):
                how = "extra_tail"
            elif len(mgot) == len(mref) and sorted(map(repr, mref)) == sorted(map(repr, mgot)):
                how = "order"
            elif len(mgot) == len(mref):
                how = "content"
            elif len(mgot) < len(mref):
                how = "missing"
            else:
                how = "extra"
            return "violation", f"logs_differ:{how}", info

    # ---- each log no later than the data event it precedes on the reference ----
    for idx, (_ev, nbefore_ref) in enumerate(lref):
        if lgot[idx][1] > nbefore_ref:
            info["late_log_index"] = idx
            return "violation", "log_delivered_late", info
    return "equal", "", info


# ---------------------------------------------------------------------------
# running
# ---------------------------------------------------------------------------


class Monitors:
    def __init__(self) -> None:
        self.c: dict[str, int] = {}

    def hit(self, k: str, n: int = 1) -> None:
        self.c[k] = self.c.get(k, 0) + n


def _instrument_http(impl: Any, mon: Monitors) -> None:
    """Observe every POST of the in-process HTTP client (status, response content-encoding)."""
    tc = impl._http_client._client
    orig = tc.simulate_post

    def simulate_post(path: str, **kw: Any) -> Any:
        res = orig(path, **kw)
        mon.hit("http_post")
        enc = (res.headers.get("content-encoding") or "").lower()
        if enc:
            mon.hit(f"http_response_{enc}")
        if path.endswith("/exchange"):
            mon.hit("http_exchange_post")
        if (kw.get("headers") or {}).get("Content-Encoding"):
            mon.hit("http_request_compressed")
        return res

    tc.simulate_post = simulate_post


@contextlib.contextmanager
def open_real_http(program: dict[str, Any], cfg: dict[str, Any], on_log: Any) -> Any:
    """A real waitress listener on loopback + the default httpx2 client."""
    import waitress

    from lib import svcgen
    from vgi_rpc.http import http_connect, make_wsgi_app
    from vgi_rpc.rpc import RpcServer

    proto, impl = svcgen.build(program)
    server = RpcServer(proto, impl)
    kw = {k: v for k, v in cfg.get("app_kwargs", {}).items() if k != "default_headers"}
    app = make_wsgi_app(server, **kw)
    ws = waitress.create_server(app, host="127.0.0.1", port=0, threads=2)
    port = ws.effective_port
    th = threading.Thread(target=ws.run, daemon=True)
    th.start()
    import httpx2

    hdrs = {"Accept-Encoding": "identity"} if cfg.get("identity") else None
    client = httpx2.Client(base_url=f"http://127.0.0.1:{port}", follow_redirects=True, headers=hdrs)
    try:
        with http_connect(proto, client=client, on_log=on_log, compression_level=cfg.get("request_compression")) as proxy:
            yield proxy, impl
    finally:
        with contextlib.suppress(Exception):
            client.close()
        ws.close()
        th.join(timeout=5)


def _open(program: dict[str, Any], cfg: dict[str, Any], on_log: Any) -> Any:
    from lib import rig

    if cfg["kind"] == "realhttp":
        return open_real_http(program, cfg, on_log)
    rcfg = {k: v for k, v in cfg.items() if k not in ("cap", "comp", "legs", "identity")}
    return rig.open_transport(program, rcfg, on_log)


def run_leg(program: dict[str, Any], cfg: dict[str, Any], calls: list[dict[str, Any]], mon: Monitors, *, isolated: bool) -> list[list[Any]]:
    """Run *calls*; isolated => one fresh connection per call, else one connection (reconnect after a C04 trigger)."""
    from lib import rig

    logs: list[Any] = []

    def on_log(msg: Any) -> None:
        logs.append(rig.norm_log(msg))

    traces: list[list[Any]] = []
    i = 0
    sockety = cfg["kind"] not in ("http", "realhttp")
    while i < len(calls):
        with _open(program, cfg, on_log) as (proxy, impl):
            if cfg["kind"] == "http":
                _instrument_http(impl, mon)
            while i < len(calls):
                c = calls[i]
                traces.append(rig.run_calls(proxy, program, collect_log=logs, calls=[c])[0])
                i += 1
                if isolated:
                    break
                if sockety and is_c04_trigger(program, c) and i < len(calls):
                    mon.hit("reconnect_after_c04_trigger")
                    break
            if impl is not None and getattr(impl, "_serve_died", None) is not None:
                mon.hit("serve_thread_died")
    return traces


def guarded(fn: Any, timeout: float) -> tuple[bool, Any]:
    """Run fn() in a daemon thread; (finished, result-or-exception)."""
    box: dict[str, Any] = {}

    def go() -> None:
        try:
            box["r"] = fn()
        except BaseException as exc:  # noqa: BLE001
            box["e"] = exc

    th = threading.Thread(target=go, daemon=True)
    th.start()
    th.join(timeout)
    if th.is_alive():
        return False, None
    if "e" in box:
        return True, box["e"]
    return True, box["r"]


def _trim(obj: Any, depth: int = 0) -> Any:
    if isinstance(obj, str):
        return obj if len(obj) <= 160 else obj[:80] + f"...<{len(obj)} chars>"
    if isinstance(obj, (list, tuple)):
        return [_trim(x, depth + 1) for x in obj[:40]]
    if isinstance(obj, dict):
        return {k: _trim(v, depth + 1) for k, v in obj.items()}
    return obj


HTTP_KINDS = ("http", "realhttp")


def _sibling_same(verdicts: dict[tuple[int, str], tuple[str, str, dict[str, Any]]], ci: int, label: str, detail: str) -> bool:
    v = verdicts.get((ci, label))
    return v is not None and v[0] == "violation" and v[1] == detail


def family_of(label: str, cfg: dict[str, Any], detail: str, ci: int, verdicts: dict[tuple[int, str], tuple[str, str, dict[str, Any]]]) -> str:
    """Transport family part of a violation key.

    A factor of the HTTP configuration (cap / compression / real listener) is named in the key only
    when the sibling configuration without that factor does NOT diverge in the same way, so that one
    mechanism maps to one key whatever configurations happen to expose it.
    """
    kind = cfg["kind"]
    if kind not in HTTP_KINDS:
        return label
    cap, comp = cfg.get("cap", "none"), cfg.get("comp", "off")
    if kind == "realhttp":
        sib = f"http:cap={cap}:comp={comp}"
        sv = verdicts.get((ci, sib))
        if sv is not None and sv[0] == "violation" and sv[1] == detail:
            return family_of(sib, {"kind": "http", "cap": cap, "comp": comp}, detail, ci, verdicts)
        return f"http_real_listener:comp={comp}"
    comp_any = comp == "off" or _sibling_same(verdicts, ci, f"http:cap={cap}:comp=off", detail)
    if cap == "none":
        cap_any = any(_sibling_same(verdicts, ci, f"http:cap={c}:comp={comp}", detail) for c in ("tiny", "large"))
        capname = "cap=any" if cap_any else "uncapped"
    else:
        capname = "cap=any" if _sibling_same(verdicts, ci, f"http:cap=none:comp={comp}", detail) else "capped"
    return f"http:{capname}:comp={'any' if comp_any else comp}"


def judge_program(chk: Check, mon: Monitors, program: dict[str, Any], cfgs: list[tuple[str, dict[str, Any]]]) -> None:
    """Run the program over every configuration (cfg["legs"] selects the legs) and judge every call."""
    calls = program["calls"]
    iso_div: dict[tuple[int, str], str] = {}
    for leg in ("isolated", "sequence"):
        isolated = leg == "isolated"
        leg_cfgs = [(lb, c) for lb, c in cfgs if leg in c.get("legs", ("isolated", "sequence"))]
        if not leg_cfgs:
            continue
        ok, ref = guarded(lambda: run_leg(program, {"kind": "pipe"}, calls, mon, isolated=isolated), CALL_TIMEOUT)  # noqa: B023
        if not ok or isinstance(ref, BaseException):
            chk.inconclusive_because(f"pipe reference leg did not complete ({'timeout' if not ok else type(ref).__name__}) for program {program.get('tag')}")
            continue
        ref_tainted_from = next((i for i, t in enumerate(ref) if has_desync_sig(t)), None)
        results: dict[str, Any] = {}
        for label, cfg in leg_cfgs:
            ok, got = guarded(lambda: run_leg(program, cfg, calls, mon, isolated=isolated), CALL_TIMEOUT)  # noqa: B023
            if not ok:
                if any(is_c04_trigger(program, c) for c in calls) and cfg["kind"] not in HTTP_KINDS:
                    chk.skip("after_c04_desync:hang")
                else:
                    chk.inconclusive_because(f"leg {label}/{leg} timed out for program {program.get('tag')}")
                continue
            if isinstance(got, BaseException):
                fam = f"http_real_listener:comp={cfg.get('comp')}" if cfg["kind"] == "realhttp" else label.split(":cap=")[0] + (f":comp={cfg.get('comp')}" if cfg["kind"] == "http" else "")
                chk.case(f"client_exception|{label}|{leg}")
                chk.violation(
                    f"client_raised_non_rpc_error:{fam}:{type(got).__name__}",
                    f"over {fam} the client raised {type(got).__name__} instead of delivering a result or an RpcError: {str(got)[:200]}",
                    {"tag": program.get("tag"), "first_call": _trim(calls[0]), "cfg": label, "leg": leg, "exception": f"{type(got).__name__}: {str(got)[:300]}"},
                )
                continue
            results[label] = got
        verdicts: dict[tuple[int, str], tuple[str, str, dict[str, Any]]] = {}
        for label, cfg in leg_cfgs:
            got = results.get(label)
            if got is None:
                continue
            got_tainted_from = next((i for i, t in enumerate(got) if has_desync_sig(t)), None)
            for ci in range(len(calls)):
                v = compare(ref[ci], got[ci], is_http=cfg["kind"] in HTTP_KINDS)
                if v[0] == "violation" and not isolated:
                    tainted = (ref_tainted_from is not None and ci >= ref_tainted_from) or (got_tainted_from is not None and ci >= got_tainted_from)
                    if tainted:
                        v = ("skip", "after_c04_desync", v[2])
                verdicts[(ci, label)] = v
        for label, cfg in leg_cfgs:
            for ci, call in enumerate(calls):
                v = verdicts.get((ci, label))
                if v is None:
                    continue
                verdict, detail, info = v
                m = method_of(program, call)
                if verdict == "skip":
                    chk.skip(detail)
                    continue
                chk.case(f"{shape_of(program, call)}|{label}|{leg}")
                dref, lref = split_trace(ref[ci])
                if verdict == "equal":
                    chk.hit("compared_equal")
                    if lref:
                        chk.hit("logs_compared")
                    if any(e[0] == "error" for e in dref):
                        chk.hit("error_compared")
                    if any(e[0] == "header" for e in dref):
                        chk.hit("header_compared")
                    if any(e[0] == "batch" and e[2] for e in dref):
                        chk.hit("batch_metadata_compared")
                    if info.get("http_extra_logs_on_partial"):
                        chk.hit("http_extra_logs_on_partial_allowed")
                    if not isolated:
                        chk.hit("sequence_leg_compared")
                    if cfg["kind"] == "subprocess":
                        chk.hit("subprocess_compared")
                    if cfg["kind"] == "realhttp":
                        chk.hit("real_listener_compared")
                    continue
                fam = family_of(label, cfg, detail, ci, verdicts)
                head, _, tail = detail.partition(":")
                key = f"{head}:{fam}:{m['kind']}" + (f":{tail}" if tail else "")
                if isolated:
                    iso_div[(ci, label)] = detail
                elif "isolated" in cfg.get("legs", ("isolated", "sequence")) and iso_div.get((ci, label)) != detail:
                    key += ":sequence_leg_only"
                blob = base64.b64encode(pickle.dumps({"program": program, "call_index": ci, "cfg": cfg, "label": label, "leg": leg})).decode()
                chk.violation(
                    key,
                    f"client-visible trace over {fam} differs from the pipe trace ({detail})",
                    {
                        "tag": program.get("tag"),
                        "method": _trim(m),
                        "call": _trim(call),
                        "cfg": label,
                        "leg": leg,
                        "info": info,
                        "ref_trace": _trim(ref[ci]),
                        "got_trace": _trim(results[label][ci]),
                        "replay_b64": blob if len(blob) < 20000 else None,
                    },
                )


def run_shard(job: dict[str, Any]) -> dict[str, Any]:
    import logging
    import os
    import warnings

    os.environ.setdefault("VGI_RPC_SHM_MIN_BATCH_BYTES", "1")
    warnings.filterwarnings("ignore")
    logging.disable(logging.CRITICAL)

    import vgi_rpc.shm as shm_mod

    shm_mod.SHM_MIN_BATCH_BYTES = 1  # small batches take the shm route too
    chk = Check(PID, job["tier"], job["seed"])
    mon = Monitors()

    # shm route monitor
    orig_alloc = shm_mod.ShmSegment.allocate_and_write

    def allocate_and_write(self: Any, batch: Any) -> Any:
        r = orig_alloc(self, batch)
        if r is not None:
            mon.hit("shm_route_taken")
        return r

    shm_mod.ShmSegment.allocate_and_write = allocate_and_write  # type: ignore[method-assign]

    rng = random.Random(f"C01:shard:{job['seed']}:{job['index']}")
    programs: list[dict[str, Any]] = job["programs_pickled"] and pickle.loads(base64.b64decode(job["programs_pickled"]))
    for pi, program in enumerate(programs):
        tiny = rng.choice([700, 1200, 2500])
        cfgs = inproc_cfgs(tiny, rng.choice([1 << 17, 1 << 20]))
        if pi < job.get("n_subprocess", 0):
            cfgs.append(("subprocess", {"kind": "subprocess", "legs": ("sequence",)}))
        if pi < job.get("n_real", 0):
            # real waitress listener + httpx2 with compression_level=None: httpx2 itself negotiates gzip;
            # identity via an explicit header.  The zstd leg is NOT run against the real client: httpx2's
            # zstd decoder needs `backports.zstd` (absent in this sandbox), so a zstd response cannot be
            # decoded by the real client here - an environment limitation, recorded in the assumptions.
            # Response compression with zstd is covered by the in-process client legs.
            for capname, cap in (("none", None), ("large", 100_000)):
                for comp, rc in (("gzip", None), ("off", None)):
                    cfgs.append(
                        (
                            f"realhttp:cap={capname}:comp={comp}",
                            {
                                "kind": "realhttp",
                                "cap": capname,
                                "comp": comp,
                                "request_compression": rc,
                                "identity": comp == "off",
                                "app_kwargs": {} if cap is None else {"max_response_bytes": cap},
                                "legs": ("sequence",),
                            },
                        )
                    )
        judge_program(chk, mon, program, cfgs)
    for k, v in mon.c.items():
        chk.hit(k, v)
    return chk.to_result()


def main(tier: str, seed: int) -> int:
    chk = Check(PID, tier, seed, level=CATEGORY, rule=RULE)
    chk.require(
        "compared_equal",
        "logs_compared",
        "error_compared",
        "header_compared",
        "batch_metadata_compared",
        "sequence_leg_compared",
        "subprocess_compared",
        "real_listener_compared",
        "shm_route_taken",
        "http_response_zstd",
        "http_response_gzip",
        "http_request_compressed",
        "http_exchange_post",
        "http_extra_logs_on_partial_allowed",
    )
    chk.assumptions = [
        "in-process pipe transport is the reference semantics",
        "externalization configurations are not exercised (tenacity absent); see C30",
        "falcon.testing client drives the WSGI app for breadth; a real waitress listener + httpx2 covers a sample",
        "cap-shaped errors are excluded (C16); post-C04-desync divergences are excluded (C04)",
        "environment limitation: httpx2's zstd decoder needs backports.zstd (absent here), so the real-listener leg runs with "
        "compression_level=None (gzip negotiated by httpx2) and identity only; zstd responses are exercised through the in-process client",
    ]
    nsh = shard.ncpu()
    shapes = shape_programs()
    ngen = 110 if tier == "quick" else 2500
    progs = shapes + gen_programs(seed, ngen)
    nshards = max(1, min(len(progs), nsh * (1 if tier == "quick" else 3)))
    parts = shard.split(progs, nshards)
    nsub = 1 if tier == "quick" else 4
    nreal = 1 if tier == "quick" else 6
    jobs = [
        {
            "tier": tier,
            "seed": seed,
            "index": i,
            "programs_pickled": base64.b64encode(pickle.dumps(part)).decode(),
            "n_subprocess": nsub,
            "n_real": nreal,
        }
        for i, part in enumerate(parts)
    ]
    for res in shard.pmap("checks.c01", "run_shard", jobs, timeout=600 if tier == "quick" else 3000):
        chk.merge(res)
    chk.extra["programs"] = len(progs)
    chk.extra["shape_programs"] = [p["tag"] for p in shapes]
    chk.exhaustive["named_shapes_x_all_configurations"] = True
    chk.exhaustive["random_programs"] = False
    chk.sample({"shape_tags": [p["tag"] for p in shapes][:12], "configs": [lbl for lbl, _ in inproc_cfgs(1200, 1 << 20)] + ["subprocess", "realhttp"]})
    return chk.finish()


def replay(path: str) -> int:
    """Re-run the witnesses of a replay file; exit 1 when a divergence shows again."""
    import json
    import logging
    import warnings

    warnings.filterwarnings("ignore")
    logging.disable(logging.CRITICAL)
    with open(path) as fh:
        rp = json.load(fh)
    fired = 0
    for w in rp.get("witnesses", []):
        if not w.get("replay_b64"):
            continue
        d = pickle.loads(base64.b64decode(w["replay_b64"]))
        program, ci, cfg = d["program"], d["call_index"], d["cfg"]
        mon = Monitors()
        iso = d["leg"] == "isolated"
        calls = [program["calls"][ci]] if iso else program["calls"]
        ref = run_leg(program, {"kind": "pipe"}, calls, mon, isolated=iso)
        got = run_leg(program, cfg, calls, mon, isolated=iso)
        idx = 0 if iso else ci
        v = compare(ref[idx], got[idx], is_http=cfg["kind"] in ("http", "realhttp"))
        print(f"replay {d['label']}/{d['leg']} call {ci}: {v[0]} {v[1]}")
        print("  ref:", _trim(ref[idx]))
        print("  got:", _trim(got[idx]))
        if v[0] == "violation":
            fired += 1
    if fired:
        print(f"VIOLATION property={PID} replay={path}")
        return 1
    print(f"[{PID}] replay did not reproduce (inconclusive)")
    return 2

"""C13 - stream tokens are bound to the method that minted them.

Services with several stream methods (producer / exchange, same state class,
field-compatible classes, different classes, call-state classes, union states)
are built with ``lib.svcgen`` and served by the real WSGI app.  Every (cursor,
call) token pair produced during the lifetime of a stream of method A is
presented - with a tick body, a body in A's input schema, a body in B's input
schema, and with the cancel flag - to the ``/exchange`` endpoint of every other
stream method B of the same service, with the call-state cache disabled and
warm.  Monitors: HTTP boundary (status, decoded error, data) and the
server-side invocation log (rehydrate / step / cancel entries = B's hooks ran
on state minted by A).
"""

from __future__ import annotations

import random
from typing import Any

from lib import shard
from lib.evidence import Check

PID = "C13"
ENGINE = "E1-svcgen-rig+E2-raw-drivers"
TECHNIQUE = "cross-method token replay at the HTTP boundary with a server-side invocation log"
LEVEL_TEXT = (
    "Exploration: for generated services (fixed relation-covering service + seeded random ones) every token pair minted during "
    "each stream lifetime was presented to every other stream endpoint of the service in 4 request shapes x 3 cache modes (disabled, warmed by /init, refilled on a second worker by a legitimate continuation); "
    "each presentation judged on status and on hook invocations of the foreign method. Held means no foreign endpoint served or "
    "ran a hook on those executions."
)
LEVEL_NOTE = "own-endpoint replay is the positive control; identities fixed to one caller (identity binding is C12)"
CATEGORY = "exploration"
RULE = (
    "case = (service, minting method A, token age in the lifetime, foreign endpoint B, request shape, cache mode); all ordered "
    "pairs A!=B of every generated service; distinct class = (A kind/state class -> B kind/state class, relation, shape, cache mode)"
)

KEY = b"C13-shared-token-key-32-bytes!!!"
FIELDS = {"PState": ("mname", "pos", "cancelled"), "PState2": ("mname", "pos", "cancelled"), "XState": ("mname", "pos", "cancelled"), "PStateCS": ("mname", "pos")}


def fixed_program() -> dict[str, Any]:
    def prod(name: str, state: str, cols: list[str], header: bool = False, **kw: Any) -> dict[str, Any]:
        m = {"name": name, "kind": "producer", "params": [], "header": header, "out_cols": cols, "state": state, "init": {"logs": [], "act": ("ok",)}, "steps": [{"logs": [], "act": "emit", "rows": 1} for _ in range(3)]}
        m.update(kw)
        return m

    def exch(name: str, cols: list[str], header: bool = False) -> dict[str, Any]:
        return {"name": name, "kind": "exchange", "params": [], "header": header, "out_cols": cols, "in_cols": cols, "state": "XState", "init": {"logs": [], "act": ("ok",)}, "steps": [{"logs": [], "act": "emit"}]}

    return {
        "name": "BindSvc",
        "methods": [
            prod("pa", "PState", ["i", "s"]),
            prod("pb", "PState", ["i", "s"], header=True),
            prod("pc", "PState2", ["i"]),
            prod("pd", "PStateCS", ["i"], cs_payload="payload-of-pd"),
            prod("pe", "PStateCS", ["i"], header=True, cs_payload="payload-of-pe"),
            exch("xa", ["i"]),
            exch("xb", ["i"], header=True),
            exch("xc", ["s"]),
            prod("pu", "PState2", ["i", "s"], union_states=["PState", "PState2"]),
            prod("pv", "PState", ["i"], union_states=["PState2", "PState"]),
            prod("pw", "PState", ["i", "s"], union_states=["PState", "PState2"]),
        ],
        "calls": [],
    }


def random_program(rng: random.Random, k: int) -> dict[str, Any]:
    n = rng.choice([2, 3, 3, 4])
    methods: list[dict[str, Any]] = []
    for i in range(n):
        kind = rng.choice(["producer", "producer", "exchange"])
        cols = rng.choice([["i"], ["i", "s"], ["s"], ["f", "i"], ["n"]])
        name = f"{kind[0]}{k}_{i}"
        m: dict[str, Any] = {"name": name, "kind": kind, "params": [], "header": rng.random() < 0.4, "out_cols": cols, "init": {"logs": [], "act": ("ok",)}}
        if kind == "producer":
            m["state"] = rng.choice(["PState", "PState", "PState2", "PStateCS"])
            if m["state"] != "PStateCS" and rng.random() < 0.25:
                other = "PState2" if m["state"] == "PState" else "PState"
                m["union_states"] = rng.choice([[m["state"], other], [other, m["state"]]])
            if m["state"] == "PStateCS":
                m["cs_payload"] = f"payload-of-{name}"
            m["steps"] = [{"logs": [], "act": "emit", "rows": rng.choice([1, 2])} for _ in range(rng.choice([2, 3, 4]))]
            if rng.random() < 0.3:
                m["steps"][-1]["act"] = "emit_finish"
        else:
            m["state"] = "XState"
            m["in_cols"] = cols
            m["steps"] = [{"logs": [], "act": "emit"}]
        methods.append(m)
    return {"name": f"Rnd{k}", "methods": methods, "calls": []}


def _declared(m: dict[str, Any]) -> tuple[str, ...]:
    return tuple(m["union_states"]) if m.get("union_states") else (m["state"],)


def relation(a: dict[str, Any], b: dict[str, Any]) -> str:
    """How A's concrete state class relates to what endpoint B declares."""
    sa, da, db = a["state"], _declared(a), _declared(b)
    if len(db) > 1 or len(da) > 1:
        if len(db) > 1 and len(da) > 1:
            return "union_to_union_same_order" if da == db else "union_to_union_other_order"
        return "into_union_member" if (len(db) > 1 and sa in db) else ("union_into_single" if len(da) > 1 else "into_union_non_member")
    sb = db[0]
    if sa == sb:
        return "same_state_class"
    if {sa, sb} == {"PState", "PState2"}:
        return "field_compatible_subclass"
    if FIELDS[sa] == FIELDS[sb]:
        return "other_class_same_fields"
    return "other_class_different_fields"


def _inv_entry(e: tuple[Any, ...]) -> tuple[Any, ...]:
    return tuple(e[:4]) if e[0] != "rehydrate" else tuple(e[:3])


def run_service(program: dict[str, Any], chk: Check, label: str) -> None:
    from lib import svcgen
    from lib.models import tokenlab as tl

    idx = tl.ID_INDEX["d_alice"]
    methods = {m["name"]: m for m in program["methods"]}
    # "refilled": the foreign presentation lands on a second worker (same key, own cache) whose entry for the
    # call was recorded by the cache-miss path of a legitimate continuation, not by /init
    for cache_mode, cache in (("cache0", 0), ("warm", 4096), ("refilled", 4096)):
        proto, impl = svcgen.build(program)
        app, _h = tl.make_app(proto, impl, key=KEY, token_ttl=3600, call_state_cache_entries=cache)
        target = app
        if cache_mode == "refilled":
            target, _h2 = tl.make_app(proto, impl, key=KEY, token_ttl=3600, call_state_cache_entries=cache)
        # lifetimes: harvest every token pair of every method
        lifetimes: dict[str, list[tuple[bytes, bytes, int]]] = {}
        for name, m in methods.items():
            r = tl.init_stream(app, name, idx)
            cur, call = tl.tokens_of(r)
            pairs: list[tuple[bytes, bytes, int]] = []
            age = 0
            while cur is not None and call is not None and age < 6:
                pairs.append((cur, call, age))
                r = tl.exchange(app, name, idx, tl.cont_body(m.get("in_cols") if m["kind"] == "exchange" else None, cur, call))
                o = tl.outcome(r)
                if o["status"] != 200 or o["error"] is not None:
                    chk.violation("own_endpoint_rejected", "a stream's own endpoint rejected its own tokens", {"service": label, "method": name, "age": age, "outcome": o})
                    break
                chk.hit("own_endpoint_accept")
                ncur, _ = tl.tokens_of(r)
                if m["kind"] == "exchange" and age >= 2:
                    break
                cur = ncur
                age += 1
            lifetimes[name] = pairs
            chk.hit("tokens_harvested", len(pairs))
        for aname, a in methods.items():
            for bname, b in methods.items():
                if aname == bname:
                    continue
                rel = relation(a, b)
                shapes: list[tuple[str, list[str] | None, bool]] = [("tick", None, False), ("cancel", None, True)]
                if a["kind"] == "exchange":
                    shapes.append(("a_input_schema", a["in_cols"], False))
                if b["kind"] == "exchange" and (a["kind"] != "exchange" or a["in_cols"] != b["in_cols"]):
                    shapes.append(("b_input_schema", b["in_cols"], False))
                for cur, call, age in lifetimes[aname]:
                    if cache_mode == "refilled":
                        r = tl.exchange(target, aname, idx, tl.cont_body(a.get("in_cols") if a["kind"] == "exchange" else None, cur, call))
                        o = tl.outcome(r)
                        if o["status"] != 200 or o["error"] is not None:
                            chk.violation("own_endpoint_rejected:second_worker", "a second worker with the same key rejected a stream's own tokens", {"service": label, "method": aname, "age": age, "outcome": o})
                            continue
                        chk.hit("refill_turn_ok")
                    for shape, cols, cancel in shapes:
                        inv0 = len(impl.inv)
                        r = tl.exchange(target, bname, idx, tl.cont_body(cols, cur, call, cancel=cancel))
                        o = tl.outcome(r)
                        new = [_inv_entry(e) for e in impl.inv[inv0:]]
                        cls = f"{a['kind']}/{'|'.join(_declared(a))}->{b['kind']}/{'|'.join(_declared(b))}|{rel}|{shape}|{cache_mode}"
                        chk.case(cls)
                        chk.hit("foreign_presented")
                        w = {"service": label, "minted_by": aname, "presented_to": bname, "relation": rel, "token_age": age, "shape": shape, "cache": cache_mode, "status": o["status"], "error": o["error"], "batches": o["batches"][:2], "foreign_hooks": new}
                        served = o["status"] == 200 and o["error"] is None
                        if served:
                            chk.violation(f"foreign_method_tokens_accepted:{rel}", f"endpoint B served tokens minted by method A ({rel})", w)
                        elif new:
                            chk.violation(f"foreign_method_hook_ran_before_rejection:{rel}", "B's hooks (rehydrate/process/on_cancel) ran on A's state although the response is an error", w)
                        else:
                            chk.hit("foreign_rejected_without_hooks")
                            if not 400 <= o["status"] < 500:
                                chk.hit("foreign_rejected_as_server_error")
                                chk.extra.setdefault("server_error_rejections", {})[f"{rel}|{shape}"] = [o["status"], str(o["error"])[:160]]
                        if len(chk.samples) < 4 and shape == "tick":
                            chk.sample(w)


def run_shard(job: dict[str, Any]) -> dict[str, Any]:
    chk = Check(PID, job["tier"], job["seed"], level=CATEGORY, rule=RULE)
    try:
        for spec in job["services"]:
            if spec == "fixed":
                run_service(fixed_program(), chk, "fixed")
            else:
                rng = random.Random(f"C13svc:{spec}")
                run_service(random_program(rng, spec), chk, f"random{spec}")
            chk.hit("services")
    except Exception as exc:  # noqa: BLE001
        import traceback

        chk.inconclusive_because(f"shard crashed: {exc!r} {traceback.format_exc()[-600:]}")
    res = chk.to_result()
    res["extra_any"] = {k: v for k, v in chk.extra.items() if isinstance(v, dict)}
    return res


def main(tier: str, seed: int) -> int:
    chk = Check(PID, tier, seed, level=CATEGORY, rule=RULE)
    chk.require("own_endpoint_accept", "tokens_harvested", "foreign_presented", "services", "refill_turn_ok")
    chk.assumptions += ["single caller identity (d/alice); identity binding is judged by C12", "a non-4xx error response without any hook invocation is counted as a rejection (recorded separately)"]
    nrand = 200 if tier == "quick" else 3000
    specs: list[Any] = ["fixed"] + [seed * 10_000 + i for i in range(nrand)]
    jobs = [{"services": part, "tier": tier, "seed": seed} for part in shard.split(specs, 12 if tier == "quick" else 48)]
    for res in shard.pmap("checks.c13", "run_shard", jobs, timeout=900.0):
        chk.merge(res)
        for k, v in res.get("extra_any", {}).items():
            chk.extra.setdefault(k, {}).update(v)
    chk.exhaustive["ordered_method_pairs_per_service"] = True
    chk.exhaustive["token_pairs_per_lifetime"] = True
    chk.exhaustive["services"] = False
    return chk.finish()

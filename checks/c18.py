"""C18 - compression codecs round-trip and respect output caps.

Oracle: identity + length relation, expressed as icontract post-conditions on
wrappers around the real ``vgi_rpc._codec.compress`` / ``decompress`` plus a
direct driver.  Frames come from the codec's own one-shot compressors and from
independent streaming producers (zstandard stream_writer / compressobj, pyarrow
CompressedOutputStream, zlib multi-flush) so both size-declaring and size-less
frames are exercised.
"""

from __future__ import annotations

import io
import itertools
import random
import zlib
from typing import Any

from lib import shard
from lib.evidence import Check

PID = "C18"
ENGINE = "E6-evidence"
TECHNIQUE = "runtime contracts (icontract post-conditions) + identity/length oracle over generated frames"
LEVEL_TEXT = (
    "Exploration: the real compress/decompress run on every byte string over a 4-symbol alphabet up to a "
    "bounded length (exhaustive) and on seeded random/structured inputs to several MiB, for every codec, level, "
    "cap relation and for frames from independent one-shot and streaming producers; an icontract "
    "post-condition plus an identity oracle judge each call. Held means no counterexample among the executions listed in the evidence."
)
LEVEL_NOTE = "zstandard/zlib/pyarrow producers trusted; identity-coding cap clause recorded, not judged"
RULE = (
    "case = (codec, level, producer, input, cap); inputs: all strings over a 4-symbol alphabet up to "
    "length 3 (quick) / 5 (thorough) exhaustively, plus seeded random / structured inputs up to 4 MiB; caps in "
    "{None,0,len-1,len,len+1,large}; distinct class = (codec, producer, cap-relation, input-shape)"
)


class PostBroken(Exception):
    pass


def _producers() -> dict[str, Any]:
    import pyarrow as pa
    import zstandard

    from vgi_rpc import _codec

    def oneshot(enc: Any, data: bytes, level: int | None) -> bytes:
        return _codec.compress(enc, data, level=level)

    def zstd_stream_writer(enc: Any, data: bytes, level: int | None) -> bytes:
        buf = io.BytesIO()
        c = zstandard.ZstdCompressor(level=3 if level is None else level)
        with c.stream_writer(buf, closefd=False) as w:
            for i in range(0, len(data), 7919):
                w.write(data[i : i + 7919])
        return buf.getvalue()

    def zstd_compressobj(enc: Any, data: bytes, level: int | None) -> bytes:
        co = zstandard.ZstdCompressor(level=3 if level is None else level).compressobj()
        return co.compress(data) + co.flush()

    def arrow_stream(enc: Any, data: bytes, level: int | None) -> bytes:
        sink = pa.BufferOutputStream()
        with pa.CompressedOutputStream(sink, "zstd" if enc.value == "zstd" else "gzip") as out:
            out.write(data)
        return sink.getvalue().to_pybytes()

    def gzip_flushy(enc: Any, data: bytes, level: int | None) -> bytes:
        co = zlib.compressobj(6 if level is None else level, zlib.DEFLATED, 31)
        out = b""
        for i in range(0, len(data), 4099):
            out += co.compress(data[i : i + 4099]) + co.flush(zlib.Z_SYNC_FLUSH)
        return out + co.flush(zlib.Z_FINISH)

    def gzip_module(enc: Any, data: bytes, level: int | None) -> bytes:
        import gzip

        return gzip.compress(data, compresslevel=6 if level is None else max(0, min(9, level)))

    return {
        "zstd": {"oneshot": oneshot, "stream_writer": zstd_stream_writer, "compressobj": zstd_compressobj, "arrow": arrow_stream},
        "gzip": {"oneshot": oneshot, "flushy": gzip_flushy, "gzipmod": gzip_module, "arrow": arrow_stream},
        "identity": {"oneshot": oneshot},
    }


def _shape(data: bytes) -> str:
    n = len(data)
    if n == 0:
        return "empty"
    if n <= 5:
        return f"len{n}"
    if n < 65536:
        return "small"
    if n == 65536:
        return "chunk"
    if n < 1 << 20:
        return "mid"
    return "big"


def _inputs(job: dict[str, Any]) -> list[bytes]:
    rng = random.Random(job["seed"])
    out: list[bytes] = []
    if job["kind"] == "exhaustive":
        alpha = [b"\x00", b"a", b"\xff", b"\n"]
        for n in range(0, job["maxlen"] + 1):
            for tup in itertools.product(alpha, repeat=n):
                out.append(b"".join(tup))
        return out[job.get("part", 0) :: job.get("parts", 1)]
    for _ in range(job["count"]):
        kind = rng.choice(["rand", "rep", "text", "chunkedge", "zeros"])
        if kind == "rand":
            out.append(rng.randbytes(rng.choice([1, 17, 255, 4096, 65535, 65536, 65537, 200_000])))
        elif kind == "rep":
            unit = rng.randbytes(rng.randint(1, 9))
            out.append(unit * rng.choice([1, 100, 8192, 70_000]))
        elif kind == "text":
            out.append((b"lorem ipsum %d " % rng.randint(0, 9)) * rng.choice([3, 1000, 30_000]))
        elif kind == "chunkedge":
            out.append(bytes([rng.randrange(256)]) * (65536 * rng.choice([1, 2, 3]) + rng.choice([-1, 0, 1])))
        else:
            out.append(b"\x00" * rng.choice([1, 65536, 1 << 20, job.get("bigzero", 1 << 21)]))
    return out


def run_shard(job: dict[str, Any]) -> dict[str, Any]:
    import sys

    import icontract

    from vgi_rpc import _codec
    from vgi_rpc._codec import DecompressionLimitExceeded, Encoding

    chk = Check(PID, job["tier"], job["seed"])
    counters = {"post": 0}

    def within_cap(result: bytes, max_output_size: int | None) -> bool:
        counters["post"] += 1
        return max_output_size is None or len(result) <= max_output_size

    guarded_decompress = icontract.ensure(within_cap, error=PostBroken)(_codec.decompress)

    prods = _producers()
    rng = random.Random(job["seed"] ^ 0x5EED)
    for data in _inputs(job):
        n = len(data)
        for enc in (Encoding.ZSTD, Encoding.GZIP, Encoding.IDENTITY):
            levels: list[int | None] = [None]
            if job["kind"] == "exhaustive" or n <= 4096:
                levels = [None, 1, 9] if enc is Encoding.GZIP else [None, 1, 19] if enc is Encoding.ZSTD else [None]
                if enc is Encoding.GZIP:
                    levels.append(0)
                if enc is Encoding.ZSTD:
                    levels.append(-5)
            for pname, prod in prods[enc.value].items():
                for level in levels if pname != "arrow" else [None]:
                    try:
                        frame = prod(enc, data, level)
                    except Exception as exc:
                        if pname == "oneshot":  # the codec's own compressor is under test
                            chk.violation(
                                f"compress_raised:{enc.value}:{type(exc).__name__}",
                                f"compress raised {type(exc).__name__}: {str(exc)[:120]}",
                                {"codec": enc.value, "level": level, "len": n, "data": data[:64]},
                            )
                            continue
                        chk.skip(f"producer_error:{enc.value}:{pname}:{type(exc).__name__}")
                        continue
                    caps: list[int | None] = [None, 0, n - 1, n, n + 1, n + 1_000_000]
                    if n > 70_000:
                        caps += [65536, 65535, n - 65536]
                    for cap in caps:
                        if cap is not None and cap < 0:
                            continue
                        rel = "none" if cap is None else ("lt" if cap < n else "eq" if cap == n else "gt")
                        cls = f"{enc.value}:{pname}:{rel}:{_shape(data)}"
                        chk.case(cls)
                        wit = {"codec": enc.value, "producer": pname, "level": level, "len": n, "cap": cap, "data": data[:64]}
                        try:
                            got = guarded_decompress(enc, frame, max_output_size=cap)
                        except DecompressionLimitExceeded:
                            chk.hit("limit_raised")
                            if enc is Encoding.IDENTITY:
                                chk.skip("identity_cap_recorded_only")
                            elif cap is None or n <= cap:
                                chk.violation(
                                    f"limit_error_within_cap:{enc.value}:{pname}",
                                    "DecompressionLimitExceeded although the original length is within the cap",
                                    wit,
                                )
                            continue
                        except PostBroken:
                            if enc is Encoding.IDENTITY:
                                chk.skip("identity_cap_recorded_only")
                                continue
                            chk.violation(
                                f"output_exceeds_cap:{enc.value}:{pname}",
                                "decompress returned more bytes than max_output_size",
                                wit,
                            )
                            continue
                        except Exception as exc:
                            chk.violation(
                                f"decompress_raised:{enc.value}:{pname}:{type(exc).__name__}",
                                f"decompress raised {type(exc).__name__}: {str(exc)[:120]} on a valid frame",
                                wit,
                            )
                            continue
                        chk.hit("returned")
                        if got != data:
                            chk.violation(
                                f"roundtrip_mismatch:{enc.value}:{pname}",
                                "decompress(compress(x)) != x",
                                {**wit, "got_len": len(got)},
                            )
                        elif cap is not None and n > cap and enc is not Encoding.IDENTITY:
                            chk.violation(
                                f"cap_not_enforced:{enc.value}:{pname}",
                                "original longer than the cap but decompress returned it",
                                wit,
                            )
        if rng.random() < 0.02:
            chk.sample({"len": n, "head": data[:16]})
    chk.extra["icontract_post_evaluations"] = counters["post"]
    chk.hit("icontract_post", counters["post"])
    sys.stdout.flush()
    return chk.to_result()


def main(tier: str, seed: int) -> int:
    chk = Check(PID, tier, seed, rule=RULE)
    chk.require("limit_raised", "returned", "icontract_post")
    chk.assumptions = [
        "zstandard, zlib and pyarrow compressors used as frame producers are trusted",
        "cap clause for the identity coding is recorded, not judged (statement speaks of frames)",
    ]
    nsh = shard.ncpu()
    jobs: list[dict[str, Any]] = []
    maxlen = 3 if tier == "quick" else 5
    parts = max(2, nsh // 2)
    for part in range(parts):
        jobs.append({"tier": tier, "seed": seed, "kind": "exhaustive", "maxlen": maxlen, "part": part, "parts": parts})
    count = 6 if tier == "quick" else 150
    for i in range(max(1, nsh - parts)):
        jobs.append({"tier": tier, "seed": seed * 1000 + i + 1, "kind": "random", "count": count, "bigzero": (1 << 21) if tier == "quick" else (1 << 22)})
    for res in shard.pmap("checks.c18", "run_shard", jobs, timeout=900 if tier == "quick" else 3000):
        chk.merge(res)
    chk.exhaustive[f"alphabet4_len<={maxlen}"] = True
    chk.exhaustive["random_structured"] = False
    chk.sample({"exhaustive_alphabet": ["00", "61", "ff", "0a"], "maxlen": maxlen})
    return chk.finish()

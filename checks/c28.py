"""C28 - shared-memory allocations never overlap or overflow.

Two groups of monitors, all on the real ``vgi_rpc.shm`` code:

* allocator: an ``icontract`` class invariant (structural walk of the header
  table, spec layout) and post-conditions are attached to the real
  ``ShmAllocator``; every allocate/free is additionally run in lock-step with a
  tracking reference model (``lib/models/shm_alloc.py``): a refusal is only
  accepted when the model has no gap >= size (or the table is full), a placement
  only when it lies inside one free gap, and after every operation the header
  table must equal the model's live set.  Workloads: every alloc/free sequence up
  to a bounded length on tiny data regions, long random sequences with
  exact-fit / one-too-big sizes on large regions, and a fill to 4094 entries.
* batch writes: the whole data region is canary-filled, a batch is written with the
  real ``ShmSegment.allocate_and_write`` into an empty segment, into a hole of
  exactly the length the implementation chose with a live batch right behind
  it, and into the tail of the segment; ``bytes_written <= allocation length``
  and "no byte outside the new allocation changed" are judged from the bytes.
"""

from __future__ import annotations

import random
from typing import Any

from lib import shard
from lib.evidence import Check

PID = "C28"
ENGINE = "E5-models+E6-evidence"
TECHNIQUE = "icontract invariant/post-conditions on the real ShmAllocator + lock-step reference model + canary-filled segment around real batch writes"
LEVEL_TEXT = (
    "Exploration: every alloc/free sequence up to a bounded length on tiny data regions (exhaustive), seeded long random "
    "sequences (exact-fit and one-too-big sizes, 4094-entry fill, full table with an inner gap) on real segments, and generated batch shapes (wide schemas, "
    "schema/field metadata, top-level and nested dictionaries, zero columns, slices) written next to live regions; the header "
    "table is walked by an icontract invariant after every operation and compared with a reference model, written bytes are "
    "compared with a canary image of the whole data region. Held means no counterexample among the executions in the evidence."
)
LEVEL_NOTE = "pyarrow IPC reader/writer trusted; header layout and first-fit gaps taken from WIRE_PROTOCOL.md section 11; placement other than first-fit is recorded, not judged"
CATEGORY = "exploration"
RULE = (
    "allocator case = one allocate/free operation in a sequence; sequences: all over alloc sizes 1..8 / free of any live entry up "
    "to the tier's length on data regions of a few bytes, plus seeded random ones; class = (leg, operation, outcome, table-fill "
    "bucket). write case = (batch shape class, scenario in {empty, hole_before_live_batch, tail_of_segment, too_big}); "
    "class = (shape class, scenario, outcome)"
)


class TableBroken(Exception):
    """icontract invariant: header table structurally broken."""


class PostBroken(Exception):
    """icontract post-condition on allocate/free failed."""


_COUNTERS = {"invariant": 0, "post": 0}
_INSTALLED = [False]


def _install_contracts() -> None:
    """Attach the invariant and post-conditions to the real ShmAllocator (in place, once per process)."""
    if _INSTALLED[0]:
        return
    import icontract

    from lib.models import shm_alloc as M
    from vgi_rpc import shm as S

    def _buf_of(self: Any) -> Any:
        return self._buf

    def header_table_well_formed(self: Any) -> bool:
        buf = _buf_of(self)
        if len(buf) < M.HEADER_BYTES:  # detached (segment closed)
            return True
        _COUNTERS["invariant"] += 1
        return M.structural_defect(buf) is None

    def _table_error(self: Any) -> TableBroken:
        return TableBroken(M.structural_defect(_buf_of(self)) or "unknown")

    def allocated_region_inside_data_region(self: Any, size: int, result: int | None) -> bool:
        _COUNTERS["post"] += 1
        if result is None:
            return True
        h = M.HeaderView(_buf_of(self))
        return M.HEADER_BYTES <= result and result + size <= M.HEADER_BYTES + h.data_size and (result, size) in h.entries

    def allocate_changes_count_by_outcome(self: Any, result: int | None, OLD: Any) -> bool:
        _COUNTERS["post"] += 1
        return M.HeaderView(_buf_of(self)).num == OLD.count + (0 if result is None else 1)

    def free_removes_exactly_that_entry(self: Any, offset: int, OLD: Any) -> bool:
        _COUNTERS["post"] += 1
        h = M.HeaderView(_buf_of(self))
        return h.num == OLD.count - 1 and h.entries == [e for e in OLD.entries if e[0] != offset]

    def _count(self: Any) -> int:
        return int(M.HeaderView(_buf_of(self)).num)

    def _entries(self: Any) -> list[tuple[int, int]]:
        return M.HeaderView(_buf_of(self)).entries

    cls = S.ShmAllocator
    icontract.invariant(header_table_well_formed, error=_table_error)(cls)
    alloc = cls.allocate
    alloc = icontract.snapshot(_count, name="count")(
        icontract.ensure(allocate_changes_count_by_outcome, error=lambda: PostBroken("allocate_count_delta"))(
            icontract.ensure(allocated_region_inside_data_region, error=lambda: PostBroken("allocate_region_outside_or_unlisted"))(alloc)
        )
    )
    cls.allocate = alloc  # type: ignore[method-assign]
    fr = cls.free
    fr = icontract.snapshot(_count, name="count")(
        icontract.snapshot(_entries, name="entries")(
            icontract.ensure(free_removes_exactly_that_entry, error=lambda: PostBroken("free_removed_other_than_requested"))(fr)
        )
    )
    cls.free = fr  # type: ignore[method-assign]
    _INSTALLED[0] = True
    import logging

    logging.getLogger("vgi_rpc.shm").setLevel(logging.ERROR)  # the 80% warning would flood stderr in the fill leg


# ---------------------------------------------------------------------------
# lock-step driver
# ---------------------------------------------------------------------------


def _fill_bucket(n: int) -> str:
    if n == 0:
        return "empty"
    if n <= 8:
        return f"n{n}"
    if n < 256:
        return "n<256"
    if n < 4000:
        return "n<4000"
    if n < 4094:
        return "n<4094"
    return "full"


class LockStep:
    """Runs the real allocator and the tracking model side by side and judges each operation."""

    def __init__(self, chk: Check, leg: str, alloc: Any, buf: Any, data_size: int) -> None:
        from lib.models import shm_alloc as M

        self.M = M
        self.chk = chk
        self.leg = leg
        self.alloc = alloc
        self.buf = buf
        self.model = M.AllocModel(data_size)
        self.history: list[Any] = []

    def _wit(self, op: Any) -> dict[str, Any]:
        return {"leg": self.leg, "data_size": self.model.data_size, "history_tail": self.history[-12:], "op": op, "model_live": self.model.live[:16], "table": self.M.HeaderView(self.buf).entries[:16]}

    def _compare_table(self, op: Any, after: str) -> None:
        h = self.M.HeaderView(self.buf)
        if h.entries != self.model.live or h.num != len(self.model.live):
            self.chk.violation(f"table_differs_from_live_set:after_{after}", "header table is not the set of live allocations", self._wit(op))
            # resynchronise so one defect does not cascade into unrelated keys
            self.model.live = sorted(h.entries)
        else:
            self.chk.hit("table_matches_live_set")
        if self.alloc.num_allocs != h.num:
            self.chk.violation("num_allocs_property_differs_from_header", "num_allocs != count stored at byte 16", self._wit(op))

    def allocate(self, size: int) -> int | None:
        chk, model = self.chk, self.model
        op = ["alloc", size]
        self.history.append(op)
        fullness = _fill_bucket(len(model.live))
        try:
            got = self.alloc.allocate(size)
        except TableBroken as exc:
            chk.case(f"{self.leg}:alloc:invariant_broken")
            chk.violation(f"table_invariant_broken:{str(exc)[:40]}:allocate", "header table structurally broken around allocate", self._wit(op))
            self.model.live = sorted(self.M.HeaderView(self.buf).entries)
            return None
        except PostBroken as exc:
            chk.case(f"{self.leg}:alloc:post_broken")
            chk.violation(f"postcondition_broken:{str(exc)[:60]}", "allocate post-condition failed", self._wit(op))
            self.model.live = sorted(self.M.HeaderView(self.buf).entries)
            return None
        except Exception as exc:
            chk.case(f"{self.leg}:alloc:raised")
            chk.violation(f"allocate_raised:{type(exc).__name__}", f"allocate({size}) raised {type(exc).__name__}: {str(exc)[:100]}", self._wit(op))
            self.model.live = sorted(self.M.HeaderView(self.buf).entries)
            return None
        if got is None:
            if model.full():
                chk.case(f"{self.leg}:alloc:refused_table_full:{fullness}")
                chk.hit("refused_table_full")
            elif model.max_gap() >= size:
                chk.case(f"{self.leg}:alloc:refused_wrongly:{fullness}")
                kind = "exact_fit_gap" if model.max_gap() == size else "larger_gap"
                chk.violation(f"refused_although_gap_fits:{kind}", "allocate returned None although a free gap >= size exists", {**self._wit(op), "max_gap": model.max_gap()})
            else:
                chk.case(f"{self.leg}:alloc:refused_no_gap:{fullness}")
                chk.hit("refused_no_gap")
        else:
            ff = model.first_fit(size)
            exact = any(g == (got, size) for g in model.gaps())
            if model.full():
                chk.case(f"{self.leg}:alloc:placed_beyond_limit")
                chk.violation("allocated_beyond_4094_entries", "allocate succeeded with 4094 live entries", self._wit(op))
                model.place(got, size)
            elif not model.legal_placement(got, size):
                chk.case(f"{self.leg}:alloc:illegal_placement:{fullness}")
                chk.violation("allocated_region_not_in_free_gap", "allocated region overlaps a live one or leaves the data region", {**self._wit(op), "got": got})
                model.place(got, size)
            else:
                chk.case(f"{self.leg}:alloc:placed{':exact_fit' if exact else ''}:{'first_fit' if got == ff else 'other_gap'}:{fullness}")
                chk.hit("placed_in_free_gap")
                if exact:
                    chk.hit("exact_fit_placed")
                if got != ff:
                    chk.skip("placement_not_first_fit(strategy is spec text, statement is silent)")
                model.place(got, size)
        self._compare_table(op, "allocate")
        return got

    def free(self, offset: int) -> None:
        chk = self.chk
        op = ["free", offset]
        self.history.append(op)
        fullness = _fill_bucket(len(self.model.live))
        try:
            self.alloc.free(offset)
        except TableBroken as exc:
            chk.case(f"{self.leg}:free:invariant_broken")
            chk.violation(f"table_invariant_broken:{str(exc)[:40]}:free", "header table structurally broken around free", self._wit(op))
            self.model.live = sorted(self.M.HeaderView(self.buf).entries)
            return
        except PostBroken as exc:
            chk.case(f"{self.leg}:free:post_broken")
            chk.violation(f"postcondition_broken:{str(exc)[:60]}", "free post-condition failed", self._wit(op))
            self.model.live = sorted(self.M.HeaderView(self.buf).entries)
            return
        except Exception as exc:
            chk.case(f"{self.leg}:free:raised")
            chk.violation(f"free_raised:{type(exc).__name__}", f"free of a live offset raised {type(exc).__name__}: {str(exc)[:100]}", self._wit(op))
            self.model.live = sorted(self.M.HeaderView(self.buf).entries)
            return
        self.model.free(offset)
        chk.case(f"{self.leg}:free:ok:{fullness}")
        self._compare_table(op, "free")


# ---------------------------------------------------------------------------
# legs
# ---------------------------------------------------------------------------


def _leg_exhaustive(chk: Check, job: dict[str, Any]) -> None:
    """Every sequence of alloc(1..maxsize) / free(i-th live) of length <= maxlen that starts with one of job['prefixes']."""
    from lib.models import shm_alloc as M
    from vgi_rpc.shm import ShmAllocator

    data = job["data"]
    total = M.HEADER_BYTES + data
    maxlen = job["maxlen"]
    sizes = list(range(1, job["maxsize"] + 1))
    snap_len = M.FIXED_FIELDS + M.ENTRY_BYTES * (maxlen + 1)
    seqs = 0
    for prefix in job["prefixes"]:
        raw = bytearray(total)
        mv = memoryview(raw)
        ShmAllocator.initialize(mv, total)
        alloc = ShmAllocator(mv, total)
        ls = LockStep(chk, f"exh{data}", alloc, mv, data)

        def apply(kind: str, arg: int, ls: LockStep = ls) -> None:
            if kind == "a":
                ls.allocate(arg)
            else:
                ls.free(ls.model.live[arg][0])

        def rec(depth: int, raw: bytearray = raw, ls: LockStep = ls) -> int:
            if depth == maxlen:
                return 1
            n = 0
            ops: list[tuple[str, int]] = [("a", s) for s in sizes] + [("f", i) for i in range(len(ls.model.live))]
            for kind, arg in ops:
                snap = bytes(raw[:snap_len])
                msnap = list(ls.model.live)
                hlen = len(ls.history)
                apply(kind, arg)
                n += rec(depth + 1)
                raw[:snap_len] = snap
                ls.model.live = msnap
                del ls.history[hlen:]
            return n

        ok = True
        for kind, arg in prefix:
            if kind == "f" and arg >= len(ls.model.live):
                ok = False  # prefix not applicable (nothing to free at that index)
                break
            apply(kind, arg)
        if ok:
            seqs += rec(len(prefix))
        ls = None  # type: ignore[assignment]
    chk.extra["exhaustive_sequences"] = chk.extra.get("exhaustive_sequences", 0) + seqs
    chk.hit("exhaustive_leg")


def exhaustive_prefixes(maxsize: int, depth: int) -> list[list[tuple[str, int]]]:
    """All operation prefixes of length *depth* (1 or 2); together they cover every sequence."""
    firsts: list[list[tuple[str, int]]] = [[("a", s)] for s in range(1, maxsize + 1)]
    if depth == 1:
        return firsts
    out: list[list[tuple[str, int]]] = []
    for f in firsts:
        for s in range(1, maxsize + 1):
            out.append([*f, ("a", s)])
        out.append([*f, ("f", 0)])  # after one allocation (placed or refused) index 0 is the only possible free
    return out


def _adversarial_size(rng: random.Random, model: Any, cap: int) -> int:
    gaps = model.gaps()
    r = rng.random()
    if r < 0.02:
        return rng.choice([cap + 1, 2 * cap, 2**63, 2**64 - 1])  # larger than the whole data region
    if gaps and r < 0.25:
        return max(1, rng.choice(gaps)[1])  # exactly one of the gaps
    if gaps and r < 0.35:
        return max(g[1] for g in gaps) + 1  # one more than the largest gap
    if gaps and r < 0.45:
        return max(1, rng.choice(gaps)[1] - 1)
    if r < 0.7:
        return rng.randint(1, 64)
    if r < 0.9:
        return rng.randint(1, max(1, cap // 16))
    return rng.randint(1, cap)


def _leg_random(chk: Check, job: dict[str, Any]) -> None:
    from lib.models import shm_alloc as M
    from vgi_rpc.shm import ShmSegment

    rng = random.Random(job["seed"])
    for data in job["regions"]:
        seg = ShmSegment.create(M.HEADER_BYTES + data)
        try:
            real_data = seg.size - M.HEADER_BYTES
            ls = LockStep(chk, f"rand{data}", seg.allocator, seg.buf, real_data)
            p_alloc = rng.choice([0.5, 0.6, 0.75])
            for _ in range(job["ops"]):
                if ls.model.live and rng.random() > p_alloc:
                    ls.free(rng.choice(ls.model.live)[0])
                else:
                    ls.allocate(_adversarial_size(rng, ls.model, real_data))
            # drain completely: the table must come back to empty
            for off, _ln in list(ls.model.live):
                ls.free(off)
            if M.HeaderView(seg.buf).num != 0:
                chk.violation("table_not_empty_after_freeing_everything", "entries remain after every live offset was freed", {"data": data})
            chk.hit("random_leg")
        finally:
            ls = None  # type: ignore[assignment]
            seg.close()
            seg.unlink()


def _leg_fill(chk: Check, job: dict[str, Any]) -> None:
    """Fill the table to 4094 entries, poke at the limit, churn near it."""
    from lib.models import shm_alloc as M
    from vgi_rpc.shm import ShmSegment

    rng = random.Random(job["seed"])
    data = M.MAX_ENTRIES * 6 + 4096
    seg = ShmSegment.create(M.HEADER_BYTES + data)
    try:
        real_data = seg.size - M.HEADER_BYTES
        canary = bytes([0xA5]) * real_data
        seg.buf[M.HEADER_BYTES :] = canary
        ls = LockStep(chk, "fill", seg.allocator, seg.buf, real_data)
        guard = 0
        while len(ls.model.live) < M.MAX_ENTRIES and guard < M.MAX_ENTRIES + 50:
            guard += 1
            if ls.allocate(rng.randint(1, 4)) is None:
                break
        if len(ls.model.live) == M.MAX_ENTRIES and M.HeaderView(seg.buf).num == M.MAX_ENTRIES:
            chk.hit("filled_4094")
        for _ in range(3):
            ls.allocate(1)  # table full although space remains: must refuse
        # full table with room in a gap that is NOT the tail gap (first entry, a middle entry, the last entry): free
        # an entry of length >= 2, re-fill the table with a 1-byte allocation, then ask for one more
        if len(ls.model.live) == M.MAX_ENTRIES:
            for pick in ("first", "middle", "last"):
                cands = [e for e in ls.model.live if e[1] >= 2]
                if not cands:
                    break
                e = cands[0] if pick == "first" else (cands[-1] if pick == "last" else cands[len(cands) // 2])
                ls.free(e[0])
                ls.allocate(1)
                if len(ls.model.live) == M.MAX_ENTRIES:
                    chk.hit("full_table_with_inner_gap")
                    for size in (1, 1, 2):
                        ls.allocate(size)  # the reference refuses: 4094 entries
        for _ in range(job["churn"]):
            if ls.model.live and (ls.model.full() or rng.random() < 0.5):
                ls.free(rng.choice(ls.model.live)[0])
            else:
                ls.allocate(_adversarial_size(rng, ls.model, 64))
            if len(ls.model.live) >= M.MAX_ENTRIES - 1 and rng.random() < 0.3:
                ls.allocate(1)
        # the header must never have spilled into the data region
        if bytes(seg.buf[M.HEADER_BYTES :]) != canary:
            chk.violation("header_spilled_into_data_region", "bytes of the data region changed although only the allocator ran", {"entries": M.HeaderView(seg.buf).num})
        else:
            chk.hit("data_region_untouched_by_allocator")
    finally:
        ls = None  # type: ignore[assignment]
        seg.close()
        seg.unlink()


# ---------------------------------------------------------------------------
# batch shapes
# ---------------------------------------------------------------------------

SHAPE_CLASSES = [
    "plain",
    "zero_columns",
    "wide_schema",
    "schema_metadata",
    "top_dictionary",
    "nested_dictionary",
    "sliced",
    "large",
    "combo",
]


def _plain_column(pa: Any, rng: random.Random, rows: int, kind: str) -> Any:
    if kind == "i":
        return pa.array([rng.randrange(-(2**40), 2**40) if rng.random() > 0.1 else None for _ in range(rows)], pa.int64())
    if kind == "s":
        return pa.array([("s" * rng.randint(0, 20)) + str(i) for i in range(rows)], pa.string())
    if kind == "f":
        return pa.array([i / 7 for i in range(rows)], pa.float64())
    if kind == "b":
        return pa.array([rng.randbytes(rng.randint(0, 12)) for _ in range(rows)], pa.binary())
    if kind == "o":
        return pa.array([bool(i & 1) for i in range(rows)], pa.bool_())
    if kind == "l":
        return pa.array([[j for j in range(i % 4)] for i in range(rows)], pa.list_(pa.int32()))
    if kind == "t":
        return pa.array([{"a": i, "b": str(i)} for i in range(rows)], pa.struct([("a", pa.int32()), ("b", pa.string())]))
    raise AssertionError(kind)


def _dict_array(pa: Any, rng: random.Random, rows: int, dsize: int, index_type: Any, value: str = "s") -> Any:
    if value == "s":
        dictionary = pa.array([f"value-{i:06d}-" + "d" * rng.choice([0, 3, 17]) for i in range(dsize)], pa.string())
    else:
        dictionary = pa.array(list(range(1000, 1000 + dsize)), pa.int64())
    maxidx = min(dsize, 127 if index_type == pa.int8() else dsize)
    idx = pa.array([rng.randrange(maxidx) if rng.random() > 0.05 else None for _ in range(rows)], index_type)
    return pa.DictionaryArray.from_arrays(idx, dictionary)


def make_batch(spec: dict[str, Any]) -> Any:
    """Build the batch described by *spec* (deterministic given spec['seed'])."""
    import pyarrow as pa

    rng = random.Random(spec["seed"])
    cls = spec["cls"]
    rows = spec.get("rows", 1)
    if cls == "plain":
        kinds = spec["kinds"]
        return pa.RecordBatch.from_arrays([_plain_column(pa, rng, rows, k) for k in kinds], names=[f"{k}{i}" for i, k in enumerate(kinds)])
    if cls == "zero_columns":
        base = pa.RecordBatch.from_arrays([pa.array(list(range(rows)), pa.int64())], names=["x"])
        return base.select([])
    if cls == "wide_schema":
        n = spec["ncols"]
        name = spec.get("name", "c{}")
        kinds = spec.get("kinds", "i")
        return pa.RecordBatch.from_arrays([_plain_column(pa, rng, rows, kinds[i % len(kinds)]) for i in range(n)], names=[name.format(i) for i in range(n)])
    if cls == "schema_metadata":
        nbytes = spec["meta_bytes"]
        where = spec.get("where", "schema")
        arr = _plain_column(pa, rng, rows, "i")
        if where == "schema":
            schema = pa.schema([pa.field("a", pa.int64())], metadata={"doc": "m" * nbytes})
        elif where == "field":
            schema = pa.schema([pa.field("a", pa.int64(), metadata={"doc": "m" * nbytes})])
        else:  # many small keys
            schema = pa.schema([pa.field("a", pa.int64())], metadata={f"key{i}": "v" * 40 for i in range(max(1, nbytes // 50))})
        return pa.RecordBatch.from_arrays([arr], schema=schema)
    if cls == "top_dictionary":
        it = {"int8": pa.int8(), "int16": pa.int16(), "int32": pa.int32()}[spec.get("index", "int32")]
        cols = [_dict_array(pa, rng, rows, spec["dsize"], it, spec.get("value", "s")) for _ in range(spec.get("ndict", 1))]
        names = [f"d{i}" for i in range(len(cols))]
        if spec.get("with_plain"):
            cols.append(_plain_column(pa, rng, rows, "i"))
            names.append("p")
        return pa.RecordBatch.from_arrays(cols, names=names)
    if cls == "nested_dictionary":
        d = _dict_array(pa, rng, rows, spec["dsize"], pa.int32(), spec.get("value", "s"))
        if spec.get("nest", "struct") == "struct":
            col = pa.StructArray.from_arrays([d, pa.array(list(range(rows)), pa.int32())], names=["k", "v"])
        else:
            offs = pa.array(list(range(rows + 1)), pa.int32())
            col = pa.ListArray.from_arrays(offs, d)
        return pa.RecordBatch.from_arrays([col], names=["n"])
    if cls == "sliced":
        big = pa.RecordBatch.from_arrays([_plain_column(pa, rng, rows * 3, k) for k in "isb"], names=["i", "s", "b"])
        return big.slice(rows, rows)
    if cls == "large":
        return pa.RecordBatch.from_arrays([pa.array([rng.randbytes(spec["payload"] // max(1, rows)) for _ in range(rows)], pa.binary())], names=["blob"])
    if cls == "combo":
        n = spec["ncols"]
        cols = [_plain_column(pa, rng, rows, "i") for _ in range(n)]
        names = [f"c{i}" for i in range(n)]
        cols.append(_dict_array(pa, rng, rows, spec["dsize"], pa.int32()))
        names.append("d")
        schema = pa.schema([pa.field(nm, c.type) for nm, c in zip(names, cols, strict=True)], metadata={"doc": "m" * spec.get("meta_bytes", 0)})
        return pa.RecordBatch.from_arrays(cols, schema=schema)
    raise AssertionError(cls)


def quick_shapes(seed: int) -> list[dict[str, Any]]:
    s: list[dict[str, Any]] = []
    for kinds, rows in [("i", 1), ("isf", 10), ("isfbolt", 200), ("s", 1000), ("lt", 3)]:
        s.append({"cls": "plain", "kinds": kinds, "rows": rows})
    s += [{"cls": "zero_columns", "rows": 0}, {"cls": "zero_columns", "rows": 5}, {"cls": "zero_columns", "rows": 100000}]
    for n, name, rows in [(64, "c{}", 1), (100, "col_{:05d}", 3), (200, "c{}", 1), (400, "c{}", 1), (400, "column_with_a_rather_long_name_{:06d}", 50), (800, "c{}", 2)]:
        s.append({"cls": "wide_schema", "ncols": n, "name": name, "rows": rows, "kinds": "is" if n == 100 else "i"})
    for nb, where in [(1000, "schema"), (3000, "schema"), (5000, "schema"), (20000, "field"), (100000, "schema"), (6000, "keys")]:
        s.append({"cls": "schema_metadata", "meta_bytes": nb, "where": where, "rows": 2})
    for ds, idx, nd, rows in [(2, "int8", 1, 5), (300, "int16", 2, 100), (5000, "int32", 1, 50), (5000, "int32", 3, 2000)]:
        s.append({"cls": "top_dictionary", "dsize": ds, "index": idx, "ndict": nd, "rows": rows, "with_plain": nd == 2})
    s.append({"cls": "top_dictionary", "dsize": 700, "index": "int32", "ndict": 1, "rows": 10, "value": "i"})
    for ds, nest, rows in [(2, "struct", 5), (300, "struct", 20), (5000, "struct", 10), (5000, "list", 10), (40, "list", 500)]:
        s.append({"cls": "nested_dictionary", "dsize": ds, "nest": nest, "rows": rows})
    s += [{"cls": "sliced", "rows": 7}, {"cls": "sliced", "rows": 400}]
    s += [{"cls": "large", "payload": 600_000, "rows": 3}, {"cls": "large", "payload": 30_000_000, "rows": 1}]
    s += [{"cls": "combo", "ncols": 150, "dsize": 500, "meta_bytes": 2000, "rows": 4}]
    for i, sp in enumerate(s):
        sp["seed"] = seed * 7919 + i
    return s


def random_shape(rng: random.Random) -> dict[str, Any]:
    cls = rng.choice(SHAPE_CLASSES)
    sp: dict[str, Any] = {"cls": cls, "seed": rng.randrange(1 << 30), "rows": rng.choice([1, 1, 2, 7, 50, 300])}
    if cls == "plain":
        sp["kinds"] = "".join(rng.choice("isfbolt") for _ in range(rng.randint(1, 12)))
    elif cls == "zero_columns":
        sp["rows"] = rng.choice([0, 1, 17, 5000])
    elif cls == "wide_schema":
        sp["ncols"] = rng.choice([64, 90, 128, 200, 333, 400, 640, 1000])
        sp["name"] = rng.choice(["c{}", "col_{:05d}", "a_much_longer_descriptive_column_name_{:08d}"])
        sp["kinds"] = rng.choice(["i", "is", "fbo"])
        sp["rows"] = rng.choice([1, 2, 20])
    elif cls == "schema_metadata":
        sp["meta_bytes"] = rng.choice([1024, 2000, 3500, 4096, 4500, 8000, 50_000, 300_000])
        sp["where"] = rng.choice(["schema", "field", "keys"])
    elif cls == "top_dictionary":
        sp.update(dsize=rng.choice([1, 2, 100, 1000, 20000]), index=rng.choice(["int8", "int16", "int32"]), ndict=rng.randint(1, 3), with_plain=rng.random() < 0.5, value=rng.choice("si"))
    elif cls == "nested_dictionary":
        sp.update(dsize=rng.choice([1, 2, 100, 1000, 20000]), nest=rng.choice(["struct", "list"]), value=rng.choice("si"))
    elif cls == "large":
        sp.update(payload=rng.choice([100_000, 1_000_000, 3_000_000]), rows=rng.choice([1, 4]))
    elif cls == "combo":
        sp.update(ncols=rng.choice([20, 100, 300]), dsize=rng.choice([10, 2000]), meta_bytes=rng.choice([0, 3000]), rows=rng.choice([1, 9]))
    return sp


# ---------------------------------------------------------------------------
# write leg
# ---------------------------------------------------------------------------

ARENA = 4 << 20


class Arena:
    """One real ShmSegment whose data region is canary-filled before every scenario."""

    def __init__(self, seed: int) -> None:
        from lib.models import shm_alloc as M
        from vgi_rpc.shm import ShmSegment

        self.M = M
        self.seg = ShmSegment.create(M.HEADER_BYTES + ARENA)
        self.data = self.seg.size - M.HEADER_BYTES
        self.canary = random.Random(seed).randbytes(self.data)
        # reusable images: fresh multi-MiB bytes objects cost a page fault per page on every scenario
        self.before = bytearray(self.data)
        self.after = bytearray(self.data)
        self.masked = bytearray(self.data)

    def reset(self) -> None:
        self.seg.reset()
        self.seg.buf[self.M.HEADER_BYTES :] = self.canary

    def entries(self) -> list[tuple[int, int]]:
        return self.M.HeaderView(self.seg.buf).entries

    def image_into(self, target: bytearray) -> bytearray:
        target[:] = self.seg.buf[self.M.HEADER_BYTES :]
        return target

    def close(self) -> None:
        self.seg.close()
        self.seg.unlink()


def _diff_ranges(a: bytes | bytearray, b: bytes | bytearray, base: int, limit: int = 4) -> list[list[int]]:
    """Absolute [start, end) ranges where a and b differ (first few)."""
    out: list[list[int]] = []
    n = len(a)
    i = 0
    step = 1 << 16
    while i < n and len(out) < limit:
        j = min(n, i + step)
        if a[i:j] == b[i:j]:
            i = j
            continue
        k = i
        while k < j and a[k] == b[k]:
            k += 1
        e = k
        while e < n and a[e] != b[e]:
            e += 1
        out.append([base + k, base + e])
        i = e
    return out


def judge_write(chk: Check, arena: Arena, batch: Any, spec: dict[str, Any], scenario: str, live: list[tuple[int, int]], expect_region: tuple[int, int] | None = None) -> tuple[int, int] | None:
    """Write *batch* with the real allocate_and_write and judge it.  Returns the new table entry."""
    M = arena.M
    cause = spec["cls"]
    before_entries = arena.entries()
    before = arena.image_into(arena.before)
    wit: dict[str, Any] = {"shape": {k: v for k, v in spec.items()}, "scenario": scenario, "schema_fields": len(batch.schema), "rows": batch.num_rows, "nbytes": batch.nbytes}
    try:
        res = arena.seg.allocate_and_write(batch)
    except (TableBroken, PostBroken) as exc:
        chk.case(f"write:{cause}:{scenario}:contract_broken")
        chk.violation(f"table_invariant_broken:{str(exc)[:40]}:allocate_and_write", "allocator contract broken during a batch write", wit)
        return None
    except Exception as exc:
        after_entries = arena.entries()
        new = [e for e in after_entries if e not in before_entries]
        chk.case(f"write:{cause}:{scenario}:raised")
        wit.update(error=f"{type(exc).__name__}: {str(exc)[:120]}", new_entry=new, segment_end=M.HEADER_BYTES + arena.data)
        if scenario == "tail_of_segment" and new and new[0][0] + new[0][1] == M.HEADER_BYTES + arena.data:
            # the write ran off the end of the segment: same overrun, seen as an exception
            chk.violation(f"write_exceeds_allocation:{cause}", "batch written into the last region of the segment needed more bytes than its allocation (write raised at the segment end)", wit)
        else:
            chk.violation(f"write_raised:{cause}:{type(exc).__name__}", "allocate_and_write raised", wit)
        return None
    after_entries = arena.entries()
    after = arena.image_into(arena.after)
    chk.hit("write_checked")
    if res is None:
        chk.case(f"write:{cause}:{scenario}:declined")
        chk.hit("write_declined")
        if after_entries != before_entries:
            chk.violation("declined_write_left_table_entry", "allocate_and_write returned None but the table changed", wit)
        if after != before:
            chk.violation("declined_write_changed_data", "allocate_and_write returned None but data bytes changed", wit)
        return None
    off, written = res
    new = [e for e in after_entries if e not in before_entries]
    gone = [e for e in before_entries if e not in after_entries]
    if len(new) != 1 or new[0][0] != off or gone:
        chk.case(f"write:{cause}:{scenario}:table_mismatch")
        chk.violation("returned_region_not_in_table", "the returned offset is not the single new table entry", {**wit, "returned": [off, written], "new": new, "gone": gone})
        return None
    length = new[0][1]
    wit.update(returned_offset=off, bytes_written=written, allocation_length=length)
    if expect_region is not None and new[0] == expect_region:
        chk.hit("write_landed_in_prepared_hole")
    lo = off - M.HEADER_BYTES
    hi = lo + length
    masked = arena.masked
    masked[:] = after
    masked[lo:hi] = before[lo:hi]
    outside_same = masked == before
    overrun = written > length
    clobbered_live = []
    if not outside_same:
        ranges = _diff_ranges(before[:lo], after[:lo], M.HEADER_BYTES) + _diff_ranges(before[hi:], after[hi:], M.HEADER_BYTES + hi)
        wit["changed_outside_allocation"] = ranges
        for lo_r, hi_r in ranges:
            for lo_l, ln_l in live:
                if lo_r < lo_l + ln_l and lo_l < hi_r:
                    clobbered_live.append([lo_l, ln_l])
        wit["live_regions_hit"] = clobbered_live[:4]
    if overrun:
        chk.case(f"write:{cause}:{scenario}:overrun{':clobbered_live' if clobbered_live else ''}")
        if clobbered_live:
            chk.hit("overrun_clobbered_live_region")
        chk.violation(f"write_exceeds_allocation:{cause}", "bytes_written is larger than the allocation the batch was given" + (" and bytes of a neighbouring live region changed" if clobbered_live else ""), wit)
    elif not outside_same:
        chk.case(f"write:{cause}:{scenario}:outside_changed")
        chk.violation(f"bytes_outside_allocation_changed:{cause}", "bytes outside the new allocation changed although bytes_written <= allocation length", wit)
    else:
        chk.case(f"write:{cause}:{scenario}:within")
        chk.hit("write_within_allocation")
    return new[0]


def _readback(chk: Check, arena: Arena, batch: Any, off: int, written: int) -> None:
    """Not part of C28's statement; counted so a reader can see the region holds the batch."""
    from vgi_rpc.shm import make_shm_pointer_batch, resolve_shm_batch

    try:
        pb, cm = make_shm_pointer_batch(batch.schema, off, written)
        rb, _cm, _rel = resolve_shm_batch(pb, cm, arena.seg)
        ok = rb.equals(batch)
        del rb
    except Exception:
        ok = False
    if ok:
        chk.hit("readback_equal")
    else:
        chk.skip("readback_differs(transparency is C29, recorded only)")


def _leg_writes(chk: Check, job: dict[str, Any]) -> None:
    import pyarrow as pa

    arena = Arena(job["seed"])
    neighbour = pa.RecordBatch.from_arrays([pa.array(list(range(64)), pa.int64()), pa.array([f"n{i}" for i in range(64)])], names=["k", "v"])
    try:
        for spec in job["shapes"]:
            try:
                batch = make_batch(spec)
            except Exception as exc:  # generator produced something pyarrow rejects
                chk.skip(f"shape_not_constructible:{spec['cls']}:{type(exc).__name__}")
                continue
            try:
                _write_scenarios(chk, arena, batch, spec, neighbour, job)
            except (TableBroken, PostBroken) as exc:
                chk.violation(
                    f"allocator_contract_broken_while_preparing_write:{type(exc).__name__}:{str(exc)[:50]}",
                    "an allocator contract failed while the harness laid out live regions",
                    {"shape": spec},
                )
    finally:
        arena.close()


def _neighbour_intact(arena: Arena, neighbour: Any, nb: tuple[int, int]) -> bool:
    from vgi_rpc.shm import make_shm_pointer_batch, resolve_shm_batch

    try:
        pb, cm = make_shm_pointer_batch(neighbour.schema, nb[0], nb[1])
        rb, _c, _r = resolve_shm_batch(pb, cm, arena.seg)
        same = bool(rb.equals(neighbour))
        del rb
    except Exception:
        same = False
    return same


def _write_scenarios(chk: Check, arena: Arena, batch: Any, spec: dict[str, Any], neighbour: Any, job: dict[str, Any]) -> None:
    M = arena.M
    end = M.HEADER_BYTES + arena.data
    # 1. empty segment: learn the allocation length the implementation chooses for this batch
    arena.reset()
    ent = judge_write(chk, arena, batch, spec, "empty", [])
    if ent is None:
        if batch.nbytes > arena.data:
            # too big for the arena: must be declined without touching anything, also with a live region around
            arena.reset()
            a = arena.seg.allocator.allocate(4096)
            assert a is not None
            judge_write(chk, arena, batch, spec, "too_big", [(a, 4096)])
        return
    length = ent[1]
    # 2. hole of exactly that length: a live canary region before it, a live real batch right behind it
    arena.reset()
    alloc = arena.seg.allocator
    pad_len = 1024 + (spec["seed"] % 7) * 8
    pad = alloc.allocate(pad_len)
    hole = alloc.allocate(length)
    nb = arena.seg.allocate_and_write(neighbour)
    if pad is None or hole is None or nb is None:
        chk.skip("hole_scenario_does_not_fit_arena")
    else:
        nb_entry = next(e for e in arena.entries() if e[0] == nb[0])
        alloc.free(hole)
        chk.hit("write_next_to_live_region")
        judge_write(chk, arena, batch, spec, "hole_before_live_batch", [(pad, pad_len), nb_entry], expect_region=(hole, length))
        # the neighbouring live batch must still decode to what was written
        chk.hit("live_neighbour_batch_intact" if _neighbour_intact(arena, neighbour, nb) else "live_neighbour_batch_damaged")
    # 3. tail of the segment: the only gap that fits ends at the segment end
    arena.reset()
    alloc = arena.seg.allocator
    front = alloc.allocate(arena.data - length)
    if front is None:
        chk.skip("tail_scenario_does_not_fit_arena")
    else:
        ent3 = judge_write(chk, arena, batch, spec, "tail_of_segment", [(front, arena.data - length)], expect_region=(end - length, length))
        if ent3 is not None and ent3[0] + ent3[1] == end:
            chk.hit("write_at_segment_end")
    # 4. read the batch back (recorded only; transparency is C29)
    arena.reset()
    try:
        r = arena.seg.allocate_and_write(batch)
    except Exception:
        r = None
    if r is not None:
        _readback(chk, arena, batch, r[0], r[1])
    if len(chk.samples) < 4:
        chk.sample({"shape": spec, "fields": len(batch.schema), "rows": batch.num_rows, "allocation_length": length})


# ---------------------------------------------------------------------------
# shard entry / main
# ---------------------------------------------------------------------------


def run_shard(job: dict[str, Any]) -> dict[str, Any]:
    chk = Check(PID, job["tier"], job["seed"])
    _install_contracts()
    kind = job["kind"]
    if kind == "exh":
        _leg_exhaustive(chk, job)
    elif kind == "rand":
        _leg_random(chk, job)
    elif kind == "fill":
        _leg_fill(chk, job)
    elif kind == "writes":
        _leg_writes(chk, job)
    else:
        raise AssertionError(kind)
    chk.hit("icontract_invariant", _COUNTERS["invariant"])
    chk.hit("icontract_post", _COUNTERS["post"])
    chk.extra["icontract_invariant_evaluations"] = _COUNTERS["invariant"]
    chk.extra["icontract_post_evaluations"] = _COUNTERS["post"]
    return chk.to_result()


def main(tier: str, seed: int) -> int:
    chk = Check(PID, tier, seed, level=CATEGORY, rule=RULE)
    chk.require(
        "icontract_invariant",
        "icontract_post",
        "table_matches_live_set",
        "refused_no_gap",
        "refused_table_full",
        "exact_fit_placed",
        "filled_4094",
        "full_table_with_inner_gap",
        "data_region_untouched_by_allocator",
        "write_checked",
        "write_next_to_live_region",
        "write_landed_in_prepared_hole",
        "write_declined",
        "exhaustive_leg",
        "random_leg",
    )
    chk.assumptions = [
        "header layout, 4094-entry limit and gap definition taken from docs/WIRE_PROTOCOL.md section 11",
        "pyarrow's IPC writer/reader is trusted; the canary image is random bytes, an overrun that reproduces them exactly would go unseen",
        "placements that are legal but not first-fit are counted under 'unjudged', the statement does not fix the strategy",
        "exhaustive leg restores earlier header bytes between branches (the header is the allocator's only state)",
    ]
    jobs: list[dict[str, Any]] = []
    quick = tier == "quick"
    if quick:
        exh = [(8, 5, 8), (16, 5, 8), (32, 5, 8)]
    else:
        exh = [(12, 6, 8), (33, 6, 8), (64, 7, 8)]
    for data, maxlen, maxsize in exh:
        prefixes = exhaustive_prefixes(maxsize, 2 if maxlen >= 7 else 1)
        ngroups = 2 if quick else (32 if maxlen >= 7 else 6)
        for part in shard.split(prefixes, ngroups):
            jobs.append({"kind": "exh", "tier": tier, "seed": seed, "data": data, "maxlen": maxlen, "maxsize": maxsize, "prefixes": part})
        chk.exhaustive[f"alloc_free_sequences:data={data}B,sizes=1..{maxsize},len<={maxlen}"] = True
    nrand = 3 if quick else 12
    for i in range(nrand):
        jobs.append({"kind": "rand", "tier": tier, "seed": seed * 1000 + i, "regions": [64, 4096, 1 << 20] if i % 2 == 0 else [257, 65536], "ops": 700 if quick else 6000})
    jobs.append({"kind": "fill", "tier": tier, "seed": seed * 1000 + 77, "churn": 150 if quick else 1500})
    if not quick:
        jobs.append({"kind": "fill", "tier": tier, "seed": seed * 1000 + 78, "churn": 1500})
    shapes = quick_shapes(seed)
    if not quick:
        rng = random.Random(f"C28-shapes-{seed}")
        shapes = shapes + [random_shape(rng) for _ in range(2000)]
    nsh = 4 if quick else 16
    for part in shard.split(shapes, nsh):
        jobs.append({"kind": "writes", "tier": tier, "seed": seed * 1000 + 500 + len(jobs), "shapes": part})
    chk.exhaustive["random_sequences"] = False
    chk.exhaustive["batch_shapes"] = False
    # longest jobs first
    jobs.sort(key=lambda j: {"exh": 0, "fill": 1, "writes": 2, "rand": 3}[j["kind"]])
    for res in shard.pmap("checks.c28", "run_shard", jobs, timeout=600 if quick else 2400):
        chk.merge(res)
    chk.extra["shape_count"] = len(shapes)
    return chk.finish()

"""C03 - serializable dataclasses round-trip for every supported shape.

Dataclass *types* are generated at run time (``dataclasses.make_dataclass`` with
``ArrowSerializableDataclass`` / ``ProducerState`` bases and real annotation objects) from the
documented field grammar (README "Supported types", docs/api/serialization.md, WIRE_PROTOCOL
section 4, the ``ArrowSerializableDataclass`` / ``Transient`` docstrings) to nesting depth 3, and
instances of them are pushed through the real codecs:

  O1  ``T.deserialize_from_bytes(x.serialize_to_bytes())`` equals ``x`` (transient fields come
      back as their declared default - that is their documented meaning);
  O2  whenever ``serialize_compact(x)`` returns bytes, ``deserialize_compact(T, bytes)`` equals the
      Arrow round trip of ``x``;
  O3  ``_deserialize_state_bytes(_serialize_state_bytes(s, info))`` equals ``s`` for single and
      union (tagged) state forms, over both encodings;
  O4  a generated state object carried through real HTTP producer continuations (sealed token ->
      client -> next request) arrives equal to what the previous turn left behind.

Two legs: "without msgpack" is the environment as it is (compact codec reports not-applicable);
"with msgpack" puts /verif/shims (a spec-written pure-Python msgpack subset) on sys.path unless
a real msgpack is importable.  ``msgpack_impl`` in the evidence says which one decided.
"""

from __future__ import annotations

import copy
import dataclasses
import enum
import os
import random
import sys
from typing import Any

from lib import shard
from lib.evidence import Check

PID = "C03"
ENGINE = "E1-svcgen-rig+E5-models"
TECHNIQUE = "generated dataclass types x instances; identity oracle on Arrow / compact / state-token codecs and HTTP continuations"
LEVEL_TEXT = (
    "Exploration: dataclass types generated from the documented field grammar to nesting depth 3 and generated "
    "instances were round-tripped through serialize_to_bytes/deserialize_from_bytes, the compact codec (both with a "
    "msgpack implementation present and absent), the HTTP state-token state encoders (single and union forms) and "
    "real HTTP producer continuations; every decoded object was compared field by field with the original. "
    "Held means no counterexample among the types/instances listed in the evidence."
)
LEVEL_NOTE = (
    "the 'with msgpack' leg runs on a pure-Python spec-conformant msgpack subset unless a real msgpack is importable; "
    "shapes the documentation does not promise (nested containers, enum map keys, NewType, binary-embedded "
    "dataclasses, off-type values) are generated and recorded, not judged"
)
CATEGORY = "exploration"
RULE = (
    "case = (oracle, generated type, instance); types: 1-6 fields drawn from scalars, ArrowType overrides, enums "
    "(plain / str-mixin / IntEnum), optionals, list/dict/frozenset of scalars, enums and nested generated "
    "dataclasses, pa.Schema, pa.RecordBatch, Transient fields, defaults / default_factory, nesting depth <= 3; "
    "instances boundary-biased; distinct class = (oracle, msgpack leg, field shape)"
)

SHIMS = os.path.join(os.path.dirname(os.path.dirname(os.path.abspath(__file__))), "shims")


class Mixed(str, enum.Enum):
    ALPHA = "a"
    BETA = "ALPHA"


class Num(enum.IntEnum):
    ONE = 1
    TWO = 20


# ---------------------------------------------------------------------------
# field grammar
# ---------------------------------------------------------------------------

LEAVES = [("int",), ("float",), ("str",), ("bytes",), ("bool",)]
HASHABLE_LEAVES = [("int",), ("str",), ("bytes",), ("bool",)]
OVERRIDES = ["int8", "int32", "uint16", "uint64", "float32", "large_string", "date32", "timestamp_us", "duration_us"]
ENUM_NAMES = ["Color", "Level3", "Odd", "Mixed", "Num"]


def shape(spec: tuple[Any, ...]) -> str:
    k = spec[0]
    if k in ("opt", "list", "set"):
        return f"{k}<{shape(spec[1])}>"
    if k == "dict":
        return f"dict<{shape(spec[1])},{shape(spec[2])}>"
    if k == "arrow":
        return "override"
    if k == "gdc":
        return "dc"
    return str(k)


def keyshape(spec: tuple[Any, ...]) -> str:
    """Shape for mechanism keys: optional wrappers stripped, map key type abstracted."""
    k = spec[0]
    if k == "opt":
        return keyshape(spec[1])
    if k in ("list", "set"):
        return f"{k}<{keyshape(spec[1])}>"
    if k == "dict":
        return f"dict<*,{keyshape(spec[2])}>"
    if k in ("int", "float", "str", "bytes", "bool"):
        return "scalar"
    return shape(spec)


def _elem_ok(s: tuple[Any, ...]) -> bool:
    return s[0] in ("int", "float", "str", "bytes", "bool", "arrow", "enum", "gdc")


def promised(spec: tuple[Any, ...]) -> bool:
    k = spec[0]
    if k in ("int", "float", "str", "bytes", "bool", "arrow", "enum", "gdc", "schema", "batch"):
        return True
    if k == "opt":
        return promised(spec[1])
    if k in ("list", "set"):
        return _elem_ok(spec[1])
    if k == "dict":
        return spec[1][0] in ("int", "str", "arrow") and _elem_ok(spec[2])
    return False  # bindc, newtype


class World:
    """Generated types of one shard plus helpers bound to the imported repository modules."""

    def __init__(self, rng: random.Random) -> None:
        import typing

        import pyarrow as pa

        from lib import tygen
        from vgi_rpc.rpc import ProducerState
        from vgi_rpc.utils import ArrowSerializableDataclass, ArrowType, Transient

        self.rng = rng
        self.pa = pa
        self.tygen = tygen
        self.typing = typing
        self.ASD = ArrowSerializableDataclass
        self.ArrowType = ArrowType
        self.Transient = Transient
        self.ProducerState = ProducerState
        self.types: list[dict[str, Any]] = []
        self.enums: dict[str, Any] = {**tygen.ENUMS, "Mixed": Mixed, "Num": Num}
        self.newtypes = {"UserId": typing.NewType("UserId", int), "Blob": typing.NewType("Blob", bytes)}
        self.probes: dict[str, dict[str, Any]] = {}

    # -- annotations -------------------------------------------------------
    def ann(self, spec: tuple[Any, ...]) -> Any:
        k = spec[0]
        if k in ("int", "float", "str", "bytes", "bool", "arrow"):
            return self.tygen.resolve(spec)
        if k == "enum":
            return self.enums[spec[1]]
        if k == "opt":
            return self.ann(spec[1]) | None
        if k == "list":
            return list[self.ann(spec[1])]  # type: ignore[misc]
        if k == "set":
            return frozenset[self.ann(spec[1])]  # type: ignore[misc]
        if k == "dict":
            return dict[self.ann(spec[1]), self.ann(spec[2])]  # type: ignore[misc]
        if k == "gdc":
            return self.types[spec[1]]["cls"]
        if k == "schema":
            return self.pa.Schema
        if k == "batch":
            return self.pa.RecordBatch
        if k == "bindc":
            return self.typing.Annotated[self.types[spec[1]]["cls"], self.ArrowType(self.pa.binary())]
        if k == "newtype":
            return self.newtypes[spec[1]]
        raise ValueError(spec)

    # -- type generation -----------------------------------------------------
    def gen_field_spec(self, depth: int, hashable: bool, flat: bool) -> tuple[Any, ...]:
        rng = self.rng
        if flat:
            s = rng.choice(LEAVES)
            return ("opt", s) if rng.random() < 0.3 else s
        if hashable:
            c = rng.choice(["leaf", "leaf", "enum", "opt", "set", "dc" if depth > 0 else "leaf"])
            if c == "leaf":
                return rng.choice(HASHABLE_LEAVES)
            if c == "enum":
                return ("enum", rng.choice(ENUM_NAMES))
            if c == "opt":
                return ("opt", rng.choice([*HASHABLE_LEAVES, ("enum", rng.choice(ENUM_NAMES))]))
            if c == "set":
                return ("set", rng.choice([*HASHABLE_LEAVES, ("enum", rng.choice(ENUM_NAMES))]))
            return ("gdc", self.gen_type(depth - 1, hashable=True))
        kinds = ["leaf"] * 4 + ["override", "override", "enum", "enum", "opt", "opt", "list", "list", "dict", "dict", "set", "set", "schema", "batch"]
        if depth > 0:
            kinds += ["dc", "dc", "optdc", "listdc", "dictdc", "setdc", "bindc"]
        kinds += ["unpromised"]
        c = rng.choice(kinds)
        elem = lambda: rng.choice([rng.choice(LEAVES), ("arrow", rng.choice(OVERRIDES)), ("enum", rng.choice(ENUM_NAMES))])  # noqa: E731
        helem = lambda: rng.choice([rng.choice(HASHABLE_LEAVES), ("arrow", rng.choice(["int8", "uint64", "date32"])), ("enum", rng.choice(ENUM_NAMES))])  # noqa: E731
        if c == "leaf":
            return rng.choice(LEAVES)
        if c == "override":
            return ("arrow", rng.choice(OVERRIDES))
        if c == "enum":
            return ("enum", rng.choice(ENUM_NAMES))
        if c == "opt":
            inner = rng.choice(["elem", "list", "set", "dict", "schema", "batch"])
            if inner == "elem":
                return ("opt", elem())
            if inner == "list":
                return ("opt", ("list", elem()))
            if inner == "set":
                return ("opt", ("set", helem()))
            if inner == "dict":
                return ("opt", ("dict", rng.choice([("str",), ("int",)]), elem()))
            return ("opt", (inner,))
        if c == "list":
            return ("list", elem())
        if c == "set":
            return ("set", helem())
        if c == "dict":
            return ("dict", rng.choice([("str",), ("int",), ("arrow", "int32")]), elem())
        if c in ("schema", "batch"):
            return (c,)
        if c == "dc":
            return ("gdc", self.gen_type(depth - 1))
        if c == "optdc":
            return ("opt", ("gdc", self.gen_type(depth - 1)))
        if c == "listdc":
            return ("list", ("gdc", self.gen_type(depth - 1)))
        if c == "dictdc":
            return ("dict", rng.choice([("str",), ("int",)]), ("gdc", self.gen_type(depth - 1)))
        if c == "setdc":
            return ("set", ("gdc", self.gen_type(depth - 1, hashable=True)))
        if c == "bindc":
            return ("bindc", self.gen_type(depth - 1))
        return rng.choice(
            [
                ("list", ("list", ("int",))),
                ("dict", ("str",), ("list", ("int",))),
                ("list", ("opt", ("int",))),
                ("dict", ("enum", "Color"), ("int",)),
                ("newtype", "UserId"),
                ("newtype", "Blob"),
                ("list", ("set", ("str",))),
            ]
        )

    def gen_type(self, depth: int, *, hashable: bool = False, flat: bool = False, state: bool = False, fields: list[tuple[Any, ...]] | None = None) -> int:
        """Create one dataclass type; returns its index in ``self.types``."""
        rng = self.rng
        if fields is None:
            fields = []
            n = rng.choice([1, 2, 2, 3, 3, 4, 5, 6])
            for i in range(n):
                spec = self.gen_field_spec(depth, hashable, flat)
                transient = (not hashable) and rng.random() < 0.12
                if transient:
                    tspec = rng.choice([("int",), ("str",), ("dict", ("str",), ("int",)), ("list", ("float",)), ("opt", ("bytes",))])
                    fields.append((f"t{i}", tspec, True, *self.gen_default(tspec, force=True)))
                else:
                    fields.append((f"f{i}", spec, False, *self.gen_default(spec, force=False)))
            if rng.random() < 0.03 and not hashable:
                fields = [(f"t{i}", ("int",), True, "value", i) for i in range(2)]  # all-transient class
            fields.sort(key=lambda f: f[3] != "none")
        idx = len(self.types)
        self.types.append({})  # reserve (children were created before, parents later)
        dfields = []
        for name, spec, transient, dkind, dval in fields:
            a = self.ann(spec)
            if transient:
                a = self.typing.Annotated[a, self.Transient()]
            if dkind == "none":
                dfields.append((name, a))
            elif dkind == "value":
                dfields.append((name, a, dataclasses.field(default=dval)))
            else:
                dfields.append((name, a, dataclasses.field(default_factory=_const_factory(dval))))
        name = f"G{idx}"
        if state:
            cls = dataclasses.make_dataclass(name, dfields, bases=(self.ProducerState,), namespace={"produce": _state_produce})
        else:
            cls = dataclasses.make_dataclass(name, dfields, bases=(self.ASD,), frozen=hashable or rng.random() < 0.5)
        self.types[idx] = {"cls": cls, "fields": fields, "hashable": hashable, "flat": flat, "depth": depth, "state": state}
        return idx

    def gen_default(self, spec: tuple[Any, ...], *, force: bool) -> tuple[str, Any]:
        if not force and self.rng.random() > 0.3:
            return ("none", None)
        v = self.gen_value(spec)
        if v is None or isinstance(v, (bool, int, float, str, bytes, enum.Enum)):
            return ("value", v)
        if isinstance(v, frozenset) and _all_hashable(v):
            return ("value", v)
        return ("factory", v)

    # -- values ------------------------------------------------------------------
    def gen_value(self, spec: tuple[Any, ...]) -> Any:
        rng, pa = self.rng, self.pa
        k = spec[0]
        if k in ("int", "float", "str", "bytes", "bool", "arrow"):
            return self.tygen.gen_value(spec, rng)
        if k == "enum":
            return rng.choice(list(self.enums[spec[1]]))
        if k == "opt":
            return None if rng.random() < 0.3 else self.gen_value(spec[1])
        if k == "list":
            return [self.gen_value(spec[1]) for _ in range(rng.choice([0, 1, 2, 3]))]
        if k == "set":
            return frozenset(self.gen_value(spec[1]) for _ in range(rng.choice([0, 1, 2, 4])))
        if k == "dict":
            return {self.gen_value(spec[1]): self.gen_value(spec[2]) for _ in range(rng.choice([0, 1, 2, 3]))}
        if k in ("gdc", "bindc"):
            return self.gen_inst(spec[1])
        if k == "schema":
            return rng.choice(_schemas(pa))
        if k == "batch":
            sch = rng.choice(_schemas(pa)[:4])
            n = rng.choice([0, 1, 3])
            cols = {}
            for f in sch:
                if pa.types.is_integer(f.type):
                    cols[f.name] = [rng.choice([0, -1, 2**40 if f.type == pa.int64() else 7, None if f.nullable else 1]) for _ in range(n)]
                elif pa.types.is_string(f.type):
                    cols[f.name] = [rng.choice(["", "é", None if f.nullable else "x"]) for _ in range(n)]
                else:
                    cols[f.name] = [rng.choice([0.5, float("nan"), None if f.nullable else 1.0]) for _ in range(n)]
            return pa.RecordBatch.from_pydict(cols, schema=sch)
        if k == "newtype":
            return self.tygen.gen_value(("int",) if spec[1] == "UserId" else ("bytes",), rng)
        raise ValueError(spec)

    def gen_inst(self, idx: int) -> Any:
        ti = self.types[idx]
        kw = {}
        for name, spec, transient, dkind, _dval in ti["fields"]:
            if dkind != "none" and self.rng.random() < (0.5 if transient else 0.4):
                continue
            kw[name] = self.gen_value(spec)
        return ti["cls"](**kw)

    # -- equality ----------------------------------------------------------------
    def deq(self, a: Any, b: Any, spec: tuple[Any, ...]) -> bool:
        """Spec-directed equality of an original value *a* and a decoded value *b*."""
        veq = self.tygen.veq
        k = spec[0]
        if a is None or b is None:
            return a is None and b is None
        if k == "opt":
            return self.deq(a, b, spec[1])
        if k == "enum":
            return a is b
        if k == "list":
            return isinstance(b, list) and len(a) == len(b) and all(self.deq(x, y, spec[1]) for x, y in zip(a, b, strict=True))
        if k == "set":
            if not isinstance(b, (set, frozenset)) or len(a) != len(b):
                return False
            rest = list(b)
            for x in a:
                for i, y in enumerate(rest):
                    if self.deq(x, y, spec[1]):
                        del rest[i]
                        break
                else:
                    return False
            return True
        if k == "dict":
            if not isinstance(b, dict) or len(a) != len(b):
                return False
            items = list(b.items())
            for kk, vv in a.items():
                for i, (k2, v2) in enumerate(items):
                    if self.deq(kk, k2, spec[1]) and self.deq(vv, v2, spec[2]):
                        del items[i]
                        break
                else:
                    return False
            return True
        if k in ("gdc", "bindc"):
            return self.inst_eq(a, b, spec[1])
        if k == "batch":
            # RecordBatch.equals() treats NaN as unequal to itself; compare schema (with metadata) + cell values
            return (
                isinstance(b, self.pa.RecordBatch)
                and a.schema.equals(b.schema, check_metadata=True)
                and a.num_rows == b.num_rows
                and bool(veq(a.to_pydict(), b.to_pydict()))
            )
        return bool(veq(a, b))

    def inst_eq(self, a: Any, b: Any, idx: int) -> bool:
        ti = self.types[idx]
        if type(b) is not ti["cls"] or type(a) is not ti["cls"]:
            return False
        for name, spec, transient, dkind, dval in ti["fields"]:
            if transient:
                # documented meaning: not serialized, comes back as the declared default
                if not self.tygen.veq(copy.deepcopy(dval), getattr(b, name)):
                    return False
            elif not self.deq(getattr(a, name), getattr(b, name), spec):
                return False
        return True

    def type_promised(self, idx: int) -> list[str]:
        """Shapes of fields (recursively) that the documentation does not promise."""
        bad: list[str] = []

        def walk(spec: tuple[Any, ...]) -> None:
            if not promised(spec):
                bad.append(shape(spec))
                return
            for sub in spec[1:]:
                if isinstance(sub, tuple):
                    walk(sub)
            if spec[0] == "gdc":
                bad.extend(self.type_promised(spec[1]))

        for _n, spec, transient, _k, _v in self.types[idx]["fields"]:
            if not transient:
                walk(spec)
        return bad

    def field_shapes(self, idx: int) -> set[str]:
        out: set[str] = set()
        for _n, spec, transient, dkind, _v in self.types[idx]["fields"]:
            s = "transient" if transient else shape(spec)
            if dkind != "none" and not transient:
                s += "+default"
            out.add(s)
        return out

    # -- localisation of a failing field ------------------------------------
    def probe(self, spec: tuple[Any, ...]) -> int:
        key = repr(spec)
        if key not in self.probes:
            self.probes[key] = {"idx": self.gen_type(0, fields=[("v", spec, False, "none", None)])}
        return int(self.probes[key]["idx"])

    def localize(self, idx: int, inst: Any, roundtrip: Any, seen: int = 0) -> list[tuple[str, str]]:
        """Which fields fail *roundtrip* when isolated in a single-field class: [(keyshape, 'mismatch'|ExcName)]."""
        out: list[tuple[str, str]] = []
        for name, spec, transient, _dk, _dv in self.types[idx]["fields"]:
            if transient:
                continue
            v = getattr(inst, name)
            pidx = self.probe(spec)
            pinst = self.types[pidx]["cls"](v=v)
            try:
                back = roundtrip(self.types[pidx]["cls"], pinst)
                ok = self.inst_eq(pinst, back, pidx)
                how = "mismatch"
            except Exception as exc:  # noqa: BLE001
                ok, how = False, type(exc).__name__
            if ok:
                continue
            inner = spec[1] if spec[0] == "opt" else spec
            if inner[0] == "gdc" and v is not None and seen < 4:
                sub = self.localize(inner[1], v, roundtrip, seen + 1)
                if sub:
                    out.extend(sub)
                    continue
            if inner[0] in ("list", "dict", "set") and inner[-1][0] == "gdc" and v and seen < 4:
                members = list(v.values()) if isinstance(v, dict) else list(v)
                sub = []
                for mv in members[:3]:
                    sub.extend(self.localize(inner[-1][1], mv, roundtrip, seen + 1))
                if sub:
                    out.extend(sub)
                    continue
            out.append((keyshape(spec), how))
        return out


def _all_hashable(v: Any) -> bool:
    try:
        hash(v)
        return True
    except TypeError:
        return False


def _const_factory(value: Any) -> Any:
    def factory() -> Any:
        return copy.deepcopy(value)

    return factory


def _state_produce(self: Any, out: Any, ctx: Any) -> None:
    """produce() of generated HTTP state classes: snapshot, advance, emit one row (see O4)."""
    impl = ctx.implementation
    impl.seen.append(copy.copy(self))
    self.turn += 1
    impl.mutate(self)
    impl.left.append(copy.copy(self))
    if self.turn > impl.turns:
        out.finish()
        return
    out.emit_pydict({"i": [self.turn]})


_SCHEMAS: list[Any] = []


def _schemas(pa: Any) -> list[Any]:
    if not _SCHEMAS:
        _SCHEMAS.extend(
            [
                pa.schema([pa.field("a", pa.int64())]),
                pa.schema([pa.field("a", pa.int32(), nullable=False), pa.field("s", pa.string())]),
                pa.schema([pa.field("x", pa.float64()), pa.field("s", pa.string())], metadata={b"k": b"v", b"": b""}),
                pa.schema([pa.field("a", pa.int64(), metadata={b"fm": b"1"})]),
                pa.schema([]),
                pa.schema([pa.field("l", pa.list_(pa.int8())), pa.field("d", pa.dictionary(pa.int16(), pa.string())), pa.field("m", pa.map_(pa.string(), pa.float32()))]),
                pa.schema([pa.field("st", pa.struct([pa.field("q", pa.timestamp("us", tz="UTC")), pa.field("r", pa.decimal128(10, 2))]))]),
            ]
        )
    return _SCHEMAS


# ---------------------------------------------------------------------------
# shard
# ---------------------------------------------------------------------------


def run_shard(job: dict[str, Any]) -> dict[str, Any]:
    import warnings

    warnings.filterwarnings("ignore")
    msgpack_impl = "absent"
    if job["msgpack"]:
        try:
            import msgpack  # noqa: F401

            msgpack_impl = f"real:{getattr(msgpack, '__version__', getattr(msgpack, 'version', '?'))}"
        except ImportError:
            sys.path.insert(0, SHIMS)
            import msgpack  # noqa: F401

            msgpack_impl = f"shim:{msgpack.__version__}"
    else:
        try:
            import msgpack  # noqa: F401

            msgpack_impl = "real-present-cannot-run-without-leg"
        except ImportError:
            pass

    import pyarrow as pa  # noqa: F401

    from vgi_rpc import utils
    from vgi_rpc.http.server import _state_token as st
    from vgi_rpc.utils import IpcValidation, deserialize_compact, serialize_compact

    leg = "msgpack" if job["msgpack"] else "nomsgpack"
    chk = Check(PID, job["tier"], job["seed"])
    if bool(utils._HAVE_MSGPACK) != bool(job["msgpack"]):
        chk.inconclusive_because(f"leg {leg}: vgi_rpc.utils._HAVE_MSGPACK={utils._HAVE_MSGPACK} ({msgpack_impl})")
        res = chk.to_result()
        res["msgpack_impl"] = msgpack_impl
        return res
    chk.hit(f"leg:{leg}")
    rng = random.Random(job["seed"])
    w = World(rng)

    def arrow_rt(cls: Any, x: Any) -> Any:
        return cls.deserialize_from_bytes(x.serialize_to_bytes())

    def report(oracle: str, idx: int, inst: Any, rt: Any, how: str, detail: Any) -> None:
        locs = w.localize(idx, inst, rt) or [("whole", how)]
        for ks, h in sorted(set(locs)):
            chk.violation(
                f"{oracle}:{ks}:{h}",
                f"{oracle}: field of shape {ks} does not survive ({h})",
                {"leg": leg, "type": describe(w, idx), "instance": repr(inst)[:600], "detail": detail},
            )

    http_budget = job["http_streams"]
    directed = directed_cases(w)
    for tno in range(job["types"]):
        preset: list[Any] | None = None
        if tno < len(directed):
            idx, preset = directed[tno]
        else:
            style = rng.choice(["flat", "flat", "general", "general", "general"])
            idx = w.gen_type(rng.choice([0, 1, 2, 3]) if style != "flat" else 0, flat=(style == "flat"))
        ti = w.types[idx]
        cls = ti["cls"]
        unpromised = w.type_promised(idx)
        for fs in w.field_shapes(idx):
            chk.case(f"arrow:{leg}:{fs}", n=0)
        # make sure the schema can be built at all
        try:
            _ = cls.ARROW_SCHEMA
        except Exception as exc:  # noqa: BLE001
            if unpromised:
                chk.skip(f"shape_not_promised:{unpromised[0]}:schema_{type(exc).__name__}")
            else:
                chk.violation(
                    f"arrow_schema_raised:{type(exc).__name__}",
                    f"ARROW_SCHEMA cannot be generated for a documented shape: {str(exc)[:160]}",
                    {"type": describe(w, idx)},
                )
            continue
        all_ok = True
        insts = []
        for ino in range(job["instances"]):
            x = preset[ino % len(preset)] if preset else w.gen_inst(idx)
            insts.append(x)
            # ---- O1 Arrow round trip
            try:
                y = arrow_rt(cls, x)
                ok, how = w.inst_eq(x, y, idx), "mismatch"
            except Exception as exc:  # noqa: BLE001
                y, ok, how = None, False, type(exc).__name__
            if unpromised:
                chk.skip(f"shape_not_promised:{unpromised[0]}:{'ok' if ok else how}")
                all_ok = all_ok and ok
                continue
            chk.case(None)
            chk.hit("arrow_roundtrip_compared")
            if any(f[2] for f in ti["fields"]):
                chk.hit("transient_default_checked")
            if not ok:
                all_ok = False
                report("arrow_roundtrip", idx, x, arrow_rt, how, {"decoded": repr(y)[:600]})
                continue
            # ---- O2 compact codec
            try:
                cb = serialize_compact(x)
            except Exception as exc:  # noqa: BLE001
                chk.violation(f"compact_encode_raised:{type(exc).__name__}", f"serialize_compact raised: {str(exc)[:160]}", {"type": describe(w, idx), "instance": repr(x)[:400]})
                cb = None
            if cb is None:
                chk.hit(f"compact_declined:{leg}")
                if job["msgpack"] and ti["flat"]:
                    chk.violation("compact_declined_flat_class", "serialize_compact declined a flat class of plain scalar fields although msgpack is importable", {"type": describe(w, idx), "instance": repr(x)[:400]})
            else:
                chk.case(None)
                for fs in w.field_shapes(idx):
                    chk.case(f"compact:{fs}", n=0)
                chk.hit("compact_accepted_compared")
                if cb[:1] != b"\x01":
                    chk.violation("compact_marker_missing", "compact payload does not start with COMPACT_MARKER", {"head": cb[:8]})
                try:
                    z = deserialize_compact(cls, cb)
                    okc, howc = w.inst_eq(y, z, idx), "mismatch"
                except Exception as exc:  # noqa: BLE001
                    z, okc, howc = None, False, type(exc).__name__
                if not okc:
                    all_ok = False

                    def compact_rt(c: Any, v: Any) -> Any:
                        b = serialize_compact(v)
                        if b is None:
                            return arrow_rt(c, v)
                        return deserialize_compact(c, b)

                    report("compact_vs_arrow", idx, x, compact_rt, howc, {"arrow": repr(y)[:400], "compact": repr(z)[:400]})
        if unpromised or not all_ok:
            if not unpromised:
                chk.skip("state_legs_skipped_after_instance_failure")
            continue
        # ---- O3 state bytes, single and union forms (same field list, ProducerState base)
        sidx = w.gen_type(0, state=True, fields=[*ti["fields"], ("turn", ("int",), False, "value", 0)])
        scls = w.types[sidx]["cls"]
        others = [w.types[w.gen_type(0, state=True, fields=[(f"o{j}", rng.choice(LEAVES), False, "none", None), ("turn", ("int",), False, "value", 0)])]["cls"] for j in range(rng.choice([1, 2]))]
        for x in insts:
            kw = {f[0]: getattr(x, f[0]) for f in ti["fields"]}
            s = scls(**kw, turn=rng.choice([0, 3, 2**40]))
            pos = rng.randint(0, len(others))
            info_union = tuple([*others[:pos], scls, *others[pos:]])
            for form, info in (("single", scls), ("union", info_union)):
                chk.case(f"state:{form}:{leg}:{'flat' if ti['flat'] else 'general'}")
                try:
                    raw = st._serialize_state_bytes(s, info)
                    rcls, body = st._resolve_state_cls(raw, info)
                    back = st._deserialize_state_bytes(rcls, body, IpcValidation.FULL)
                    oks, hows = rcls is scls and w.inst_eq(s, back, sidx), "mismatch"
                    chk.hit("state_compact_marker_seen" if body[:1] == b"\x01" else "state_arrow_marker_seen")
                    if form == "union" and raw[:1] != b"\x00":
                        oks, hows = False, "untagged_union"
                except Exception as exc:  # noqa: BLE001
                    back, oks, hows = None, False, type(exc).__name__
                chk.hit(f"state_{form}_compared")
                if not oks:
                    chk.violation(
                        f"state_bytes_{form}:{hows}",
                        f"_deserialize_state_bytes(_serialize_state_bytes(x)) != x ({form} form, {hows})",
                        {"leg": leg, "type": describe(w, sidx), "state": repr(s)[:500], "decoded": repr(back)[:500]},
                    )
        # ---- O4 the same state class through real HTTP continuations
        if http_budget > 0:
            http_budget -= 1
            http_leg(chk, w, sidx, leg, rng)
    res = chk.to_result()
    res["msgpack_impl"] = msgpack_impl
    return res


def directed_cases(w: World) -> list[tuple[int, list[Any]]]:
    """A few fixed corner shapes every shard runs first (random generation reaches them only rarely).

    D1: list / optional of a nested dataclass whose own optional nested dataclass (holding an enum) is None in
        *every* element - the struct slot is null and its dictionary-encoded child has no values at all.
    """
    out: list[tuple[int, list[Any]]] = []
    inner = w.gen_type(0, fields=[("e", ("enum", "Color"), False, "none", None), ("s", ("str",), False, "none", None)])
    mid = w.gen_type(1, fields=[("inner", ("opt", ("gdc", inner)), False, "none", None), ("k", ("int",), False, "none", None)])
    outer = w.gen_type(2, fields=[("mids", ("list", ("gdc", mid)), False, "none", None), ("one", ("opt", ("gdc", mid)), False, "none", None)])
    icls, mcls, ocls = (w.types[i]["cls"] for i in (inner, mid, outer))
    red = w.enums["Color"].RED
    out.append(
        (
            outer,
            [
                ocls(mids=[mcls(inner=None, k=1)], one=None),
                ocls(mids=[mcls(inner=None, k=1), mcls(inner=None, k=2)], one=mcls(inner=None, k=3)),
                ocls(mids=[mcls(inner=icls(e=red, s="x"), k=1), mcls(inner=None, k=2)], one=mcls(inner=icls(e=red, s=""), k=0)),
                ocls(mids=[], one=mcls(inner=None, k=0)),
            ],
        )
    )
    # D2: the same null slot reached through map values
    outer2 = w.gen_type(2, fields=[("bykey", ("dict", ("str",), ("gdc", mid)), False, "none", None)])
    o2 = w.types[outer2]["cls"]
    out.append((outer2, [o2(bykey={"a": mcls(inner=None, k=1)}), o2(bykey={}), o2(bykey={"a": mcls(inner=None, k=1), "b": mcls(inner=None, k=2)})]))
    return out


def describe(w: World, idx: int) -> dict[str, Any]:
    ti = w.types[idx]
    out = {"name": ti["cls"].__name__, "frozen": bool(getattr(ti["cls"], "__dataclass_params__").frozen), "fields": []}
    for name, spec, transient, dkind, dval in ti["fields"]:
        out["fields"].append({"name": name, "shape": shape(spec), "transient": transient, "default": dkind if dkind == "none" else repr(dval)[:60]})
    return out


def http_leg(chk: Check, w: World, sidx: int, leg: str, rng: random.Random) -> None:
    """O4: carry a generated state through HTTP producer continuations with the real client."""
    from typing import Protocol

    import pyarrow as pa

    from vgi_rpc.http import http_connect
    from vgi_rpc.http._testing import make_sync_client
    from vgi_rpc.rpc import ProducerState, RpcError, RpcServer, Stream

    ti = w.types[sidx]
    scls = ti["cls"]
    turns = 3

    class Impl:
        def __init__(self) -> None:
            self.seen: list[Any] = []
            self.left: list[Any] = []
            self.turns = turns

        def mutate(self, state: Any) -> None:
            # replace one generated field with a fresh value each turn so every turn carries new content
            cands = [f for f in ti["fields"] if not f[2] and f[0] != "turn"]
            if cands:
                f = rng.choice(cands)
                setattr(state, f[0], w.gen_value(f[1]))

        def gen(self) -> Any:
            kw = {f[0]: w.gen_value(f[1]) for f in ti["fields"] if not f[2] and f[0] != "turn"}
            return Stream(output_schema=pa.schema([pa.field("i", pa.int64())]), state=scls(**kw))

    Impl.gen.__annotations__ = {"return": Stream[scls]}  # type: ignore[valid-type]
    _proto_gen.__annotations__ = {"return": Stream[ProducerState]}
    proto = type("StateSvc", (Protocol,), {"gen": _proto_gen, "__module__": __name__})
    impl = Impl()
    try:
        server = RpcServer(proto, impl)
        client = make_sync_client(server, token_key=b"k" * 32)
        with http_connect(proto, client=client) as proxy:
            got = []
            for ab in proxy.gen():
                got.append(ab.batch.to_pydict())
                if len(got) > turns + 5:  # a state that never advances would produce forever
                    break
    except RpcError as exc:
        chk.violation(
            f"http_state_continuation:{exc.error_type}",
            f"a generated state that round-trips through both codecs fails through HTTP continuations: {exc.error_message[:160]}",
            {"leg": leg, "type": describe(w, sidx)},
        )
        return
    chk.case(f"http_continuation:{leg}:{'flat' if all(s[1][0] in ('int', 'float', 'str', 'bytes', 'bool', 'opt') for s in ti['fields']) else 'general'}")
    if len(impl.seen) < 2:
        chk.skip("http_leg_single_turn")
        return
    if got != [{"i": [k]} for k in range(1, turns + 1)]:
        chk.violation("http_state_continuation:output", "producer output through continuations is not the expected 1..n sequence", {"got": got})
    for k in range(1, len(impl.seen)):
        chk.hit("http_continuation_compared")
        if impl.seen[k] is impl.left[k - 1] or impl.seen[k] is impl.seen[k - 1]:
            chk.skip("http_leg_state_not_reserialized")
        if not w.inst_eq(impl.left[k - 1], impl.seen[k], sidx):
            chk.violation(
                "http_state_continuation:mismatch",
                "the state a continuation resumed from differs from the state the previous turn left",
                {"leg": leg, "type": describe(w, sidx), "left": repr(impl.left[k - 1])[:500], "resumed": repr(impl.seen[k])[:500]},
            )


def _proto_gen(self: Any) -> Any: ...


def main(tier: str, seed: int) -> int:
    chk = Check(PID, tier, seed, level=CATEGORY, rule=RULE)
    chk.require(
        "leg:msgpack",
        "leg:nomsgpack",
        "arrow_roundtrip_compared",
        "transient_default_checked",
        "compact_accepted_compared",
        "compact_declined:nomsgpack",
        "compact_declined:msgpack",
        "state_single_compared",
        "state_union_compared",
        "state_compact_marker_seen",
        "state_arrow_marker_seen",
        "http_continuation_compared",
    )
    chk.assumptions = [
        "the 'with msgpack' leg uses /verif/shims/msgpack (pure Python, written from the MessagePack spec) unless a real msgpack is importable",
        "transient fields are expected to come back as their declared default (documented meaning of Transient)",
        "pyarrow's own IPC / schema serialization is trusted",
    ]
    nsh = shard.ncpu()
    if tier == "quick":
        per_leg, types, instances, http_streams = max(nsh // 2, 3), 120, 6, 20
    else:
        per_leg, types, instances, http_streams = max(nsh, 8), 1300, 8, 120
    jobs = []
    for i in range(per_leg):
        for mp in (True, False):
            jobs.append(
                {
                    "tier": tier,
                    "seed": seed * 1000003 + i * 7919 + (1 if mp else 2),
                    "msgpack": mp,
                    "types": types,
                    "instances": instances,
                    "http_streams": http_streams,
                }
            )
    impls: set[str] = set()
    for res in shard.pmap("checks.c03", "run_shard", jobs, timeout=600 if tier == "quick" else 3000):
        chk.merge(res)
        if res.get("msgpack_impl"):
            impls.add(res["msgpack_impl"])
    chk.extra["msgpack_impl"] = sorted(impls)
    chk.exhaustive["generated_types_and_instances"] = False
    return chk.finish()


def replay(path: str) -> int:
    """Re-execute the recorded (tier, seed) and report whether the recorded mechanism key fires again.

    Generation is a pure function of the seed, so the witness case is regenerated exactly; 1 = fired again,
    2 = diverged (reported as inconclusive / flaky), never 0.
    """
    import json
    import os

    from lib import evidence

    with open(path) as fh:
        rec = json.load(fh)
    main(rec["tier"], int(rec["seed"]))
    with open(os.path.join(evidence.EVIDENCE_DIR, f"{PID}.json")) as fh:
        cov = json.load(fh)["coverage"]
    fired = rec["key"] in cov.get("unlisted_violation_keys", []) or rec["key"] in cov.get("known_findings_seen", [])
    print(f"REPLAY property={PID} key={rec['key']} {'fired again' if fired else 'DIVERGED (inconclusive)'}")
    return 1 if fired else 2

"""C40 - capability headers advertise exactly the configuration.

For every server configuration drawn from a covering array (quick: pairwise +
seeded random rows; thorough: the full product) the real ``make_wsgi_app`` is
built around a small svcgen service and probed through the raw WSGI driver on
every route kind (health OPTIONS/HEAD/GET, unary 200 / in-band error / 400 /
404 / 413 / 415, Falcon-level 400/415, 401, 404 sink, 405, landing page, stream
init/exchange, session DELETE, introspection, upload-url, crashing authenticate
-> 500).  Each response's capability header set is compared with
``lib.models.capabilities.expected_headers`` (written from the spec table);
``http_capabilities`` through ``make_sync_client`` is compared with
``expected_probe``.
"""

from __future__ import annotations

import itertools
import os
import random
from typing import Any

from lib import shard
from lib.evidence import Check

PID = "C40"
ENGINE = "E1-svcgen-rig+E2-raw-drivers+E5-models"
TECHNIQUE = "request-space map: observed capability header set per response vs. spec-table model, per configuration"
LEVEL_TEXT = (
    "Exploration: for each configuration of a pairwise-covering array plus seeded random rows (quick) or the full "
    "product of the listed settings (thorough) the real WSGI app is built and every route kind is probed; the "
    "capability header set of every response (2xx, 4xx, 401, 404 sink, 405, 5xx, OPTIONS/HEAD/GET health) and the "
    "client probe's read-back are compared with a model written from the spec table. Held means no mismatch among "
    "the responses counted in the evidence."
)
LEVEL_NOTE = (
    "falcon and the raw WSGI driver trusted; CORS-preflight responses included; sticky TTLs are integral seconds "
    "(the header type is 'Integer seconds', a fractional TTL has no specified rendering)"
)
CATEGORY = "exploration"
RULE = (
    "case = (configuration row, probe); configuration factors: max_request_bytes, max_response_bytes, "
    "max_externalized_response_bytes, storage, upload provider, max_upload_bytes, compression (off/l1/l3/zstd-disabled), "
    "sticky (off/on/ttl/echo names), proof-required, introspection, auth (none/reject/accept/crash), prefix, 404 page, "
    "CORS; distinct class = (probe kind, status, header-set shape)"
)

FACTORS: dict[str, list[Any]] = {
    "max_request_bytes": [None, 100_000],
    "max_response_bytes": [None, 65_536],
    "max_externalized_response_bytes": [None, 1 << 20],
    "storage": [False, True],
    "upload_provider": [False, True],
    "max_upload_bytes": [None, 5_000_000],
    "compression": ["off", "l1", "l3", "nozstd"],
    "sticky": ["off", "on", "ttl60", "echo1", "echo2", "echo_empty"],
    "proof_required": [False, True],
    "introspection": [False, True],
    "auth": ["none", "reject", "accept", "crash"],
    "prefix": ["", "/vgi"],
    "not_found_page": [True, False],
    "cors": [None, "*"],
}

PROGRAM: dict[str, Any] = {
    "name": "CapSvc",
    "methods": [
        {"name": "echo", "kind": "unary", "params": [("s", ("str",))], "ret": ("str",), "u": {"logs": [], "act": ("echo", "s")}},
        {"name": "boom", "kind": "unary", "params": [("n", ("int",))], "ret": ("int",), "u": {"logs": [], "act": ("raise", "ValueError", "bad")}},
        {
            "name": "prod",
            "kind": "producer",
            "params": [("n", ("int",))],
            "header": False,
            "out_cols": ["i"],
            "init": {"logs": [], "act": ("ok",)},
            "steps": [{"logs": [], "act": "emit", "rows": 2}, {"logs": [], "act": "emit", "rows": 1}, {"logs": [], "act": "finish"}],
        },
    ],
    "calls": [],
}


# ---------------------------------------------------------------------------
# configuration rows
# ---------------------------------------------------------------------------


def pairwise_rows(factors: dict[str, list[Any]], rng: random.Random) -> list[dict[str, Any]]:
    """Greedy pairwise-covering array (every pair of factor values appears in some row)."""
    names = list(factors)
    uncovered: set[tuple[int, int, int, int]] = set()
    for i, j in itertools.combinations(range(len(names)), 2):
        for a in range(len(factors[names[i]])):
            for b in range(len(factors[names[j]])):
                uncovered.add((i, a, j, b))
    rows: list[dict[str, Any]] = []
    while uncovered:
        best: list[int] | None = None
        best_gain = -1
        pool = sorted(uncovered)
        for _ in range(40):
            cand = [rng.randrange(len(factors[n])) for n in names]
            # seed the candidate with one uncovered pair so progress is guaranteed
            i, a, j, b = rng.choice(pool)
            cand[i], cand[j] = a, b
            gain = sum(1 for (p, q) in itertools.combinations(range(len(names)), 2) if (p, cand[p], q, cand[q]) in uncovered)
            if gain > best_gain:
                best, best_gain = cand, gain
        assert best is not None
        for p, q in itertools.combinations(range(len(names)), 2):
            uncovered.discard((p, best[p], q, best[q]))
        rows.append({n: factors[n][best[k]] for k, n in enumerate(names)})
    return rows


def all_pairs_covered(rows: list[dict[str, Any]], factors: dict[str, list[Any]]) -> bool:
    names = list(factors)
    for i, j in itertools.combinations(names, 2):
        need = {(repr(a), repr(b)) for a in factors[i] for b in factors[j]}
        have = {(repr(r[i]), repr(r[j])) for r in rows}
        if need - have:
            return False
    return True


def product_rows(factors: dict[str, list[Any]]) -> list[dict[str, Any]]:
    names = list(factors)
    return [dict(zip(names, vals, strict=True)) for vals in itertools.product(*(factors[n] for n in names))]


# ---------------------------------------------------------------------------
# building an app from a row
# ---------------------------------------------------------------------------

STICKY = {
    "off": (False, 300.0, None),
    "on": (True, 300.0, None),
    "ttl60": (True, 60, None),
    "echo1": (True, 300.0, {"fly-force-instance-id": "m1"}),
    "echo2": (True, 120.0, {"x-route": "a", "X-Shard": "7"}),
    "echo_empty": (True, 300.0, {}),
}


def model_cfg(row: dict[str, Any]) -> dict[str, Any]:
    """Translate a configuration row into the model's vocabulary (what the operator configured)."""
    sticky, ttl, echo = STICKY[row["sticky"]]
    enc = {"off": (), "l1": ("zstd", "gzip"), "l3": ("zstd", "gzip"), "nozstd": ("gzip",)}[row["compression"]]
    return {
        "max_request_bytes": row["max_request_bytes"],
        "max_response_bytes": row["max_response_bytes"],
        "max_externalized_response_bytes": row["max_externalized_response_bytes"],
        "storage": row["storage"],
        "upload_provider": row["upload_provider"],
        "max_upload_bytes": row["max_upload_bytes"],
        "encodings": enc,
        "sticky": sticky,
        "sticky_ttl": ttl,
        "sticky_echo": tuple(echo) if echo else (),
        "proof_required": row["proof_required"],
        "introspection": row["introspection"],
    }


class _Storage:
    def upload(self, data: bytes, schema: Any, *, content_encoding: str | None = None) -> str:
        return "https://storage.invalid/obj"


class _Provider:
    def generate_upload_url(self, schema: Any) -> Any:
        import datetime as dt

        from vgi_rpc.external import UploadUrl

        return UploadUrl("https://storage.invalid/put", "https://storage.invalid/get", dt.datetime(2030, 1, 1, tzinfo=dt.UTC))


def app_kwargs(row: dict[str, Any]) -> dict[str, Any]:
    from vgi_rpc.rpc import AuthContext

    sticky, ttl, echo = STICKY[row["sticky"]]
    kw: dict[str, Any] = {
        "prefix": row["prefix"],
        "token_key": b"k" * 32,
        "max_request_bytes": row["max_request_bytes"],
        "max_response_bytes": row["max_response_bytes"],
        "max_externalized_response_bytes": row["max_externalized_response_bytes"],
        "max_upload_bytes": row["max_upload_bytes"],
        "compression_level": {"off": None, "l1": 1, "l3": 3, "nozstd": 1}[row["compression"]],
        "proxy_proof_required": row["proof_required"],
        "enable_not_found_page": row["not_found_page"],
        "enable_sticky": sticky,
        "sticky_default_ttl": ttl,
        "sticky_echo_headers": echo,
    }
    if row["cors"] is not None:
        kw["cors_origins"] = row["cors"]
    if row["upload_provider"]:
        kw["upload_url_provider"] = _Provider()
    if row["introspection"]:
        kw["introspect_resolver"] = lambda cred: None
        kw["introspect_principals"] = ["proxy"]

    def reject(req: Any) -> Any:
        raise ValueError("no credentials accepted")

    def accept(req: Any) -> Any:
        if req.get_header("Authorization") != "Bearer good":
            raise ValueError("bad credentials")
        return AuthContext(domain="test", authenticated=True, principal="alice")

    def crash(req: Any) -> Any:
        raise RuntimeError("authenticate callback bug")

    if row["auth"] != "none":
        kw["authenticate"] = {"reject": reject, "accept": accept, "crash": crash}[row["auth"]]
    return kw


def build(row: dict[str, Any]) -> tuple[Any, Any, Any, dict[str, Any]]:
    import warnings

    from lib import svcgen
    from vgi_rpc.external import ServerExternalConfig
    from vgi_rpc.http import make_wsgi_app
    from vgi_rpc.rpc import RpcServer

    proto, impl = svcgen.build(PROGRAM)
    ext = ServerExternalConfig(storage=_Storage()) if row["storage"] else None
    server = RpcServer(proto, impl, external_location=ext)
    kw = app_kwargs(row)
    old = os.environ.get("VGI_HTTP_DISABLE_ZSTD")
    try:
        if row["compression"] == "nozstd":
            os.environ["VGI_HTTP_DISABLE_ZSTD"] = "1"
        else:
            os.environ.pop("VGI_HTTP_DISABLE_ZSTD", None)
        with warnings.catch_warnings():
            warnings.simplefilter("ignore")
            app = make_wsgi_app(server, **kw)
    finally:
        if old is None:
            os.environ.pop("VGI_HTTP_DISABLE_ZSTD", None)
        else:
            os.environ["VGI_HTTP_DISABLE_ZSTD"] = old
    return app, server, impl, kw


# ---------------------------------------------------------------------------
# probes
# ---------------------------------------------------------------------------


def probes(row: dict[str, Any], server: Any) -> list[tuple[str, str, str, dict[str, str], bytes]]:
    """(kind, verb, path, headers, body) for every route kind."""
    from lib import httpdrv

    p = row["prefix"]
    ct = {"Content-Type": httpdrv.ARROW_CT}
    auth = {"Authorization": "Bearer good"} if row["auth"] == "accept" else {}
    m = server.methods
    echo = httpdrv.request_body("echo", m["echo"].params_schema, {"s": "hello"})
    boom = httpdrv.request_body("boom", m["boom"].params_schema, {"n": 1})
    prod = httpdrv.request_body("prod", m["prod"].params_schema, {"n": 1})
    out = [
        ("health_options", "OPTIONS", f"{p}/health", {}, b""),
        ("health_head", "HEAD", f"{p}/health", {}, b""),
        ("health_get", "GET", f"{p}/health", {}, b""),
        ("unary_ok", "POST", f"{p}/echo", {**ct, **auth}, echo),
        ("unary_ok_zstd_resp", "POST", f"{p}/echo", {**ct, **auth, "Accept-Encoding": "zstd, gzip"}, echo),
        ("unary_method_error", "POST", f"{p}/boom", {**ct, **auth}, boom),
        ("unary_bad_ipc", "POST", f"{p}/echo", {**ct, **auth}, b"not arrow at all"),
        ("unary_unknown_method", "POST", f"{p}/nosuch", {**ct, **auth}, echo),
        ("unary_wrong_ct", "POST", f"{p}/echo", {"Content-Type": "application/json", **auth}, echo),
        ("unary_unknown_coding", "POST", f"{p}/echo", {**ct, **auth, "Content-Encoding": "br"}, echo),
        ("unary_corrupt_gzip", "POST", f"{p}/echo", {**ct, **auth, "Content-Encoding": "gzip"}, b"\x1f\x8b\x08garbage"),
        ("unary_oversize", "POST", f"{p}/echo", {**ct, **auth}, echo + b"\x00" * 120_000),
        ("unauthenticated", "POST", f"{p}/echo", dict(ct), echo),
        ("not_found_deep", "GET", f"{p}/no/such/deep/path", dict(auth), b""),
        ("landing", "GET", p or "/", dict(auth), b""),
        ("session_delete", "DELETE", f"{p}/__session__", dict(auth), b""),
        ("introspect", "POST", f"{p}/__introspect_token__", {"Content-Type": "application/json", **auth}, b'{"credential":"x"}'),
        ("method_not_allowed", "PUT", f"{p}/echo", {**ct, **auth}, echo),
        ("stream_init", "POST", f"{p}/prod/init", {**ct, **auth}, prod),
        ("stream_exchange_bad", "POST", f"{p}/prod/exchange", {**ct, **auth}, echo),
        ("upload_url", "POST", f"{p}/__upload_url__/init", {**ct, **auth}, httpdrv.request_body("__upload_url__", __import__("pyarrow").schema([]), None)),
        ("options_rpc", "OPTIONS", f"{p}/echo", {"Origin": "https://app.example", "Access-Control-Request-Method": "POST"}, b""),
        ("well_known", "GET", "/.well-known/oauth-protected-resource", {}, b""),
    ]
    return out


def status_class(status: int) -> str:
    if status == 401:
        return "401"
    return f"{status // 100}xx"


def run_shard(job: dict[str, Any]) -> dict[str, Any]:
    import warnings

    from lib import httpdrv
    from lib.models import capabilities as capm

    chk = Check(PID, job["tier"], job["seed"])
    rows: list[dict[str, Any]] = job["rows"]
    for row in rows:
        cfg = model_cfg(row)
        expected = capm.expected_headers(cfg)
        shape = ",".join(sorted(h.replace("VGI-", "") for h in expected))
        try:
            app, server, impl, kw = build(row)
        except Exception as exc:  # noqa: BLE001 - a legal configuration must build
            chk.violation(
                f"app_build_failed:{type(exc).__name__}",
                f"make_wsgi_app raised {type(exc).__name__}: {str(exc)[:160]} for a legal configuration",
                {"row": row},
            )
            continue
        cont_token: dict[bytes, bytes] | None = None
        plist = probes(row, server)
        for kind, verb, path, headers, body in plist:
            r = httpdrv.call(app, verb, path, headers, body)
            if r.exc is not None:
                chk.violation(
                    f"wsgi_app_raised:{kind}:{type(r.exc).__name__}",
                    "the WSGI callable raised instead of answering",
                    {"row": row, "probe": kind, "exc": repr(r.exc)},
                )
                continue
            observed: dict[str, list[str]] = {}
            for k, v in r.headers:
                observed.setdefault(k.lower(), []).append(v)
            sc = status_class(r.status)
            chk.case(f"{kind}:{r.status}:{shape}")
            chk.hit("headers_compared")
            chk.hit(f"resp_{sc}")
            if kind.startswith("health_"):
                chk.hit("resp_health")
            if kind == "not_found_deep":
                chk.hit("resp_404_sink")
            d = capm.diff(expected, observed)
            if d:
                missing = [x for x in d if x[0] == "missing"]
                if len(missing) == len(expected) and len(d) == len(missing):
                    chk.violation(
                        f"all_capability_headers_missing:{sc}",
                        f"a {sc} response carries none of the configured capability headers",
                        {"row": row, "probe": kind, "status": r.status, "expected": expected},
                    )
                else:
                    for dk, name, exp, got in d:
                        chk.violation(
                            f"{dk}:{name}",
                            f"capability header {name}: {dk} (expected {exp!r}, observed {got!r})",
                            {"row": row, "probe": kind, "status": r.status, "expected": exp, "observed": got},
                        )
            # continuation token for a second, valid exchange probe
            if kind == "stream_init" and r.status == 200:
                try:
                    for st in httpdrv.parse_ipc_multi(r.decoded_body()):
                        for _b, md in st:
                            if "vgi_rpc.stream_state#b64" in md:
                                cont_token = {
                                    b"vgi_rpc.stream_state#b64": md["vgi_rpc.stream_state#b64"],
                                    b"vgi_rpc.call_state#b64": md.get("vgi_rpc.call_state#b64", b""),
                                }
                except Exception:  # noqa: BLE001 - judged by C15, not here
                    cont_token = None
        if cont_token is not None:
            import pyarrow as pa

            tick = httpdrv.ipc_bytes(pa.RecordBatch.from_pydict({}, schema=pa.schema([])), cont_token)
            auth = {"Authorization": "Bearer good"} if row["auth"] == "accept" else {}
            r = httpdrv.call(app, "POST", f"{row['prefix']}/prod/exchange", {"Content-Type": httpdrv.ARROW_CT, **auth}, tick)
            observed = {}
            for k, v in r.headers:
                observed.setdefault(k.lower(), []).append(v)
            chk.case(f"stream_exchange_ok:{r.status}:{shape}")
            chk.hit("headers_compared")
            chk.hit(f"resp_{status_class(r.status)}")
            for dk, name, exp, got in capm.diff(expected, observed):
                chk.violation(
                    f"{dk}:{name}",
                    f"capability header {name}: {dk} (expected {exp!r}, observed {got!r})",
                    {"row": row, "probe": "stream_exchange_ok", "status": r.status, "expected": exp, "observed": got},
                )

        # client probe read-back -------------------------------------------------
        if job.get("probe", True) and row.get("_probe", True):
            from vgi_rpc.http import http_capabilities
            from vgi_rpc.http._testing import make_sync_client

            old = os.environ.get("VGI_HTTP_DISABLE_ZSTD")
            try:
                if row["compression"] == "nozstd":
                    os.environ["VGI_HTTP_DISABLE_ZSTD"] = "1"
                else:
                    os.environ.pop("VGI_HTTP_DISABLE_ZSTD", None)
                with warnings.catch_warnings():
                    warnings.simplefilter("ignore")
                    client = make_sync_client(server, **{k: v for k, v in kw.items() if k != "cors_origins"})
            finally:
                if old is None:
                    os.environ.pop("VGI_HTTP_DISABLE_ZSTD", None)
                else:
                    os.environ["VGI_HTTP_DISABLE_ZSTD"] = old
            try:
                caps = http_capabilities(client=client)
            except Exception as exc:  # noqa: BLE001
                chk.violation(
                    f"probe_raised:{type(exc).__name__}",
                    f"http_capabilities raised {type(exc).__name__}: {str(exc)[:160]}",
                    {"row": row},
                )
                continue
            want = capm.expected_probe(cfg)
            # HttpServerCapabilities has no attribute for these two advertised settings: nothing to compare, counted
            for flag, fld in (("proof_required", "proxy_proof_required"), ("introspection", "token_introspection")):
                if cfg.get(flag) and not hasattr(caps, fld):
                    chk.skip(f"probe_has_no_field:{fld}")
            chk.case(f"client_probe:{shape}")
            chk.hit("probe_compared")
            for fld, exp in want.items():
                got = getattr(caps, fld, "<no such field>")
                if fld == "supported_encodings":
                    got = tuple(getattr(e, "value", e) for e in got)
                if got != exp:
                    chk.violation(
                        f"probe_mismatch:{fld}",
                        f"http_capabilities().{fld} does not read the configuration back (expected {exp!r}, got {got!r})",
                        {"row": row, "expected": exp, "got": got},
                    )
        if chk.rng.random() < 0.02:
            chk.sample({"row": row, "expected_headers": expected})
    return chk.to_result()


def main(tier: str, seed: int) -> int:
    chk = Check(PID, tier, seed, level=CATEGORY, rule=RULE)
    chk.require("headers_compared", "probe_compared", "resp_2xx", "resp_4xx", "resp_401", "resp_404_sink", "resp_health", "resp_5xx")
    chk.assumptions = [
        "falcon, pyarrow and the raw WSGI driver are trusted",
        "the model is the capability table of docs/WIRE_PROTOCOL.md section 10",
        "sticky TTL values are integral (rendering of fractional seconds is unspecified)",
    ]
    rng = random.Random(f"{PID}:{seed}")
    nsh = shard.ncpu()
    if tier == "quick":
        rows = pairwise_rows(FACTORS, rng)
        chk.extra["pairwise_rows"] = len(rows)
        chk.extra["pairwise_complete"] = all_pairs_covered(rows, FACTORS)
        if not chk.extra["pairwise_complete"]:
            chk.inconclusive_because("pairwise array does not cover all pairs")
        names = list(FACTORS)
        for _ in range(420):
            rows.append({n: rng.choice(FACTORS[n]) for n in names})
        chk.exhaustive["pairwise_of_factor_values"] = True
        chk.exhaustive["full_product"] = False
    else:
        # full product of the settings named by the property's quantifier; the probing-environment factors
        # (auth, prefix, 404 page, CORS) are rotated over it so that every environment combination is used
        # equally often (two environments per configuration)
        env_names = ["auth", "prefix", "not_found_page", "cors"]
        cfg_factors = {k: v for k, v in FACTORS.items() if k not in env_names}
        envs = product_rows({k: FACTORS[k] for k in env_names})
        rng.shuffle(envs)
        rows = []
        for n, base in enumerate(product_rows(cfg_factors)):
            for k in range(2):
                # the client probe does not depend on the probing environment: once per configuration
                rows.append({**base, **envs[(2 * n + k) % len(envs)], "_probe": k == 0})
        rng.shuffle(rows)
        chk.exhaustive["full_product_of_quantified_settings"] = True
        chk.exhaustive["environment_factors(auth,prefix,404page,cors)_per_configuration"] = False
    chk.extra["configurations"] = len(rows)
    jobs = []
    parts = shard.split(rows, nsh * (1 if tier == "quick" else 4))
    for i, part in enumerate(parts):
        jobs.append({"tier": tier, "seed": seed * 1000 + i, "rows": part, "probe": True})
    for res in shard.pmap("checks.c40", "run_shard", jobs, timeout=300 if tier == "quick" else 3000):
        chk.merge(res)
    return chk.finish()

"""C10 - stream lifecycle: finish, exchange cardinality, input coercion, header, cancel.

Every producer step script up to length 6 (the alphabet has one non-terminal act, so
the 31 shapes are enumerated exhaustively) and a grid of exchange scripts are run on
the real code over pipe, unix socketpair and the HTTP app (several max_response_bytes)
with every take/close/cancel point and every input-schema perturbation.  Three
observation channels are judged against the reference model in lib/models/streams.py:

* the client trace (header, batches, end / error, behaviour after cancel),
* the scripted implementation's invocation log (process()/on_cancel calls, the schema
  and values the state really saw),
* the wire: every byte the socket server wrote (Tee) / every HTTP turn body (RecClient),
  decomposed into IPC streams - header streams and data batches are counted there.
"""

from __future__ import annotations

import random
from typing import Any

from lib import shard
from lib.evidence import Check

PID = "C10"
ENGINE = "E1-svcgen-rig+E2-raw-drivers+E5-models"
TECHNIQUE = "generated step scripts on real transports; client trace + server invocation log + wire decomposition vs. reference lifecycle model"
LEVEL_TEXT = (
    "Exploration: all 31 producer step-script shapes up to length 6 x every take/close/cancel point, and a grid of "
    "exchange scripts x input counts x 7 input-schema perturbations x positions, executed on the real client and server "
    "over pipe, unix socketpair, shm-pipe (pointer batches) and in-process HTTP (4 cap settings); randomised row counts, padding, metadata, logs, "
    "header and column sets. Held means no execution among those listed in the evidence contradicted the lifecycle model."
)
LEVEL_NOTE = "scripted implementation (lib/svcgen) and pyarrow trusted; HTTP driven in-process through the WSGI callable"
CATEGORY = "exploration"
RULE = (
    "case = (kind, transport cfg, script shape, operation); producer shapes: emit^k followed by one of "
    "{nothing more, finish, emit+finish, raise, no-emit} for k<=6 (exhaustive); operations: iterate to end, or take j "
    "batches then close / cancel for every j; exchange: script x #inputs x end-op x (perturbation kind, position); "
    "distinct class = (kind, transport, shape, op shape, perturbation); variants (rows, pad, meta, logs, header, columns) are seeded"
)

COLSETS = [["i"], ["i", "s"], ["s", "f", "i"], [], ["b"], ["i", "n"]]
XCOLSETS = [["i"], ["i", "s"], ["s", "f", "i"], ["b", "n"], ["i", "n"]]
# "shm": pipe with the shared-memory side channel; the shard lowers the routing threshold to one byte so that the
# small batches of this workload travel as pointer batches (as batches >= 128 KiB do by default)
SOCK_CFGS = [{"kind": "pipe"}, {"kind": "unix"}, {"kind": "shm", "shm_size": 1 << 20}]
HTTP_P_CFGS = [
    {"kind": "http", "tag": "http_nocap"},
    {"kind": "http", "tag": "http_cap1", "app_kwargs": {"max_response_bytes": 1}},
    {"kind": "http", "tag": "http_cap_mid", "app_kwargs": {"max_response_bytes": 900}},
    {"kind": "http", "tag": "http_cap_big", "app_kwargs": {"max_response_bytes": 10_000_000}},
]
HTTP_X_CFGS = [
    {"kind": "http", "tag": "http_nocap"},
    {"kind": "http", "tag": "http_cap_big", "app_kwargs": {"max_response_bytes": 10_000_000}},
]
TERMINATORS = [None, "finish", "emit_finish", "raise", "nothing"]
EXC = [("ValueError", "boom"), ("RuntimeError", "bad state"), ("UserBoom", "user level")]


def _tag(cfg: dict[str, Any]) -> str:
    return cfg.get("tag", cfg["kind"])


# ---------------------------------------------------------------------------
# case generation
# ---------------------------------------------------------------------------


def _shape_name(k: int, term: str | None) -> str:
    return f"e{k}" + {None: "", "finish": "+fin", "emit_finish": "+emitfin", "raise": "+raise", "nothing": "+noemit"}[term]


def _producer_method(rng: random.Random, k: int, term: str | None, plain: bool) -> dict[str, Any]:
    from lib import svcgen

    cols = ["i", "s"] if plain else rng.choice(COLSETS)
    steps: list[dict[str, Any]] = []

    def emit_step(act: str) -> dict[str, Any]:
        st: dict[str, Any] = {"logs": [] if plain else svcgen.gen_logs(rng, 2), "act": act}
        st["rows"] = 1 if plain else rng.choice([0, 1, 1, 2, 5])
        st["pad"] = 0 if plain else rng.choice([0, 0, 50, 400])
        if not plain and rng.random() < 0.3:
            st["meta"] = {rng.choice(["k", "app.key"]): rng.choice(["v", "", "x" * 40])}
        return st

    for _ in range(k):
        steps.append(emit_step("emit"))
    if term == "finish":
        steps.append({"logs": [] if plain else svcgen.gen_logs(rng, 2), "act": "finish"})
    elif term == "emit_finish":
        steps.append(emit_step("emit_finish"))
    elif term == "raise":
        steps.append({"logs": [], "act": "raise", "exc": rng.choice(EXC)})
    elif term == "nothing":
        steps.append({"logs": [], "act": "nothing"})
    return {
        "name": "p",
        "kind": "producer",
        "params": [],
        "header": (not plain) and rng.random() < 0.5,
        "out_cols": cols,
        "init": {"logs": [] if plain else svcgen.gen_logs(rng, 2), "act": ("ok",)},
        "steps": steps,
    }


def _producer_ops(nb: int) -> list[dict[str, Any]]:
    ops: list[dict[str, Any]] = [{"take": None, "end": None}, {"take": None, "end": "cancel"}]
    for j in range(0, nb + 2):
        ops.append({"take": j, "end": "close"})
        ops.append({"take": j, "end": "cancel"})
    return ops


X_SCRIPTS: list[tuple[str, list[str]]] = [
    ("emit*", ["emit"]),
    ("emit,emit,raise", ["emit", "emit", "raise"]),
    ("raise", ["raise"]),
    ("noemit", ["nothing"]),
    ("emit,noemit", ["emit", "nothing"]),
    ("finish", ["finish"]),
    ("emitfin", ["emit_finish"]),
    ("emit,finish", ["emit", "finish"]),
    ("emit*5,raise", ["emit"] * 5 + ["raise"]),
    ("emit*3,emitfin", ["emit"] * 3 + ["emit_finish"]),
]


def _exchange_method(rng: random.Random, acts: list[str], plain: bool) -> dict[str, Any]:
    from lib import svcgen

    cols = ["i", "s"] if plain else rng.choice(XCOLSETS)
    steps = []
    for a in acts:
        st: dict[str, Any] = {"logs": [] if plain else svcgen.gen_logs(rng, 2), "act": a}
        if a == "raise":
            st["exc"] = rng.choice(EXC)
        if a in ("emit", "emit_finish") and not plain and rng.random() < 0.3:
            st["meta"] = {"k": rng.choice(["v", "w"])}
        steps.append(st)
    return {
        "name": "x",
        "kind": "exchange",
        "params": [],
        "header": (not plain) and rng.random() < 0.5,
        "out_cols": cols,
        "in_cols": cols,
        "init": {"logs": [] if plain else svcgen.gen_logs(rng, 2), "act": ("ok",)},
        "steps": steps,
    }


def _exchange_ops(rng: random.Random, acts: list[str], tier: str) -> list[dict[str, Any]]:
    from lib.models import streams

    ops: list[dict[str, Any]] = []
    counts = [0, 1, 2, 3, 6] if tier == "quick" else [0, 1, 2, 3, 4, 5, 6]
    for n in counts:
        for end in ("close", "cancel"):
            ops.append({"n": n, "rows": [rng.choice([0, 1, 2, 3]) for _ in range(n)], "perturb": None, "end": end})
    if all(a == "emit" for a in acts):
        for kind in streams.COERCIBLE + streams.REJECTED:
            for idx in (0, 1, 2):
                ops.append({"n": 3, "rows": [rng.choice([1, 2, 3]) for _ in range(3)], "perturb": [kind, idx], "end": rng.choice(["close", "cancel"])})
    return ops


def _jobs(tier: str, seed: int) -> list[dict[str, Any]]:
    """Connection-level jobs: one (method, transport cfg, op list) each."""
    rng = random.Random(f"C10:{seed}")
    jobs: list[dict[str, Any]] = []
    nvar = 2 if tier == "quick" else 14
    for k in range(0, 7):
        for term in TERMINATORS:
            if k == 6 and term is not None:
                continue  # scripts are bounded at length 6
            for v in range(nvar + 1):
                m = _producer_method(rng, k, term, plain=(v == 0))
                nb = k + (1 if term == "emit_finish" else 0)
                ops = _producer_ops(nb)
                for cfg in SOCK_CFGS + HTTP_P_CFGS:
                    jobs.append({"kind": "producer", "shape": _shape_name(k, term), "m": m, "cfg": cfg, "ops": ops})
    xvar = 1 if tier == "quick" else 8
    for name, acts in X_SCRIPTS:
        for v in range(xvar + 1):
            m = _exchange_method(rng, acts, plain=(v == 0))
            ops = _exchange_ops(rng, acts, tier)
            for cfg in SOCK_CFGS + HTTP_X_CFGS:
                jobs.append({"kind": "exchange", "shape": name, "m": m, "cfg": cfg, "ops": ops})
    return jobs


# ---------------------------------------------------------------------------
# drivers
# ---------------------------------------------------------------------------


def _probe(fn: Any) -> str:
    from vgi_rpc.rpc import RpcError

    try:
        fn()
    except StopIteration:
        return "ended"
    except RpcError:
        return "refused"
    except Exception as exc:  # noqa: BLE001 - any exception is a refusal, recorded by type
        return f"refused_other:{type(exc).__name__}"
    return "data"


def _drive_producer(proxy: Any, m: dict[str, Any], op: dict[str, Any], impl: Any) -> dict[str, Any]:
    from lib.models import streams
    from vgi_rpc.rpc import RpcError

    ev: list[list[Any]] = []
    res: dict[str, Any] = {"ev": ev, "probes": {}, "cancel_raised": None}
    try:
        sess = getattr(proxy, m["name"])()
    except RpcError as e:
        ev.append(["error", e.error_type, e.error_message])
        return res
    h = getattr(sess, "header", None)
    ev.append(["header", None if h is None else {"label": h.label, "n": h.n}])
    it = iter(sess)
    take = op["take"]
    n = 0
    terminal = False
    try:
        while take is None or n < take:
            try:
                ab = next(it)
            except StopIteration:
                ev.append(["end"])
                terminal = True
                break
            ev.append(["batch", streams.norm_rb(ab.batch, ab.custom_metadata)])
            ab.release()
            n += 1
            if n > 40:  # scripts have <= 6 steps
                ev.append(["runaway"])
                terminal = True
                break
    except RpcError as e:
        ev.append(["error", e.error_type, e.error_message])
        terminal = True
    if op["end"] == "cancel":
        res["inv_before_cancel"] = len(impl.inv)
        try:
            sess.cancel()
            sess.cancel()  # idempotent by contract; the hook must still run at most once
            if not terminal:
                ev.append(["cancelled"])
        except Exception as exc:  # noqa: BLE001
            res["cancel_raised"] = f"{type(exc).__name__}: {exc}"
        res["inv_before_probes"] = len(impl.inv)
        if not terminal:
            res["probes"]["iter"] = _probe(lambda: next(it))
            res["probes"]["new_iter"] = _probe(lambda: next(iter(sess)))
            if hasattr(sess, "tick"):
                res["probes"]["tick"] = _probe(sess.tick)
    elif op["end"] == "close":
        try:
            sess.close()
            if not terminal:
                ev.append(["closed"])
        except Exception as exc:  # noqa: BLE001
            res["cancel_raised"] = f"close {type(exc).__name__}: {exc}"
    return res


def _drive_exchange(proxy: Any, m: dict[str, Any], op: dict[str, Any], impl: Any) -> dict[str, Any]:
    from lib import svcgen
    from lib.models import streams
    from vgi_rpc.rpc import AnnotatedBatch, RpcError

    ev: list[list[Any]] = []
    res: dict[str, Any] = {"ev": ev, "probes": {}, "cancel_raised": None, "sent": []}
    try:
        sess = getattr(proxy, m["name"])()
    except RpcError as e:
        ev.append(["error", e.error_type, e.error_message])
        return res
    h = getattr(sess, "header", None)
    ev.append(["header", None if h is None else {"label": h.label, "n": h.n}])
    terminal = False
    # socket transports carry all inputs of a call in ONE IPC stream whose schema is fixed by the
    # first batch, so there a perturbation necessarily applies to every input of the call
    one_input_stream = hasattr(sess, "tick")
    for k in range(op["n"]):
        data = svcgen.make_rows("in", k, op["rows"][k], m["in_cols"])
        kind = "none"
        if op["perturb"] is not None and (op["perturb"][1] == k or one_input_stream):
            kind = op["perturb"][0]
        rb = streams.perturb_input(kind, m["in_cols"], data)
        if rb is None:
            kind = "none"
            rb = streams.perturb_input("none", m["in_cols"], data)
        res["sent"].append({"k": k, "kind": kind, "data": data})
        try:
            ab = sess.exchange(AnnotatedBatch(batch=rb))
        except RpcError as e:
            ev.append(["error", e.error_type, e.error_message])
            terminal = True
            break
        except StopIteration:
            ev.append(["end"])
            terminal = True
            break
        ev.append(["batch", streams.norm_rb(ab.batch, ab.custom_metadata)])
        ab.release()
    valid = streams.perturb_input("none", m["in_cols"], svcgen.make_rows("in", 99, 1, m["in_cols"]))
    if op["end"] == "cancel":
        res["inv_before_cancel"] = len(impl.inv)
        try:
            sess.cancel()
            sess.cancel()
            if not terminal:
                ev.append(["cancelled"])
        except Exception as exc:  # noqa: BLE001
            res["cancel_raised"] = f"{type(exc).__name__}: {exc}"
        res["inv_before_probes"] = len(impl.inv)
        if not terminal:
            res["probes"]["exchange"] = _probe(lambda: sess.exchange(AnnotatedBatch(batch=valid)))
    else:
        try:
            sess.close()
            if not terminal:
                ev.append(["closed"])
        except Exception as exc:  # noqa: BLE001
            res["cancel_raised"] = f"close {type(exc).__name__}: {exc}"
    return res


# ---------------------------------------------------------------------------
# expectations
# ---------------------------------------------------------------------------


def _expected_producer(m: dict[str, Any], op: dict[str, Any]) -> list[list[Any]]:
    from lib.models import streams

    full = streams.model_producer(m)
    hdr = ["header", {"label": m["name"], "n": len(m["steps"])} if m.get("header") else None]
    if op["take"] is None:
        return [hdr, *full]
    out: list[list[Any]] = [hdr]
    n = 0
    for e in full:
        if n >= op["take"]:
            break
        out.append(e)
        if e[0] == "batch":
            n += 1
        else:
            return out  # terminal event reached while still wanting batches
    if n >= op["take"]:
        out.append(["cancelled"] if op["end"] == "cancel" else ["closed"])
    return out


def _expected_exchange(m: dict[str, Any], op: dict[str, Any], sent: list[dict[str, Any]]) -> tuple[list[list[Any]], list[dict[str, Any]]]:
    """(client events, inputs the state must have seen in order)."""
    from lib.models import streams

    out: list[list[Any]] = [["header", {"label": m["name"], "n": len(m["steps"])} if m.get("header") else None]]
    seen: list[dict[str, Any]] = []
    k_accepted = 0
    for s in sent:
        if s["kind"] in streams.REJECTED:
            out.append(["error", None, None])  # rejected; the statement fixes neither type nor text
            return out, seen
        e = streams.model_exchange_step(m, k_accepted, s["data"])
        seen.append(s)
        k_accepted += 1
        out.append(e)
        if e[0] != "batch":
            return out, seen
    out.append(["cancelled"] if op["end"] == "cancel" else ["closed"])
    return out, seen


def _ev_match(exp: list[Any], got: list[Any]) -> bool:
    if exp[0] != got[0]:
        return False
    if exp[0] == "error":
        if exp[1] is None:
            return True
        return got[1] == exp[1] and exp[2] in (got[2] or "")
    return exp == got


def _classify_producer_diff(exp: list[list[Any]], got: list[list[Any]], full: list[list[Any]], fam: str) -> tuple[str, str]:
    """Mechanism key for a producer trace mismatch."""
    eb = [e for e in exp if e[0] == "batch"]
    gb = [e for e in got if e[0] == "batch"]
    gerr = [e for e in got if e[0] == "error"]
    ferr = [e for e in full if e[0] == "error"]
    if got and exp[0] != got[0] and got[0][0] == "header":
        return f"header_mismatch:{fam}", "stream header differs from the declared one"
    if gerr and ferr and _ev_match(ferr[0], gerr[0]) and len(gb) < len(eb) and gb == eb[: len(gb)]:
        return f"batches_before_error_lost:{fam}", "an error raised by a later step pre-empts data batches emitted before it"
    if gb != eb:
        if len(gb) < len(eb) and gb == eb[: len(gb)]:
            return f"producer_batches_missing:{fam}", "client received fewer batches than the producer emitted"
        if len(gb) > len(eb) and gb[: len(eb)] == eb:
            return f"producer_batches_extra:{fam}", "client received more batches than the producer emitted / asked for"
        return f"producer_batches_differ:{fam}", "client batches differ in content or order from the emitted ones"
    return f"producer_end_mismatch:{fam}", "stream did not end / fail where the script finishes"


# ---------------------------------------------------------------------------
# judging one connection
# ---------------------------------------------------------------------------


def _slim(m: dict[str, Any]) -> dict[str, Any]:
    return {"header": m.get("header"), "cols": m["out_cols"], "steps": [{k: v for k, v in s.items() if k != "logs" or v} for s in m["steps"]]}


def _wire_streams(wire: Any, mark: int, is_http: bool) -> list[list[dict[str, Any]]]:
    """Per response unit (socket: the call; http: each turn) the list of decomposed IPC streams."""
    from lib.models import streams

    if is_http:
        out = []
        for t in wire.turns[mark:]:
            try:
                out.append(streams.split_streams(t["decoded"]))
            except Exception:  # noqa: BLE001 - non-IPC body (judged by C15)
                out.append([])
        return out
    return [streams.split_streams(bytes(wire.buf[mark:]))]


def _run_connection(chk: Check, job: dict[str, Any]) -> None:
    from lib import svcgen
    from lib.models import streams

    m = job["m"]
    cfg = job["cfg"]
    tag = _tag(cfg)
    is_http = cfg["kind"] == "http"
    fam = "http" if is_http else "socket"
    program = {"name": "GenSvc", "methods": [m], "calls": []}
    logs: list[Any] = []
    declared_in = str(svcgen.schema_of(m["in_cols"])) if job["kind"] == "exchange" else None
    hdr_schema_names = ["label", "n"]

    with streams.open_conn(program, cfg, on_log=logs.append) as (proxy, impl, wire):
        for op in job["ops"]:
            opname = (
                f"take{'all' if op['take'] is None else op['take']}:{op['end']}"
                if job["kind"] == "producer"
                else f"n{op['n']}:{op['end']}:{'-'.join(map(str, op['perturb'])) if op['perturb'] else 'plain'}"
            )
            cls = f"{job['kind']}:{tag}:{job['shape']}:{opname}"
            inv0 = len(impl.inv)
            w0 = len(wire.turns) if is_http else len(wire.buf)
            drive = _drive_producer if job["kind"] == "producer" else _drive_exchange
            done, res = streams.run_with_watchdog(lambda op=op: drive(proxy, m, op, impl), 30.0)
            wit = {"transport": tag, "shape": job["shape"], "op": op, "method": _slim(m)}
            if not done:
                chk.inconclusive_because(f"watchdog: call did not return on {tag} ({cls})")
                return
            if isinstance(res, BaseException):
                chk.case(cls)
                chk.violation(
                    f"client_raised_unexpected:{fam}:{job['kind']}:{type(res).__name__}",
                    f"client raised {type(res).__name__} (not RpcError): {str(res)[:160]}",
                    wit,
                )
                return
            chk.case(cls)
            got = res["ev"]
            inv_all = list(impl.inv[inv0:])
            inv = inv_all[: max(0, res.get("inv_before_probes", len(impl.inv)) - inv0)]
            inv_probe = inv_all[len(inv) :]
            bad = False

            # ---- client trace vs. model --------------------------------------------------
            if job["kind"] == "producer":
                exp = _expected_producer(m, op)
                seen_inputs: list[dict[str, Any]] = []
            else:
                exp, seen_inputs = _expected_exchange(m, op, res["sent"])
            if got and got[0][0] == "error" and exp and exp[0][0] == "header":
                # the stream call itself raised (HTTP folds the first turn into /init): no session, hence no
                # header to look at - the header clause is judged on opened sessions only
                exp = exp[1:]
                full = streams.model_producer(m) if job["kind"] == "producer" else []
                if is_http and full and full[-1][0] == "error" and len(got) == 1 and _ev_match(full[-1], got[0]) and not any(e[0] == "batch" for e in exp):
                    # HTTP runs the first producer turn inside /init, so the producer's own error can surface
                    # before the client asked for anything; no emitted batch is lost -> not judged against the take count
                    chk.hit("http_eager_init_error_accepted")
                    exp = got
            chk.hit("client_trace_compared")
            if len(exp) != len(got) or not all(_ev_match(a, b) for a, b in zip(exp, got, strict=False)):
                bad = True
                if job["kind"] == "producer":
                    key, what = _classify_producer_diff(exp, got, streams.model_producer(m), fam)
                else:
                    key, what = _classify_exchange_diff(exp, got, op, fam)
                chk.violation(key, what, {**wit, "expected": _brief(exp), "got": _brief(got)})
            else:
                if any(e[0] == "end" for e in got):
                    chk.hit("stream_end_at_finish_seen")
                if job["kind"] == "producer" and job["shape"].endswith("+emitfin") and op["take"] is None:
                    chk.hit("emit_and_finish_batch_delivered")
                if job["kind"] == "exchange" and any(e[0] == "error" and streams.FINISH_REFUSED_MSG in (e[2] or "") for e in got):
                    chk.hit("exchange_finish_refused")
                if got and got[0][0] == "header" and got[0][1] is not None:
                    chk.hit("header_value_checked")
            if res["cancel_raised"]:
                bad = True
                chk.violation(
                    f"cancel_or_close_raised:{fam}:{job['kind']}",
                    "cancel()/close() reported an error to the caller",
                    {**wit, "error": res["cancel_raised"]},
                )

            # ---- invocation log ----------------------------------------------------------
            steps = [e for e in inv if e[0] == "step"]
            cancels = [e for e in inv if e[0] == "cancel"]
            pos = [e[2] for e in steps]
            chk.hit("invocation_log_checked")
            if pos != list(range(len(pos))):
                bad = True
                chk.violation(f"process_positions_not_contiguous:{fam}:{job['kind']}", "process() positions are not 0,1,2,... exactly once each", {**wit, "positions": pos})
            if len(cancels) > 1:
                bad = True
                chk.violation(f"on_cancel_ran_twice:{fam}:{job['kind']}", "on_cancel hook ran more than once for one stream", {**wit, "cancels": len(cancels)})
            if "inv_before_cancel" in res and any(e[0] == "step" for e in inv[max(0, res["inv_before_cancel"] - inv0) :]):
                bad = True
                chk.violation(f"process_after_cancel:{fam}:{job['kind']}", "state processed again after the client cancelled", {**wit, "inv": [e[:3] for e in inv]})
            if cancels:
                chk.hit("on_cancel_observed")
                ci = inv.index(cancels[0])
                if any(e[0] == "step" for e in inv[ci + 1 :]):
                    bad = True
                    chk.violation(f"process_after_cancel:{fam}:{job['kind']}", "state processed again after its cancel hook ran", {**wit, "inv": [e[:3] for e in inv]})
            if job["kind"] == "exchange":
                nout = len([e for e in got if e[0] == "batch"])
                nerr = len([e for e in got if e[0] == "error"])
                if len(steps) != len(seen_inputs) and not bad:
                    bad = True
                    chk.violation(
                        f"exchange_process_count:{fam}", "number of process() calls differs from the number of accepted inputs", {**wit, "steps": len(steps), "accepted": len(seen_inputs)}
                    )
                if nout + nerr > len(res["sent"]):
                    bad = True
                    chk.violation(f"exchange_not_one_to_one:{fam}", "more outputs than inputs", {**wit, "got": _brief(got)})
                for st, s in zip(steps, seen_inputs, strict=False):
                    chk.hit("state_input_schema_checked")
                    sch, data = st[4]
                    if sch != declared_in:
                        bad = True
                        chk.violation(f"state_saw_undeclared_schema:{fam}:{s['kind']}", "process() received an input whose schema is not the declared input schema", {**wit, "seen": sch, "declared": declared_in})
                    elif data != _canon(m["in_cols"], s["data"]):
                        bad = True
                        chk.violation(f"state_saw_wrong_values:{fam}:{s['kind']}", "coerced input values differ from what the client sent", {**wit, "seen": data, "sent": s["data"]})
                    elif s["kind"] != "none":
                        chk.hit("coerced_input_reached_state")
                if op["perturb"] and op["perturb"][0] in streams.REJECTED and any(s["kind"] in streams.REJECTED for s in res["sent"]):
                    chk.hit("field_set_mismatch_sent")
                    if len(steps) > len(seen_inputs):
                        chk.violation(f"different_field_set_reached_state:{fam}:{op['perturb'][0]}", "an input with a different field set was handed to process()", wit)
                        bad = True

            # ---- after cancel ------------------------------------------------------------
            probe_steps = len([e for e in inv_probe if e[0] == "step"])
            if res["probes"] and probe_steps and not any(o == "data" for o in res["probes"].values()):
                bad = True
                pn = "iter" if job["kind"] == "producer" else "exchange"
                chk.violation(
                    f"session_usable_after_cancel:{fam}:{job['kind']}:{pn}",
                    "session did not refuse use after cancel(): it delivered data and/or made the server process the state again",
                    {**wit, "probes": res["probes"], "server_steps_caused_by_probes": probe_steps},
                )
            for pname, outcome in res["probes"].items():
                chk.hit("post_cancel_probe")
                if outcome == "data":
                    bad = True
                    pn = "iter" if pname in ("iter", "new_iter") else pname
                    chk.violation(
                        f"session_usable_after_cancel:{fam}:{job['kind']}:{pn}",
                        "session did not refuse use after cancel(): it delivered data and/or made the server process the state again",
                        {**wit, "probes": res["probes"], "server_steps_caused_by_probes": probe_steps},
                    )
                    break
                elif outcome == "ended":
                    chk.skip("post_cancel_use_ended_silently(no data, no error)")
                elif outcome.startswith("refused_other"):
                    chk.skip(f"post_cancel_{outcome}")

            # ---- wire ----------------------------------------------------------------------
            try:
                units = _wire_streams(wire, w0, is_http)
            except Exception as exc:  # noqa: BLE001
                units = None
                if not bad:
                    chk.violation(f"wire_not_decodable:{fam}:{job['kind']}", f"server output is not a sequence of IPC streams: {type(exc).__name__}", wit)
                    bad = True
            if units is not None and got and got[0][0] == "header":
                chk.hit("wire_decomposed")
                nhdr = 0
                hdr_after_data = False
                data_seen = False
                ndata = 0
                for ui, unit in enumerate(units):
                    for si, s in enumerate(unit):
                        is_hdr = list(s["schema"].names) == hdr_schema_names
                        kinds = ("data", "pointer")
                        if is_http and job["kind"] == "exchange" and ui > 0:
                            kinds = ("data", "pointer", "token")  # an HTTP exchange output carries the refreshed cursor token
                        nd = len([b for b in s["batches"] if b["kind"] in kinds])
                        if is_hdr:
                            nhdr += nd
                            if data_seen or ui > 0 or si > 0:
                                hdr_after_data = True
                        else:
                            ndata += nd
                            if nd:
                                data_seen = True
                want_hdr = 1 if m.get("header") else 0
                if nhdr != want_hdr or hdr_after_data:
                    bad = True
                    chk.violation(f"header_not_once_before_data:{fam}", "wire shows the header stream missing, duplicated or after data", {**wit, "header_rows": nhdr, "after_data": hdr_after_data})
                elif want_hdr:
                    chk.hit("header_once_before_data_on_wire")
                ngot = len([e for e in got if e[0] == "batch"])
                if not is_http and not bad and ndata != ngot:
                    chk.violation(f"wire_data_count:{fam}:{job['kind']}", "data batches written by the server differ from those the client returned", {**wit, "wire": ndata, "client": ngot})
                    bad = True
                if is_http and not bad and ndata < ngot:
                    chk.violation(f"wire_data_count:{fam}:{job['kind']}", "client returned more batches than the server wrote", {**wit, "wire": ndata, "client": ngot})
                    bad = True
            if bad and not is_http:
                chk.skip("ops_skipped_after_failure_on_connection", max(0, len(job["ops"]) - job["ops"].index(op) - 1))
                return  # the connection may be out of sync; do not attribute follow-on noise
            if chk.rng.random() < 0.002:
                chk.sample({"class": cls, "method": _slim(m), "client": _brief(got), "inv": [e[:3] for e in inv]})
        died = getattr(impl, "_serve_died", None)
        if died is not None:
            chk.violation(f"serve_loop_died:{fam}:{type(died).__name__}", f"server loop raised {type(died).__name__}: {str(died)[:120]}", {"transport": tag, "shape": job["shape"]})


def _canon(in_cols: list[str], data: dict[str, list[Any]]) -> dict[str, list[Any]]:
    import pyarrow as pa

    from lib import svcgen

    return pa.RecordBatch.from_pydict(data, schema=svcgen.schema_of(in_cols)).to_pydict()


def _classify_exchange_diff(exp: list[list[Any]], got: list[list[Any]], op: dict[str, Any], fam: str) -> tuple[str, str]:
    from lib.models import streams

    pk = op["perturb"][0] if op["perturb"] else "plain"
    for a, b in zip(exp, got, strict=False):
        if _ev_match(a, b):
            continue
        if a[0] == "header":
            return f"header_mismatch:{fam}", "stream header differs from the declared one"
        if a[0] == "error" and a[1] is None:
            return f"different_field_set_not_rejected:{fam}:{pk}", "an input with a different field set was not rejected"
        if a[0] == "error" and a[2] == streams.FINISH_REFUSED_MSG:
            return f"exchange_finish_not_refused:{fam}", "finish() on an exchange stream was not refused with an error"
        if a[0] == "batch" and b[0] == "error" and pk in streams.COERCIBLE:
            return f"coercible_input_rejected:{fam}:{pk}", "a reordered / compatibly typed input was rejected instead of coerced"
        if a[0] == "batch" and b[0] == "batch":
            return f"exchange_output_differs:{fam}:{pk}", "exchange output is not the transform of the corresponding input"
        return f"exchange_trace_mismatch:{fam}:{pk}:{a[0]}->{b[0]}", "exchange outcome differs from the model"
    return f"exchange_cardinality:{fam}:{pk}", "number of exchange outcomes differs from the number of inputs"


def _brief(ev: list[list[Any]]) -> list[Any]:
    out = []
    for e in ev:
        if e[0] == "batch":
            out.append(["batch", e[1]["rows"], {k: (v[:3] if isinstance(v, list) else v) for k, v in e[1]["data"].items()}, e[1]["meta"]])
        elif e[0] == "error":
            out.append(["error", e[1], (e[2] or "")[:80] if e[2] is not None else None])
        else:
            out.append(e)
    return out


# ---------------------------------------------------------------------------
# shards / main
# ---------------------------------------------------------------------------


def run_shard(job: dict[str, Any]) -> dict[str, Any]:
    import warnings

    warnings.simplefilter("ignore")
    import os

    import vgi_rpc.shm as shm_mod

    os.environ.setdefault("VGI_RPC_SHM_MIN_BATCH_BYTES", "1")
    shm_mod.SHM_MIN_BATCH_BYTES = 1
    chk = Check(PID, job["tier"], job["seed"])
    chk.rng = random.Random(f"C10:{job['seed']}:{job['index']}")
    jobs = _jobs(job["tier"], job["seed"])[job["index"] :: job["n"]]
    for j in jobs:
        try:
            _run_connection(chk, j)
        except Exception as exc:  # noqa: BLE001
            import traceback

            chk.inconclusive_because(f"harness error {type(exc).__name__}: {exc} :: {traceback.format_exc()[-400:]}")
    return chk.to_result()


def main(tier: str, seed: int) -> int:
    chk = Check(PID, tier, seed, level=CATEGORY, rule=RULE)
    chk.require(
        "client_trace_compared",
        "invocation_log_checked",
        "wire_decomposed",
        "stream_end_at_finish_seen",
        "emit_and_finish_batch_delivered",
        "exchange_finish_refused",
        "header_value_checked",
        "header_once_before_data_on_wire",
        "on_cancel_observed",
        "post_cancel_probe",
        "state_input_schema_checked",
        "coerced_input_reached_state",
        "field_set_mismatch_sent",
    )
    chk.assumptions = [
        "lib/svcgen scripted implementation and pyarrow are trusted",
        "HTTP is driven in-process through the WSGI callable (lib/httpdrv), sockets through real pipe / socketpair pairs",
        "error type and text of a rejected input are not fixed by the statement and are not judged",
        "post-cancel use that ends silently without data or server activity is counted as unjudged, not as a violation",
    ]
    n = shard.ncpu()
    jobs = [{"tier": tier, "seed": seed, "index": i, "n": n} for i in range(n)]
    for res in shard.pmap("checks.c10", "run_shard", jobs, timeout=300 if tier == "quick" else 1500):
        chk.merge(res)
    chk.exhaustive["producer_step_shapes_len<=6"] = True
    chk.exhaustive["take/close/cancel points per shape"] = True
    chk.exhaustive["variants(rows,pad,meta,logs,header,cols)"] = False
    chk.exhaustive["exchange_scripts"] = False
    return chk.finish()

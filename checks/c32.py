"""C32 - worker pool: exclusive ownership and clean reuse.

Two legs.

*Scheduled leg* (E3): the real ``WorkerPool`` bookkeeping (``_borrow``,
``_PooledTransport.close`` -> ``_return_worker``, ``_reap_expired``, ``close``) runs
with ``SubprocessTransport`` in ``pool.py``'s namespace replaced by a scripted fake
process, ``threading`` replaced by scheduler-aware locks (the reaper thread is not
started; its body is an actor) and ``time`` by the virtual clock.  2-3 borrower actors,
a reaper actor, a killer actor (an idle worker dies) and a close actor are interleaved
at every line of ``pool.py``.  Ownership is tracked on the fake workers.

*Real leg*: real subprocess workers serving a generated service.  A first borrower
misbehaves (abandons a stream after k batches, raises from its log callback at
delivery index k during a unary call / stream) and leaves; the next borrower's
``echo(nonce)`` must return its own nonce and only its own logs.
"""

from __future__ import annotations

import random
from typing import Any

from lib import shard
from lib.evidence import Check

PID = "C32"
ENGINE = "E3-scheduler+E1-svcgen-rig"
TECHNIQUE = "deterministic scheduler over the real pool bookkeeping with fake worker processes; fault scripts against real pooled subprocess workers with a nonce-echo oracle"
LEVEL_TEXT = (
    "Exploration: scheduled leg = every schedule up to the preemption bound (plus PCT samples) over line-level yield "
    "points of pool.py for small actor sets and max_idle in 0..2; actor sets include a second worker command sharing the pool; real leg = each misbehaving-borrower script (incl. a reply the client cannot convert) followed "
    "by a nonce-echo probe on real worker subprocesses. Held = no explored execution handed one worker to two "
    "borrowers, handed out a dead/closed worker, exceeded max_idle at a quiescent point, or let a borrower read another borrower's response."
)
LEVEL_NOTE = "fake worker processes stand in for subprocesses in the scheduled leg (ownership of real OS processes is not scheduled); shim locks/time in pool.py; real leg trusts OS pipes"
RULE = (
    "scheduled: case = (actor set, max_idle, schedule), class = (actor set, max_idle, decision list); real: case = "
    "(misbehaviour kind, position, method kind), class = same"
)

SCHED_SETS: list[list[str]] = [
    ["borrow", "borrow"],
    ["borrow", "borrow", "borrow"],
    ["borrow2", "borrow"],
    ["borrow2", "reap"],
    ["borrow", "reap", "borrow"],
    ["borrow2", "kill"],
    ["borrow", "close"],
    ["borrow2", "close", "reap"],
    ["borrow_abandon", "borrow"],
    # two worker commands sharing one pool (separate idle queues, one max_idle budget)
    ["borrow", "borrow_b"],
    ["borrow", "borrow_b", "reap"],
    ["reap_then_borrow3"],
    ["reap_then_borrow3", "borrow_b"],
]


class _Env:
    def __init__(self) -> None:
        import time as real_time

        import vgi_rpc.pool as pool
        from lib import sched as S

        self.S = S
        self.pool = pool
        self.ref: list[Any] = [None]
        pool.threading = S.shim_threading(self.ref, threads="none")  # type: ignore[attr-defined]
        pool.time = S.shim_time(self.ref, real_time)  # type: ignore[attr-defined]
        env = self

        class FakeProc:
            def __init__(self, args: list[str], pid: int) -> None:
                self.args = args
                self.pid = pid
                self.returncode: int | None = None
                self.dead = False

            def poll(self) -> int | None:
                if self.dead:
                    self.returncode = -9
                    return -9
                return None

        class FakeTransport:
            counter = 0

            def __init__(self, cmd: list[str], **kw: Any) -> None:
                FakeTransport.counter += 1
                self.proc = FakeProc(list(cmd), 1000 + FakeTransport.counter)
                self.closed = False
                self.owner: str | None = None
                self.reader = None
                self.writer = None
                env.spawned.append(self)
                s = env.ref[0]
                if s is not None:
                    s.log("spawn", self.proc.pid)

            def close(self) -> None:
                s = env.ref[0]
                if s is not None:
                    s.log("transport_close", self.proc.pid, self.owner)
                self.closed = True
                self.proc.dead = True

        self.FakeTransport = FakeTransport
        self.spawned: list[Any] = []
        pool.SubprocessTransport = FakeTransport  # type: ignore[misc,assignment]


_ENV: list[_Env] = []


def _env() -> _Env:
    if not _ENV:
        _ENV.append(_Env())
    return _ENV[0]


def _run_sched(actor_set: list[str], max_idle: int, strategy: Any, mode: str = "coarse", prefill: int = 0) -> tuple[Any, dict[str, Any]]:
    env = _env()
    S = env.S
    s = S.Scheduler(strategy, max_steps=8000, watchdog_s=30.0)
    env.ref[0] = s
    env.spawned.clear()
    pool = env.pool.WorkerPool(max_idle=max_idle, idle_timeout=10.0)
    key = ("worker", "cmd")
    info: dict[str, Any] = {"violations": [], "idle_samples": []}

    def idle_now() -> int:
        return sum(len(d) for d in pool._idle.values())

    def quiescent_check(where: str) -> None:
        n = idle_now()
        info["idle_samples"].append(n)
        if n > max_idle:
            info["violations"].append((f"idle_exceeds_max_idle:max_idle={max_idle}", f"{n} idle workers > max_idle={max_idle} after {where}"))

    key_b = ("worker", "other-cmd")

    def borrow_once(me: str, abandon: bool = False, key: tuple[str, ...] = key) -> None:
        t = pool._borrow(key)
        s.log("borrowed", t.proc.pid, me)
        if t.owner is not None:
            info["violations"].append(("double_ownership", f"worker {t.proc.pid} handed to {me} while held by {t.owner}"))
        if t.closed or t.proc.dead:
            info["violations"].append(("dead_worker_handed_out", f"worker {t.proc.pid} handed to {me} although closed/dead"))
        t.owner = me
        pooled = env.pool._PooledTransport(t, pool)
        s.point("borrower.using")
        if abandon:
            pooled._stream_opened = True  # what the stream caller does once a request was sent
        t.owner = None
        pooled.close()
        s.log("returned", t.proc.pid, me)
        if abandon and not t.closed:
            info["violations"].append(("abandoned_stream_worker_kept", f"worker {t.proc.pid} with an abandoned stream was not discarded"))
        quiescent_check("return")

    def mk(kind: str, i: int) -> Any:
        me = f"{kind}{i}"
        if kind == "borrow":
            return lambda: (s.point("start"), borrow_once(me))
        if kind == "borrow2":
            return lambda: (s.point("start"), borrow_once(me), borrow_once(me))
        if kind == "borrow_b":  # a borrower of a second worker command (its own idle queue, the same max_idle budget)
            return lambda: (s.point("start"), borrow_once(me, key=key_b))
        if kind == "reap_then_borrow3":

            def reap_then() -> None:
                # idle sweep over several command queues, then three workers out at once and returned one by one
                s.point("start")
                s.now += 11.0
                pool._reap_expired()
                quiescent_check("reap")
                ts = [pool._borrow(k) for k in (key, key_b, key)]
                for t in ts:
                    env.pool._PooledTransport(t, pool).close()
                    quiescent_check("return")

            return reap_then
        if kind == "borrow_abandon":
            return lambda: (s.point("start"), borrow_once(me, abandon=True), borrow_once(me))
        if kind == "reap":

            def reap() -> None:
                s.point("start")
                s.now += 11.0
                s.point("clock.advanced")
                pool._reap_expired()
                quiescent_check("reap")

            return reap
        if kind == "kill":

            def kill() -> None:
                s.point("start")
                for dq in list(pool._idle.values()):
                    for e in list(dq):
                        e.transport.proc.dead = True
                        s.log("killed_idle", e.transport.proc.pid)
                        return

            return kill
        if kind == "close":
            return lambda: (s.point("start"), pool.close(), quiescent_check("close"))
        raise ValueError(kind)

    # setup (not scheduled): park *prefill* idle workers so borrowers compete for reuse
    held = [pool._borrow(key) for _ in range(prefill)]
    if any(k in ("borrow_b", "reap_then_borrow3") for k in actor_set) and max_idle >= 2:
        held.append(pool._borrow(key_b))  # an idle worker of the second command as well
    for t in held:
        env.pool._PooledTransport(t, pool).close()
    for i, kind in enumerate(actor_set):
        s.actor(f"{kind}{i}", mk(kind, i))
    s.monitor_files(("vgi_rpc/pool.py",), line=(mode == "line"))
    try:
        s.run()
    finally:
        S.Scheduler.unmonitor()
        env.ref[0] = None
        try:
            pool.close()
        except Exception:  # noqa: BLE001
            pass
    info["final_idle"] = idle_now()
    info["spawned"] = len(env.spawned)
    # leaked: alive, not idle, not owned after everything finished
    return s, info


def _judge_sched(chk: Check, actor_set: list[str], max_idle: int, s: Any, info: dict[str, Any]) -> None:
    name = "+".join(actor_set)
    wit = {"actors": actor_set, "max_idle": max_idle, "decisions": s.decisions, "events": s.events[:120], "idle_samples": info["idle_samples"]}
    chk.case(f"sched|{name}|mi{max_idle}|{len(s.decisions)}:{hash(tuple(s.decisions)) & 0xFFFFFFF:x}")
    if s.deadlock:
        chk.violation(f"deadlock:{name}", "no runnable actor: pool lock never released", wit)
        return
    if s.step_limit_hit or s.watchdog_fired:
        chk.inconclusive_because("schedule hit the step limit / watchdog")
        return
    for a in s.actors:
        if a.exc is not None and not (isinstance(a.exc, RuntimeError) and "closed" in str(a.exc)):
            chk.violation(f"actor_exception:{type(a.exc).__name__}", f"actor raised {a.exc!r}", wit)
    chk.hit("sched_events", len(s.events))
    chk.hit("idle_checked", len(info["idle_samples"]))
    for key, what in info["violations"]:
        chk.violation(key, what, wit)
    if s.preemptions:
        chk.hit("preempted_schedules")


def run_sched_shard(job: dict[str, Any]) -> dict[str, Any]:
    env = _env()
    S = env.S
    chk = Check(PID, job["tier"], job["seed"])
    rng = random.Random(job["seed"])
    for actor_set, max_idle in job["cases"]:
        prefill = min(max_idle, 1)

        def make_run(strategy: Any, a: list[str] = actor_set, m: int = max_idle, pf: int = prefill) -> Any:
            s, info = _run_sched(a, m, strategy, "coarse", pf)
            s._info = info
            return s

        def make_run_line(strategy: Any, a: list[str] = actor_set, m: int = max_idle, pf: int = prefill) -> Any:
            s, info = _run_sched(a, m, strategy, "line", pf)
            s._info = info
            return s

        def on_done(s: Any, a: list[str] = actor_set, m: int = max_idle) -> None:
            _judge_sched(chk, a, m, s, s._info)
            if len(chk.samples) < 1 and s.preemptions:
                chk.sample({"actors": a, "max_idle": m, "decisions": s.decisions[:60], "events": s.events[:40]})

        st = S.explore_dfs(make_run, bound=job["bound"], max_schedules=job["max_dfs"], on_done=on_done)
        chk.extra["dfs_schedules"] = chk.extra.get("dfs_schedules", 0) + st["distinct"]
        if st["truncated"]:
            chk.extra["dfs_truncated_cases"] = chk.extra.get("dfs_truncated_cases", 0) + 1
        strategies = [S.PCTStrategy(random.Random(rng.random()), len(actor_set), depth=3, horizon=300) for _ in range(job["pct"])]
        st2 = S.explore_sampled(make_run_line, strategies, on_done=on_done)
        chk.extra["pct_schedules"] = chk.extra.get("pct_schedules", 0) + st2["schedules"]
    return chk.to_result()


# ---------------------------------------------------------------------------
# real leg
# ---------------------------------------------------------------------------

REAL_PROGRAM: dict[str, Any] = {
    "name": "PoolSvc",
    "methods": [
        {"name": "echo", "kind": "unary", "params": [("nonce", ("str",))], "ret": ("str",), "u": {"logs": [("INFO", "echo-log", {})], "act": ("echo", "nonce")}},
        {
            "name": "chatty",
            "kind": "unary",
            "params": [("nonce", ("str",))],
            "ret": ("str",),
            "u": {"logs": [("INFO", "l0", {}), ("WARN", "l1", {}), ("DEBUG", "l2", {})], "act": ("echo", "nonce")},
        },
        {
            "name": "prod",
            "kind": "producer",
            "params": [],
            "header": False,
            "out_cols": ["i", "s"],
            "init": {"logs": [("INFO", "init-log", {})], "act": ("ok",)},
            "steps": [{"logs": [("INFO", f"step{k}", {})], "act": "emit", "rows": 2} for k in range(4)],
        },
        {
            "name": "prodh",
            "kind": "producer",
            "params": [],
            "header": True,
            "out_cols": ["i"],
            "init": {"logs": [("INFO", "init-log", {})], "act": ("ok",)},
            "steps": [{"logs": [("INFO", f"hstep{k}", {})], "act": "emit", "rows": 1} for k in range(3)],
        },
        {
            "name": "exch",
            "kind": "exchange",
            "params": [],
            "header": False,
            "in_cols": ["i"],
            "out_cols": ["i"],
            "init": {"logs": [], "act": ("ok",)},
            "steps": [{"logs": [("INFO", "x", {})], "act": "emit"}],
        },
        {"name": "boom", "kind": "unary", "params": [], "ret": ("str",), "u": {"logs": [("INFO", "pre", {})], "act": ("raise", "ValueError", "boom")}},
        # the worker answers with an enum member; a client built against another version of the enum cannot convert it
        {"name": "tint", "kind": "unary", "params": [], "ret": ("enum", "Color"), "u": {"logs": [("INFO", "tint-log", {})], "act": ("return", __import__("lib.tygen", fromlist=["Color"]).Color.RED)}},
    ],
    "calls": [],
}


def real_scenarios() -> list[dict[str, Any]]:
    sc: list[dict[str, Any]] = [{"kind": "clean_unary"}, {"kind": "method_error"}, {"kind": "clean_stream"}]
    for k in range(3):
        sc.append({"kind": "unary_onlog_raise", "at": k})
    for k in range(0, 4):
        sc.append({"kind": "stream_abandon", "after": k, "method": "prod"})
    for k in range(0, 3):
        sc.append({"kind": "stream_abandon", "after": k, "method": "prodh"})
    for k in range(0, 4):
        sc.append({"kind": "stream_onlog_raise", "at": k, "method": "prod"})
    sc.append({"kind": "stream_onlog_raise", "at": 0, "method": "prodh"})
    sc.append({"kind": "exchange_abandon", "after": 1})
    sc.append({"kind": "stream_cancel", "after": 1})
    sc.append({"kind": "stream_close_early", "after": 1})
    # an intact reply the client cannot turn into its own types: the exception is raised on the client after the reply arrived
    sc.append({"kind": "unary_result_conversion_raises"})
    return sc


class _Boom(Exception):
    pass


def run_real_shard(job: dict[str, Any]) -> dict[str, Any]:
    import os
    import pickle
    import sys
    import tempfile
    import threading

    import pyarrow as pa

    from lib import svcgen
    from vgi_rpc.pool import WorkerPool
    from vgi_rpc.rpc import AnnotatedBatch, RpcError

    chk = Check(PID, job["tier"], job["seed"])
    root = os.path.dirname(os.path.dirname(os.path.abspath(__file__)))
    proto, _impl = svcgen.build(REAL_PROGRAM)
    import copy

    odd_program = copy.deepcopy(REAL_PROGRAM)
    for m_ in odd_program["methods"]:
        if m_["name"] == "tint":
            m_["ret"] = ("enum", "Odd")  # members A, B, SPACE: no RED
    proto_odd, _ = svcgen.build(odd_program)
    with tempfile.TemporaryDirectory(prefix="verif-c32-") as td:
        pf = os.path.join(td, "program.pkl")
        with open(pf, "wb") as fh:
            pickle.dump(REAL_PROGRAM, fh)
        cmd = [sys.executable, os.path.join(root, "lib", "svcworker.py"), pf, "-"]
        for sc in job["scenarios"]:
            for max_idle in job["max_idles"]:
                label = sc["kind"] + (f":at{sc['at']}" if "at" in sc else "") + (f":after{sc['after']}" if "after" in sc else "") + (f":{sc['method']}" if "method" in sc else "")
                cls = f"real|{label}|mi{max_idle}"
                klabel = sc["kind"] + (f":{sc['method']}" if "method" in sc else "")
                pool = WorkerPool(max_idle=max_idle, idle_timeout=60.0)
                try:
                    delivered = [0]

                    def on_log_raise(msg: Any, sc: dict[str, Any] = sc, delivered: list[int] = delivered) -> None:
                        i = delivered[0]
                        delivered[0] += 1
                        if sc["kind"].endswith("onlog_raise") and i == sc["at"]:
                            raise _Boom("client log callback failed")

                    first_exc: str | None = None
                    try:
                        with pool.connect(proto_odd if sc["kind"] == "unary_result_conversion_raises" else proto, cmd, on_log=on_log_raise) as p1:
                            k = sc["kind"]
                            if k == "clean_unary":
                                p1.echo(nonce="first")
                            elif k == "method_error":
                                try:
                                    p1.boom()
                                except RpcError:
                                    pass
                            elif k == "clean_stream":
                                for ab in p1.prod():
                                    ab.release()
                            elif k == "unary_onlog_raise":
                                p1.chatty(nonce="first")
                            elif k == "unary_result_conversion_raises":
                                chk.hit("result_conversion_case_run")
                                p1.tint()  # p1 speaks the other enum version (see connect below)
                            elif k == "stream_abandon":
                                sess = getattr(p1, sc["method"])()
                                it = iter(sess)
                                for _ in range(sc["after"]):
                                    next(it)
                            elif k == "stream_onlog_raise":
                                for ab in getattr(p1, sc["method"])():
                                    ab.release()
                            elif k == "exchange_abandon":
                                sess = p1.exch()
                                for j in range(sc["after"]):
                                    sess.exchange(AnnotatedBatch(batch=pa.RecordBatch.from_pydict({"i": [j]}, schema=pa.schema([pa.field("i", pa.int64())]))))
                            elif k == "stream_cancel":
                                sess = p1.prod()
                                it = iter(sess)
                                for _ in range(sc["after"]):
                                    next(it)
                                sess.cancel()
                            elif k == "stream_close_early":
                                sess = p1.prod()
                                it = iter(sess)
                                for _ in range(sc["after"]):
                                    next(it)
                                sess.close()
                    except _Boom:
                        first_exc = "_Boom"
                        chk.hit("onlog_raise_injected")
                    except RpcError as e:
                        first_exc = f"RpcError:{e.error_type}"
                    except (KeyError, ValueError, TypeError) as e:
                        if sc["kind"] != "unary_result_conversion_raises":
                            raise
                        first_exc = type(e).__name__
                        chk.hit("result_conversion_raised")
                    if sc["kind"] == "unary_result_conversion_raises" and first_exc is None:
                        chk.skip("result_conversion_did_not_raise")
                        continue
                    if sc["kind"].endswith("onlog_raise") and first_exc != "_Boom":
                        chk.skip(f"injection_point_not_reached:{label}")
                        continue
                    idle = pool.idle_count
                    if idle > max_idle:
                        chk.violation(f"idle_exceeds_max_idle:max_idle={max_idle}", f"{idle} idle workers after a return with max_idle={max_idle}", {"scenario": sc})
                    chk.hit("idle_checked")
                    # second borrower: nonce echo with a watchdog
                    nonce = f"nonce-{job['seed']}-{label}"
                    out: dict[str, Any] = {}
                    logs2: list[str] = []

                    def second(out: dict[str, Any] = out, logs2: list[str] = logs2, nonce: str = nonce) -> None:
                        try:
                            with pool.connect(proto, cmd, on_log=lambda m: logs2.append(m.message)) as p2:
                                out["res"] = p2.echo(nonce=nonce)
                        except BaseException as exc:  # noqa: BLE001
                            out["exc"] = f"{type(exc).__name__}: {exc}"

                    th = threading.Thread(target=second, daemon=True)
                    th.start()
                    th.join(timeout=120.0)
                    m = pool.metrics
                    wit = {"scenario": sc, "max_idle": max_idle, "first_exc": first_exc, "second": out, "logs2": logs2, "reuses": m.reuses, "spawns": m.spawns, "discards": m.discards}
                    chk.case(cls)
                    if m.reuses:
                        chk.hit("worker_reused")
                    else:
                        chk.hit("worker_not_reused")
                    if th.is_alive():
                        if m.reuses:
                            chk.violation(f"second_borrower_blocked:{klabel}", "the next borrower's call never completed on a reused worker left mid-message", wit)
                        else:
                            chk.inconclusive_because(f"probe call on a fresh worker did not complete within the watchdog ({label})")
                        continue
                    chk.hit("probe_completed")
                    if out.get("res") != nonce:
                        chk.violation(f"second_borrower_wrong_response:{klabel}", "the next borrower did not receive its own echo response", wit)
                    elif logs2 != ["echo-log"]:
                        chk.violation(f"second_borrower_foreign_logs:{klabel}", "the next borrower received log messages that are not its own", wit)
                finally:
                    pool.close()
    return chk.to_result()


def main(tier: str, seed: int) -> int:
    chk = Check(PID, tier, seed, rule=RULE)
    chk.require("sched_events", "idle_checked", "preempted_schedules", "probe_completed", "worker_reused", "onlog_raise_injected", "result_conversion_raised")
    quick = tier == "quick"
    n = shard.ncpu()
    cases = [(a, mi) for a in SCHED_SETS for mi in (0, 1, 2)]
    sjobs = [
        {"tier": tier, "seed": seed * 1000 + i, "cases": [c], "bound": 2 if quick else 3, "max_dfs": 300 if quick else 4000, "pct": 10 if quick else 300}
        for i, c in enumerate(cases)
    ]
    scen = real_scenarios()
    rshards = shard.split(scen, max(1, n // 2))
    rjobs = [{"tier": tier, "seed": seed, "scenarios": sh, "max_idles": [1] if quick else [0, 1, 4]} for sh in rshards]
    if quick:
        rjobs.append({"tier": tier, "seed": seed, "scenarios": [{"kind": "clean_unary"}], "max_idles": [0]})
    import concurrent.futures as cf

    with cf.ThreadPoolExecutor(max_workers=2) as ex:
        f1 = ex.submit(shard.pmap, "checks.c32", "run_sched_shard", sjobs, timeout=500 if quick else 1700)
        f2 = ex.submit(shard.pmap, "checks.c32", "run_real_shard", rjobs, timeout=500 if quick else 1700)
        for res in f1.result() + f2.result():
            chk.merge(res)
    chk.exhaustive["sched_dfs_per_case_up_to_bound"] = chk.extra.get("dfs_truncated_cases", 0) == 0
    chk.sample({"real_scenarios": scen[:6]})
    return chk.finish()

"""C26 - sticky sessions are never used concurrently with or after close (scheduled interleavings).

The real Falcon WSGI app (``make_wsgi_app(enable_sticky=True)``) is driven in-process
by 2-3 request actors (raw WSGI calls), a DELETE actor, an in-method
``close_session`` actor, a reaper-tick actor (runs ``registry.drain_expired()``; the
real reaper thread is not started), a clock actor (virtual clock crossing the TTL)
and a shutdown actor, all interleaved by the deterministic scheduler with yield
points at every function entry (and, for PCT, every line) of ``_sticky.py`` and at
every lock operation of that module (scheduler-aware Lock/RLock).  The *session state
object* and the *service methods* supplied by the harness log
dispatch_begin/dispatch_end/close_begin/close_end; the log of each schedule is
judged offline.
"""

from __future__ import annotations

import random
from typing import Any

from lib import shard
from lib.evidence import Check

PID = "C26"
ENGINE = "E3-scheduler"
TECHNIQUE = "deterministic scheduler (bounded-preemption DFS + PCT) over the real WSGI app; offline check of session event logs"
LEVEL_TEXT = (
    "Exploration of schedules: for each actor set, every schedule up to the preemption bound over function-entry and "
    "lock yield points of _sticky.py (plus user-hook points inside dispatch and close), and PCT samples over line "
    "points. Held = no explored interleaving shows overlapping dispatches, a close during a dispatch, a dispatch after "
    "close started, or a close count different from one for an ended session."
)
LEVEL_NOTE = (
    "threading.Lock/RLock and time in _sticky.py replaced by scheduler-aware equivalents; the reaper thread body is run "
    "by an actor; requests enter through the WSGI callable (no socket layer); Falcon and the GIL are trusted"
)
RULE = (
    "case = (actor set, schedule); distinct class = (actor set, schedule decision list); non-trivial = at least one "
    "context switch while a request was between token validation and lock release"
)

ACTOR_SETS: list[list[str]] = [
    ["use", "use"],
    ["use", "delete"],
    ["use", "close_it"],
    ["use", "expire_reaper"],
    ["use", "expire_use"],
    ["use", "shutdown"],
    ["close_it", "delete"],
    ["close_it", "close_it"],
    ["delete", "delete"],
    ["delete", "expire_reaper"],
    ["use", "use", "delete"],
    ["use", "close_it", "expire_reaper"],
    ["use", "delete", "expire_use"],
]

TTL = 10.0


class _Env:
    """Per-process patched module + helpers (built once per shard)."""

    def __init__(self) -> None:
        import time as real_time

        import vgi_rpc.http.server._sticky as st
        from lib import sched as S

        self.S = S
        self.st = st
        self.ref: list[Any] = [None]
        st.threading = S.shim_threading(self.ref)  # type: ignore[attr-defined]
        st.time = S.shim_time(self.ref, real_time)  # type: ignore[attr-defined]
        st._StickyMiddleware._ensure_reaper = lambda self: None  # type: ignore[method-assign]
        self._build_service()

    def _build_service(self) -> None:
        from typing import Protocol

        from vgi_rpc.rpc import CallContext

        env = self

        class StickySvc(Protocol):
            def open(self) -> str: ...
            def use(self, tag: str) -> str: ...
            def close_it(self, tag: str) -> str: ...

        class State:
            def __init__(self, name: str) -> None:
                self.name = name

            def close(self) -> None:
                s = env.ref[0]
                s.log("close_begin", self.name)
                s.point("state.close.mid")
                s.log("close_end", self.name)

        class Impl:
            def open(self, ctx: CallContext = None) -> str:  # type: ignore[assignment]
                ctx.open_session(State("S"))
                return "opened"

            def use(self, tag: str, ctx: CallContext = None) -> str:  # type: ignore[assignment]
                s = env.ref[0]
                stt = ctx.session
                if stt is None:
                    s.log("dispatch_nosession", tag)
                    return "none"
                s.log("dispatch_begin", stt.name, tag)
                s.point("dispatch.mid")
                s.log("dispatch_end", stt.name, tag)
                return "used"

            def close_it(self, tag: str, ctx: CallContext = None) -> str:  # type: ignore[assignment]
                s = env.ref[0]
                stt = ctx.session
                if stt is None:
                    s.log("dispatch_nosession", tag)
                    return "none"
                s.log("dispatch_begin", stt.name, tag)
                s.point("dispatch.mid")
                # the method is done using the session before it asks for it to be closed
                s.log("dispatch_end", stt.name, tag)
                ctx.close_session()
                return "closed"

        self.proto = StickySvc
        self.impl_cls = Impl

    def make_app(self) -> tuple[Any, Any]:
        import warnings

        from vgi_rpc.http import make_wsgi_app
        from vgi_rpc.rpc import RpcServer

        with warnings.catch_warnings():
            warnings.simplefilter("ignore")
            app = make_wsgi_app(
                RpcServer(self.proto, self.impl_cls()),
                token_key=b"k" * 32,
                enable_sticky=True,
                sticky_default_ttl=TTL,
            )
        registry = None
        for group in getattr(app, "_middleware", ()):
            for bm in group:
                owner = getattr(bm, "__self__", None)
                if isinstance(owner, self.st._StickyMiddleware):
                    registry = owner._registry
        return app, registry


_ENV: list[_Env] = []


def _env() -> _Env:
    if not _ENV:
        _ENV.append(_Env())
    return _ENV[0]


def _run_once(actor_set: list[str], strategy: Any, mode: str) -> tuple[Any, dict[str, Any]]:
    import pyarrow as pa

    from lib import httpdrv

    env = _env()
    S = env.S
    s = S.Scheduler(strategy, max_steps=6000, watchdog_s=30.0)
    env.ref[0] = s
    app, registry = env.make_app()
    H = {"Content-Type": httpdrv.ARROW_CT, "VGI-Session-Accept": "true"}
    # setup (not an actor: shim locks fall back to real ones, points are no-ops)
    r = httpdrv.call(app, "POST", "/open", H, httpdrv.request_body("open", pa.schema([]), None))
    token = r.header("VGI-Session")
    info: dict[str, Any] = {"open_status": r.status, "token": bool(token), "results": {}, "ended_by": []}
    if not token:
        return s, info
    tag_schema = pa.schema([pa.field("tag", pa.string(), nullable=False)])

    # -- extra observability: when did the session leave the registry, when was its lock taken ------
    class _LoggingDict(dict):  # type: ignore[type-arg]
        def pop(self, *a: Any, **k: Any) -> Any:
            had = a and a[0] in self
            r = super().pop(*a, **k)
            if had:
                s.log("evicted")
            return r

        def __delitem__(self, key: Any) -> None:
            super().__delitem__(key)
            s.log("evicted")

        def clear(self) -> None:
            had = bool(self)
            super().clear()
            if had:
                s.log("evicted")

    class _LoggingLock:
        def __init__(self, inner: Any) -> None:
            self._inner = inner

        def acquire(self, *a: Any, **k: Any) -> Any:
            ok = self._inner.acquire(*a, **k)
            if ok:
                s.log("session_lock_acquired")
            return ok

        def release(self) -> None:
            self._inner.release()

        def __enter__(self) -> Any:
            return self.acquire()

        def __exit__(self, *exc: Any) -> None:
            self.release()

        def __getattr__(self, name: str) -> Any:
            return getattr(self._inner, name)

    class _LoggingRegistryLock(_LoggingLock):
        """The registry's own lock: an eviction takes effect when the critical section that removed the entry ends."""

        def acquire(self, *a: Any, **k: Any) -> Any:
            return self._inner.acquire(*a, **k)

        def release(self) -> None:
            s.log("registry_lock_released")
            self._inner.release()

    for entry in registry._entries.values():
        entry.lock = _LoggingLock(entry.lock)
    registry._entries = _LoggingDict(registry._entries)
    registry._lock = _LoggingRegistryLock(registry._lock)

    def req(method: str, tag: str) -> Any:
        return httpdrv.call(app, "POST", f"/{method}", {**H, "VGI-Session": token}, httpdrv.request_body(method, tag_schema, {"tag": tag}))

    def mk(kind: str, i: int) -> Any:
        tag = f"{kind}{i}"

        def run() -> None:
            s.point(f"actor.start:{kind}")
            if kind == "use":
                resp = req("use", tag)
                info["results"][tag] = (resp.status, resp.header("X-VGI-RPC-Error"), repr(resp.exc) if resp.exc else None)
            elif kind == "close_it":
                resp = req("close_it", tag)
                ok = resp.status == 200 and resp.header("X-VGI-RPC-Error") is None
                info["results"][tag] = (resp.status, resp.header("X-VGI-RPC-Error"), repr(resp.exc) if resp.exc else None)
                if ok and resp.header("VGI-Session-Close"):
                    info["ended_by"].append("method_close")
            elif kind == "delete":
                resp = httpdrv.call(app, "DELETE", "/__session__", {"VGI-Session": token})
                info["results"][tag] = (resp.status, None, repr(resp.exc) if resp.exc else None)
                if resp.status == 204:
                    info["ended_by"].append("delete")
            elif kind == "expire_reaper":
                s.now += TTL + 1
                s.point("clock.advanced")
                n = registry.drain_expired()
                info["results"][tag] = (n,)
                if n:
                    info["ended_by"].append("reaper")
            elif kind == "expire_use":
                s.now += TTL + 1
                s.point("clock.advanced")
                resp = req("use", tag)
                info["results"][tag] = (resp.status, resp.header("X-VGI-RPC-Error"), repr(resp.exc) if resp.exc else None)
                info["ended_by"].append("expiry_lookup")
            elif kind == "shutdown":
                registry.shutdown()
                info["results"][tag] = ("shutdown",)
                info["ended_by"].append("shutdown")

        return run

    for i, kind in enumerate(actor_set):
        s.actor(f"{kind}{i}", mk(kind, i))
    s.monitor_files(("vgi_rpc/http/server/_sticky.py",), line=(mode == "line"))
    try:
        s.run()
    finally:
        S.Scheduler.unmonitor()
    info["live_after"] = len(registry._entries)
    return s, info


def _judge(chk: Check, actor_set: list[str], mode: str, s: Any, info: dict[str, Any]) -> None:
    name = "+".join(actor_set)
    wit = {"actors": actor_set, "mode": mode, "decisions": s.decisions, "events": s.events, "results": info.get("results")}
    chk.case(f"{name}|{len(s.decisions)}:{hash(tuple(s.decisions)) & 0xFFFFFFF:x}")
    if not info.get("token"):
        chk.inconclusive_because(f"setup could not open a session (status {info.get('open_status')})")
        return
    if s.deadlock:
        chk.violation(f"deadlock:{name}", "no runnable actor: a lock is never released / lock-order inversion", wit)
        return
    if s.step_limit_hit or s.watchdog_fired:
        chk.inconclusive_because("schedule hit the step limit / watchdog")
        return
    for a in s.actors:
        if a.exc is not None:
            chk.violation(f"actor_exception:{type(a.exc).__name__}", f"actor raised {type(a.exc).__name__}: {a.exc}", wit)
    for tag, res in info["results"].items():
        if len(res) == 3 and (res[0] >= 500 and res[0] != 500 or res[2] is not None):
            chk.violation(f"request_crashed:{tag.rstrip('0123456789')}", f"request ended with status {res[0]} / exception {res[2]}", wit)
    open_disp: list[str] = []
    close_started_by: str | None = None
    closes = 0
    in_close = False
    chk.hit("events_logged", len(s.events))
    evicted_at: int | None = None
    pending_evict: str | None = None
    last_lock_acq: dict[str, int] = {}
    for idx, ev in enumerate(s.events):
        actor, kind = ev[0], ev[1]
        who = actor.rstrip("0123456789")
        if kind == "evicted":
            if pending_evict is None and evicted_at is None:
                pending_evict = actor
            continue
        if kind == "registry_lock_released":
            # the removal is in effect once the critical section that performed it has ended; a request that reads
            # the session's state between the removal and that point linearizes before the eviction
            if pending_evict == actor and evicted_at is None:
                evicted_at = idx
            continue
        if kind == "session_lock_acquired":
            last_lock_acq[actor] = idx
            chk.hit("lock_acquisitions_logged")
            continue
        if kind == "dispatch_begin":
            chk.hit("dispatch_observed")
            acq = last_lock_acq.get(actor)
            if evicted_at is not None and acq is not None and acq > evicted_at:
                chk.violation(
                    f"dispatch_admitted_after_eviction:request={who}",
                    "a request took the session lock after the session had left the registry (closed / expired / evicted) and was still dispatched",
                    wit,
                )
            if open_disp:
                chk.violation("overlapping_dispatch", "two requests dispatch against the same session at once", wit)
            if close_started_by is not None:
                chk.violation(
                    f"dispatch_after_close_started:closer={close_started_by}:request={who}",
                    "a request dispatched against a session whose close hook had already started",
                    wit,
                )
            open_disp.append(actor)
        elif kind == "dispatch_end":
            if actor in open_disp:
                open_disp.remove(actor)
        elif kind == "close_begin":
            chk.hit("close_observed")
            closes += 1
            if closes > 1:
                chk.violation(f"double_close:closer={who}", "the session close hook ran more than once", wit)
            if open_disp:
                chk.violation(
                    f"close_during_dispatch:closer={who}",
                    "the close hook ran while a request was dispatching against the session",
                    wit,
                )
            if close_started_by is None:
                close_started_by = who
            in_close = True
        elif kind == "close_end":
            in_close = False
    _ = in_close
    ended = bool(info["ended_by"]) or info.get("live_after", 1) == 0
    if ended:
        chk.hit("session_ended")
        if closes == 0:
            chk.violation(f"ended_without_close:{'+'.join(sorted(set(info['ended_by']))) or 'registry_empty'}", "session ended but its close hook never ran", wit)
    elif closes:
        chk.violation("closed_but_not_ended", "close hook ran although nothing ended the session", wit)
    if s.preemptions:
        chk.hit("preempted_schedules")


def run_shard(job: dict[str, Any]) -> dict[str, Any]:
    env = _env()
    S = env.S
    chk = Check(PID, job["tier"], job["seed"])
    rng = random.Random(job["seed"])
    for actor_set in job["sets"]:
        def make_run(strategy: Any, actor_set: list[str] = actor_set, box: list[Any] = []) -> Any:  # noqa: B006
            s, info = _run_once(actor_set, strategy, "coarse")
            s._info = info
            return s

        def on_done(s: Any, actor_set: list[str] = actor_set) -> None:
            _judge(chk, actor_set, "coarse", s, s._info)
            if len(chk.samples) < 2 and s.preemptions:
                chk.sample({"actors": actor_set, "decisions": s.decisions[:80], "events": s.events})

        st = S.explore_dfs(make_run, bound=job["bound"], max_schedules=job["max_dfs"], on_done=on_done)
        chk.extra["dfs_schedules"] = chk.extra.get("dfs_schedules", 0) + st["distinct"]
        if st["truncated"]:
            chk.extra["dfs_truncated_sets"] = chk.extra.get("dfs_truncated_sets", 0) + 1

        def make_run2(strategy: Any, actor_set: list[str] = actor_set) -> Any:
            s, info = _run_once(actor_set, strategy, "line")
            s._info = info
            return s

        def on_done2(s: Any, actor_set: list[str] = actor_set) -> None:
            _judge(chk, actor_set, "line", s, s._info)

        strategies = [S.PCTStrategy(random.Random(rng.random()), len(actor_set), depth=3, horizon=300) for _ in range(job["pct"])]
        st2 = S.explore_sampled(make_run2, strategies, on_done=on_done2)
        chk.extra["pct_schedules"] = chk.extra.get("pct_schedules", 0) + st2["schedules"]
    return chk.to_result()


def main(tier: str, seed: int) -> int:
    chk = Check(PID, tier, seed, rule=RULE)
    chk.require("events_logged", "dispatch_observed", "close_observed", "session_ended", "preempted_schedules", "lock_acquisitions_logged")
    chk.assumptions = [
        "shim Lock/RLock have threading semantics; virtual clock replaces time.time in _sticky.py only",
        "a 'dispatch' is the service method running with ctx.session bound to the state; close_it counts as dispatching until it calls close_session",
    ]
    quick = tier == "quick"
    n = shard.ncpu()
    sets = ACTOR_SETS if not quick else ACTOR_SETS
    jobs = []
    for i, aset in enumerate(sets):
        jobs.append({"tier": tier, "seed": seed * 1000 + i, "sets": [aset], "bound": 2 if quick else 3, "max_dfs": 250 if quick else 3000, "pct": 15 if quick else 300})
    _ = n
    for res in shard.pmap("checks.c26", "run_shard", jobs, timeout=400 if quick else 1700):
        chk.merge(res)
    chk.exhaustive["dfs_per_actor_set_up_to_bound"] = chk.extra.get("dfs_truncated_sets", 0) == 0
    return chk.finish()


def replay(path: str) -> int:
    import json

    env = _env()
    with open(path) as fh:
        rec = json.load(fh)
    fired = 0
    for w in rec["witnesses"]:
        chk = Check(PID, "quick", 0)
        s, info = _run_once(w["actors"], env.S.FixedStrategy(list(w["decisions"]), strict=True), w.get("mode", "coarse"))
        if s.diverged:
            print(f"replay diverged: {s.diverged}")
            continue
        _judge(chk, w["actors"], w.get("mode", "coarse"), s, info)
        if rec["key"] in chk.violations:
            fired += 1
            print(f"replayed: {rec['key']}")
    if fired:
        print(f"VIOLATION property={PID} replay={path}")
        return 1
    print("replay did not reproduce (inconclusive)")
    return 2

"""C12 - stream state tokens are unforgeable, identity-bound and opaque.

Runtime monitoring of the real HTTP stream path (``make_wsgi_app`` driven through the raw
WSGI driver): real cursor / call tokens are harvested from init and continuation
responses of a generated service, then presented back byte-for-byte mutated,
truncated, extended, re-encoded, swapped, under other identities, to servers with
other keys and at logical clock offsets around the TTL.  Monitors:

* HTTP boundary: status + decoded Arrow error of every presentation;
* server-side invocation log (``impl.inv``): any rehydrate / step / cancel entry
  produced by a presentation that had to be rejected = user hook ran first;
* counters on ``_deserialize_state_bytes`` (as imported by ``_app_stream``),
  ``CallSt.deserialize_from_bytes`` and ``PStateCS.bind_call_state``: state
  deserialised before rejection;
* the set of distinct rejection bodies (type, message) per cause: detail leak;
* planted canaries (method name inside the cursor state, call-state payload)
  searched in the token bytes.
"""

from __future__ import annotations

import base64
import hashlib
import random
from typing import Any

from lib import shard
from lib.evidence import Check

PID = "C12"
ENGINE = "E2-raw-drivers+E1-svcgen-rig"
TECHNIQUE = "exhaustive token mutation at the HTTP boundary with invocation-log and deserialisation counters"
LEVEL_TEXT = (
    "Exploration: every single-bit flip, truncation and prefix drop of the sealed bytes and of the base64 text of a "
    "sample of real cursor/call tokens (exhaustive per sampled token), plus substitutions, extensions, re-encodings, "
    "cursor/call swaps, cross-stream pairs, an adversarial identity table (all ordered pairs), key lengths 0..64 and a "
    "logical clock at TTL-1/TTL/TTL+1 (one worker without cache; two workers with caches, the second refilled by a turn at TTL-1) were presented to the real WSGI app; each presentation was judged on status, "
    "hook invocations and deserialisation counters. Held means no counterexample among those executions; "
    "injectivity of the identity binding and confidentiality are sampled (collision-freeness over the table, canary search), not established."
)
LEVEL_NOTE = "PyCryptodome AEAD trusted; only the pycryptodome backend runs here; the harness' lenient base64 reading defines 'equivalent encoding'"
CATEGORY = "exploration"
RULE = (
    "case = (token sample, slot cursor|call|both, route producer|exchange|call-state producer|cancel, mutation); token samples are "
    "harvested from real histories (method x identity x stage); mutation spaces per sampled token are exhaustive over bit/byte "
    "positions; distinct class = (mutation shape:envelope region, slot, route) or (identity pair) or (key relation) or (clock offset, slot)"
)

KEY = b"C12-shared-token-key-32-bytes!!!"
CANARY_M = "QZ7canaryW9Lk3Vb5"
CANARY_PAYLOAD = "Zq7Xw9Lk3Vb5Nm1Pc8Rt2Yh6CANARY"
P = "p" + CANARY_M
X = "x" + CANARY_M
C = "c" + CANARY_M
TTL = 3600


def program() -> dict[str, Any]:
    emit = [{"logs": [], "act": "emit", "rows": 1} for _ in range(8)]
    return {
        "name": "TokSvc",
        "methods": [
            {"name": P, "kind": "producer", "params": [], "header": False, "out_cols": ["i", "s"], "init": {"logs": [], "act": ("ok",)}, "steps": emit},
            {"name": X, "kind": "exchange", "params": [], "header": False, "out_cols": ["i"], "in_cols": ["i"], "init": {"logs": [], "act": ("ok",)}, "steps": [{"logs": [], "act": "emit"}]},
            {"name": C, "kind": "producer", "state": "PStateCS", "cs_payload": CANARY_PAYLOAD, "params": [], "header": True, "out_cols": ["i"], "init": {"logs": [], "act": ("ok",)}, "steps": emit},
        ],
        "calls": [],
    }


IN_COLS = {P: None, X: ["i"], C: None}
ROUTE_OF = {P: "producer", X: "exchange", C: "producer_cs"}


class Lab:
    """One service + WSGI app with all monitors attached."""

    def __init__(self, *, key: bytes | None = KEY, cache: int = 0, ttl: int = TTL) -> None:
        from lib import svcgen
        from lib.models import tokenlab as tl
        from vgi_rpc.http.server import _app_stream
        from vgi_rpc.utils import ArrowSerializableDataclass

        self.tl = tl
        self.proto, self.impl = svcgen.build(program())
        self.app, self.handler = tl.make_app(self.proto, self.impl, key=key, token_ttl=ttl, call_state_cache_entries=cache)
        self.counts = COUNTS
        if not getattr(_app_stream, "_verif_c12_wrapped", False):
            orig = _app_stream._deserialize_state_bytes

            def counting(*a: Any, **k: Any) -> Any:
                COUNTS["deser_state"] += 1
                return orig(*a, **k)

            _app_stream._deserialize_state_bytes = counting  # type: ignore[assignment]
            base = ArrowSerializableDataclass.deserialize_from_bytes.__func__  # type: ignore[attr-defined]

            def cs_deser(cls: Any, *a: Any, **k: Any) -> Any:
                COUNTS["deser_callstate"] += 1
                return base(cls, *a, **k)

            svcgen.CallSt.deserialize_from_bytes = classmethod(cs_deser)  # type: ignore[assignment,method-assign]
            orig_bind = svcgen.PStateCS.bind_call_state

            def bind(self_: Any, cs: Any) -> None:
                COUNTS["bind_call_state"] += 1
                return orig_bind(self_, cs)

            svcgen.PStateCS.bind_call_state = bind  # type: ignore[method-assign]

            def opener(name: str, fn: Any) -> Any:
                def wrapped(*a: Any, **k: Any) -> Any:
                    out = fn(*a, **k)
                    OPENS[name] += 1  # only reached when the token was opened successfully
                    return out

                return wrapped

            _app_stream._open_cursor_token = opener("cursor", _app_stream._open_cursor_token)  # type: ignore[assignment]
            _app_stream._open_call_token = opener("call", _app_stream._open_call_token)  # type: ignore[assignment]
            _app_stream._verif_c12_wrapped = True  # type: ignore[attr-defined]

    # -- driving ---------------------------------------------------------
    def harvest(self, method: str, idx: int, stage: int) -> tuple[bytes, bytes]:
        tl = self.tl
        r = tl.init_stream(self.app, method, idx)
        cur, call = tl.tokens_of(r)
        if r.status != 200 or cur is None or call is None:
            raise RuntimeError(f"init of {method} under identity {idx} gave {r.status} {tl.outcome(r)}")
        for _ in range(stage):
            r = tl.exchange(self.app, method, idx, tl.cont_body(IN_COLS[method], cur, call))
            ncur, _ = tl.tokens_of(r)
            if r.status != 200 or ncur is None:
                raise RuntimeError(f"continuation of {method} gave {r.status} {tl.outcome(r)}")
            cur = ncur
        return cur, call

    def present(self, method: str, idx: int, cur: bytes | None, call: bytes | None, *, cancel: bool = False, app: Any = None) -> dict[str, Any]:
        tl = self.tl
        inv0 = len(self.impl.inv)
        c0 = dict(COUNTS)
        p0 = dict(OPENS)
        r = tl.exchange(app if app is not None else self.app, method, idx, tl.cont_body(IN_COLS[method], cur, call, cancel=cancel))
        o = tl.outcome(r)
        o["new_inv"] = [_inv_entry(e) for e in self.impl.inv[inv0:]]
        o["deser"] = {k: COUNTS[k] - c0[k] for k in COUNTS}
        o["opens"] = {k: OPENS[k] - p0[k] for k in OPENS}
        return o


COUNTS: dict[str, int] = {"deser_state": 0, "deser_callstate": 0, "bind_call_state": 0}
OPENS: dict[str, int] = {"cursor": 0, "call": 0}


def _inv_entry(e: tuple[Any, ...]) -> tuple[Any, ...]:
    """Invocation-log entry without the per-object id()."""
    return tuple(e[:5]) if e[0] == "step" else tuple(e[:4])


def _zstd_views(raw: bytes) -> list[bytes]:
    """Outputs of every zstd frame that decodes from an offset in the first 64 bytes (keyless reader)."""
    import zstandard

    out: list[bytes] = []
    for off in range(0, min(64, len(raw))):
        if raw[off : off + 4] != b"\x28\xb5\x2f\xfd":
            continue
        try:
            out.append(zstandard.ZstdDecompressor().decompressobj().decompress(raw[off:]))
        except zstandard.ZstdError:
            pass
    return out


def _family(cls: str) -> str:
    """Mechanism family of a case class for violation keys (envelope region / pair labels stay in the witness)."""
    head = cls.split(":")[0]
    if head.startswith("cross_identity"):
        return "cross_identity:" + cls.split(":", 1)[1]
    if head.startswith("foreign_key"):
        return "foreign_key:" + cls.split(":", 1)[1]
    if head in ("expired", "swap", "cross_stream"):
        return cls
    return head


def _served(o: dict[str, Any]) -> bool:
    return o["status"] == 200 and o.get("error") is None


class Judge:
    """Shared oracle for 'this presentation must be rejected'."""

    def __init__(self, chk: Check) -> None:
        self.chk = chk
        self.msgs: dict[str, set[str]] = {}

    def must_reject(self, o: dict[str, Any], cls: str, slot: str, route: str, witness: dict[str, Any], keycls: str | None = None) -> None:
        chk = self.chk
        chk.case(f"{cls}|{slot}|{route}")
        witness = dict(witness, case_class=cls)
        cls = _family(keycls or cls)
        w = dict(witness, cls=cls, slot=slot, route=route, outcome={k: o.get(k) for k in ("status", "error", "batches", "cursor", "new_inv", "deser", "opens", "rpc_error_header", "escaped", "raw")})
        if "escaped" in o:
            chk.violation(f"exception_escaped_wsgi:{cls}:{slot}", "a presented token made an exception escape the WSGI app", w)
            return
        if _served(o) or o["cursor"] or o["batches"]:
            chk.violation(f"served:{cls}:{slot}", f"a {cls} {slot} token was served instead of rejected", w)
        elif o["status"] != 400:
            chk.violation(f"not_400:{cls}:{slot}:status{o['status']}", f"rejection of a {cls} {slot} token is not an HTTP 400", w)
        else:
            chk.hit("reject_400")
        if o["new_inv"]:
            chk.violation(f"hook_before_reject:{cls}:{slot}", "a user hook ran for a presentation that had to be rejected", w)
        else:
            chk.hit("no_hook_on_reject")
        bad = [k for k, v in o["deser"].items() if v]
        if bad:
            chk.violation(f"state_deserialized_before_reject:{cls}:{slot}", "state was deserialised for a presentation that had to be rejected", w)
        else:
            chk.hit("no_deser_on_reject")
        # per-token observation: the opener of a token that is itself bad must not succeed
        for which in ("cursor", "call"):
            if slot in (which, "both") and not cls.startswith("cross_stream"):  # a cross-stream token is authentic by itself
                if o.get("opens", {}).get(which):
                    chk.violation(f"bad_{which}_token_opened:{cls}", f"the {which}-token opener accepted a {cls} token (request outcome aside)", w)
                else:
                    chk.hit(f"bad_{which}_token_not_opened")
        if o["status"] == 400 and o.get("error") is not None:
            t, m, _k = o["error"]
            self.msgs.setdefault(f"{t}: {m}", set()).add(f"{cls.split(':')[0]}/{slot}")

    def finish_uniformity(self) -> dict[str, list[str]]:
        return {m: sorted(c) for m, c in self.msgs.items()}


def _same(a: dict[str, Any], b: dict[str, Any]) -> bool:
    return a["status"] == b["status"] and a["error"] == b["error"] and a["batches"] == b["batches"] and a["cursor"] == b["cursor"] and a["new_inv"] == b["new_inv"]


# ---------------------------------------------------------------------------
# shard jobs
# ---------------------------------------------------------------------------


def _job_mutate(job: dict[str, Any], chk: Check, judge: Judge) -> None:
    from lib.models import tokenlab as tl

    rng = random.Random(job["seed"])
    lab = Lab()
    method, idx, stage, slot, cancel = job["method"], tl.ID_INDEX[job["id"]], job["stage"], job["slot"], job["cancel"]
    route = "cancel" if cancel else ROUTE_OF[method]
    cur, call = lab.harvest(method, idx, stage)
    base = lab.present(method, idx, cur, call, cancel=cancel)
    if not _served(base) or (not cancel and not base["batches"]) or (cancel and not any(e[0] == "cancel" for e in base["new_inv"])):
        chk.violation(f"valid_rejected:{route}", "an untouched token pair was not served", {"job": job, "outcome": base})
        return
    chk.hit("valid_accept")
    if base["deser"]["deser_state"]:
        chk.hit("deser_state_seen")
    if base["deser"]["deser_callstate"]:
        chk.hit("deser_callstate_seen")
    if base["deser"]["bind_call_state"]:
        chk.hit("bind_call_state_seen")
    if base["opens"]["cursor"]:
        chk.hit("cursor_opener_seen")
    if base["opens"]["call"]:
        chk.hit("call_opener_seen")
    # canaries: raw token bytes, the base64 text, and any zstd frame found near the start of the body
    for name, tok in (("cursor", cur), ("call", call)):
        raw = base64.b64decode(tok)
        views = [raw, tok] + _zstd_views(raw)
        chk.hit("canary_views", len(views))
        for can in (CANARY_M, CANARY_PAYLOAD):
            chk.hit("canary_checked")
            forms = (can.encode(), can.encode("utf-16-le"), base64.b64encode(can.encode()).rstrip(b"=")[:-2])
            if any(f in v for f in forms for v in views):
                chk.violation(f"canary_in_token:{name}", "state plaintext is recoverable from token bytes without the key", {"job": job, "canary": can})
    targets = {"cursor": cur, "call": call}
    slots = ["cursor", "call"] if slot == "both" else [slot]
    for sl in slots:
        orig = targets[sl]
        sealed = base64.b64decode(orig)

        def pres(tok: bytes) -> dict[str, Any]:
            return lab.present(method, idx, tok if sl == "cursor" else cur, tok if sl == "call" else call, cancel=cancel)

        n = 0
        for cls, raw in tl.raw_mutations(sealed, rng, exhaustive=job["exhaustive"], budget=job.get("budget", 200)):
            if raw == sealed:
                continue
            n += 1
            judge.must_reject(pres(base64.b64encode(raw)), cls, sl, route, {"job": job, "mutated_b64": base64.b64encode(raw).decode()[:120]})
        chk.hit("raw_mutations", n)
        if job.get("text", True):
            for cls, text in tl.text_mutations(orig, rng, exhaustive=job["exhaustive"], budget=job.get("budget", 200)):
                if text == orig:
                    continue
                o = pres(text)
                if tl.equivalent_encoding(text, sealed):
                    chk.case(f"equiv:{cls}|{sl}|{route}")
                    if _served(o):
                        chk.hit("equivalent_encoding_accepted")
                        if not _same(o, base):
                            chk.violation(f"equivalent_encoding_diverges:{_family(cls)}:{sl}", "an accepted re-encoding behaved differently from the original token", {"job": job, "text": text[:120].decode(errors="replace"), "outcome": o, "baseline": base})
                    else:
                        chk.hit("equivalent_encoding_rejected")
                        if o["new_inv"] or any(o["deser"].values()) or o["status"] != 400:
                            judge.must_reject(o, "equiv_" + cls, sl, route, {"job": job, "text": text[:120].decode(errors="replace")})
                else:
                    judge.must_reject(o, cls, sl, route, {"job": job, "text": text[:120].decode(errors="replace")})
            chk.hit("text_mutations")
    if slot == "both":
        # both slots damaged at once
        for _ in range(40):
            a = bytearray(base64.b64decode(cur))
            b = bytearray(base64.b64decode(call))
            a[rng.randrange(len(a))] ^= 1 << rng.randrange(8)
            b[rng.randrange(len(b))] ^= 1 << rng.randrange(8)
            judge.must_reject(lab.present(method, idx, base64.b64encode(bytes(a)), base64.b64encode(bytes(b)), cancel=cancel), "bitflip:both_tokens", "both", route, {"job": job})
    after = lab.present(method, idx, cur, call, cancel=cancel)
    if not _same(after, base):
        chk.violation(f"valid_rejected_after_mutations:{route}", "the untouched pair no longer behaves as before the mutation run", {"job": job, "before": base, "after": after})
    chk.sample({"job": {k: job[k] for k in ("method", "id", "stage", "slot", "cancel")}, "cursor_len": len(cur), "call_len": len(call), "baseline": {k: base[k] for k in ("status", "batches", "new_inv")}})


def _job_identity(job: dict[str, Any], chk: Check, judge: Judge) -> None:
    from lib.models import tokenlab as tl

    lab = Lab()
    ids = [tl.ID_INDEX[x] for x in job["ids"]]
    for method, cancel in job["routes"]:
        route = "cancel" if cancel else ROUTE_OF[method]
        for i in ids:
            cur, call = lab.harvest(method, i, job["stage"])
            for j in ids:
                rel = tl.same_identity(i, j)
                o = lab.present(method, j, cur, call, cancel=cancel)
                pair = f"{tl.IDENTITIES[i][0]}->{tl.IDENTITIES[j][0]}"
                if rel is None:
                    chk.skip("identity pair differs only by None vs '' (statement silent)")
                    chk.extra.setdefault("none_vs_empty_outcomes", {})[pair] = o["status"]
                    continue
                if rel:
                    chk.case(f"same_identity|{route}")
                    if _served(o):
                        chk.hit("same_identity_accept")
                    else:
                        chk.violation(f"same_identity_rejected:{route}", "a token pair was rejected under the identity that minted it", {"pair": pair, "outcome": o})
                    if route in ("producer_cs",) and not cancel:
                        # call state seen by process() must be the owner's
                        pass
                    continue
                chk.hit("cross_identity_presented")
                rk = tl.pair_relation(i, j)
                judge.must_reject(o, f"cross_identity:{pair}", "both", route, {"pair": pair}, keycls=f"cross_identity:{rk}")
                # mixed: own cursor + foreign call, foreign cursor + own call
                cur_j, call_j = lab.harvest(method, j, job["stage"])
                judge.must_reject(lab.present(method, j, cur_j, call, cancel=cancel), f"cross_identity_call_only:{pair}", "call", route, {"pair": pair}, keycls=f"cross_identity_call_only:{rk}")
                judge.must_reject(lab.present(method, j, cur, call_j, cancel=cancel), f"cross_identity_cursor_only:{pair}", "cursor", route, {"pair": pair}, keycls=f"cross_identity_cursor_only:{rk}")


def _job_swap(job: dict[str, Any], chk: Check, judge: Judge) -> None:
    from lib.models import tokenlab as tl

    lab = Lab()
    for method, cancel in job["routes"]:
        route = "cancel" if cancel else ROUTE_OF[method]
        for idl in job["ids"]:
            i = tl.ID_INDEX[idl]
            cur_a, call_a = lab.harvest(method, i, 0)
            cur_a1, _ = lab.harvest(method, i, 0)[0], None
            cur_b, call_b = lab.harvest(method, i, 1)
            w = {"method": method, "id": idl}
            judge.must_reject(lab.present(method, i, call_a, cur_a, cancel=cancel), "swap:cursor_and_call_exchanged", "both", route, w)
            judge.must_reject(lab.present(method, i, call_a, call_a, cancel=cancel), "swap:call_in_cursor_slot", "cursor", route, w)
            judge.must_reject(lab.present(method, i, cur_a, cur_a, cancel=cancel), "swap:cursor_in_call_slot", "call", route, w)
            judge.must_reject(lab.present(method, i, cur_a, call_b, cancel=cancel), "cross_stream:same_method_other_call", "call", route, w)
            judge.must_reject(lab.present(method, i, cur_b, call_a, cancel=cancel), "cross_stream:same_method_other_cursor", "cursor", route, w)
            del cur_a1
            # call tokens of another method's stream (cursor stays native): cross-stream, call slot
            for other in (P, X, C):
                if other == method:
                    continue
                _cur_o, call_o = lab.harvest(other, i, 0)
                judge.must_reject(lab.present(method, i, cur_a, call_o, cancel=cancel), "cross_stream:other_method_call", "call", route, dict(w, other=other))
            # positive control: an older cursor of the same stream is still this stream's token
            o = lab.present(method, i, cur_a, call_a, cancel=cancel)
            chk.case(f"control_same_stream|{route}")
            if _served(o):
                chk.hit("valid_accept")
            else:
                chk.violation(f"valid_rejected:{route}", "an untouched token pair was not served", {"w": w, "outcome": o})


def _key_of(spec: list[Any]) -> bytes:
    kind, n = spec[0], spec[1]
    if kind == "rep":
        return b"K" * n
    if kind == "zero":
        return b"\x00" * n
    if kind == "rand":
        return random.Random(f"c12key{n}:{spec[2]}").randbytes(n)
    if kind == "sha":
        return hashlib.sha256(_key_of(spec[2])).digest()
    raise AssertionError(spec)


def _job_keys(job: dict[str, Any], chk: Check, judge: Judge) -> None:
    from lib.models import tokenlab as tl

    labs: dict[str, Lab] = {}
    refused: dict[str, str] = {}
    built_lens: set[int] = set()

    def lab_for(spec: list[Any]) -> Lab | None:
        k = repr(spec)
        if k in refused:
            return None
        if k not in labs:
            try:
                labs[k] = Lab(key=_key_of(spec))
                built_lens.add(len(_key_of(spec)))
            except Exception as exc:  # noqa: BLE001 - make_wsgi_app may refuse a key length
                refused[k] = repr(exc)[:120]
                return None
        return labs[k]

    idx = tl.ID_INDEX["d_alice"]
    for pair in job["pairs"]:
        a, b, rel = pair
        la, lb = lab_for(a), lab_for(b)
        if la is None or lb is None:
            chk.skip("make_wsgi_app refused the key length")
            continue
        for method in job["methods"]:
            cur, call = la.harvest(method, idx, 0)
            own = la.present(method, idx, cur, call)
            chk.case(f"own_key|len{len(_key_of(a))}")
            if _served(own):
                chk.hit("own_key_accept")
            else:
                chk.violation("valid_rejected:own_key", "tokens rejected by the server that minted them", {"key": a, "outcome": own})
            if _key_of(a) == _key_of(b):
                continue
            if rel == "sha256_of":
                o = la.present(method, idx, cur, call, app=lb.app)
                chk.skip("key K vs sha256(K): same AEAD key after the documented normalisation")
                chk.extra.setdefault("sha256_key_outcome", []).append(o["status"])
                continue
            # present A's tokens to B's app; B's impl must stay untouched
            inv0 = len(lb.impl.inv)
            o = la.present(method, idx, cur, call, app=lb.app)
            o["new_inv"] = [_inv_entry(e) for e in lb.impl.inv[inv0:]]
            chk.hit("foreign_key_presented")
            judge.must_reject(o, f"foreign_key:{rel}", "both", ROUTE_OF[method], {"minted_with": a, "presented_to": b})
            # one foreign-key token paired with a native one
            cur_b, call_b = lb.harvest(method, idx, 0)
            inv0 = len(lb.impl.inv)
            o = lb.present(method, idx, cur_b, call)
            judge.must_reject(o, f"foreign_key_call_only:{rel}", "call", ROUTE_OF[method], {"minted_with": a, "presented_to": b})
            o = lb.present(method, idx, cur, call_b)
            judge.must_reject(o, f"foreign_key_cursor_only:{rel}", "cursor", ROUTE_OF[method], {"minted_with": a, "presented_to": b})
    chk.extra["key_lengths_built"] = sorted(built_lens)
    if refused:
        chk.extra["key_lengths_refused"] = refused


def _job_clock(job: dict[str, Any], chk: Check, judge: Judge) -> None:
    from lib.models import tokenlab as tl

    clock = tl.Clock(1_700_000_000.0 + job.get("frac", 0.0))
    tl.install_clock(clock)
    idx = tl.ID_INDEX[job["id"]]
    for ttl in job["ttls"]:
        lab = Lab(ttl=ttl)
        for method, cancel in job["routes"]:
            route = "cancel" if cancel else ROUTE_OF[method]
            t0 = clock.now
            cur, call = lab.harvest(method, idx, 0)
            for off, expect in ((0, "accept"), (ttl - 1, "accept"), (ttl, "boundary"), (ttl + 1, "reject"), (ttl + 2, "reject"), (10 * ttl + 7, "reject"), (2**33, "reject")):
                if off < 0:
                    continue
                clock.now = t0 + off
                o = lab.present(method, idx, cur, call, cancel=cancel)
                if expect == "boundary":
                    chk.skip("age == TTL exactly: 'within the TTL' does not fix the boundary")
                    chk.extra.setdefault("at_exact_ttl", {})[f"{route}/ttl{ttl}"] = o["status"]
                elif expect == "accept":
                    chk.case(f"clock:age<=ttl-1|both|{route}")
                    if _served(o):
                        chk.hit("unexpired_accept")
                    else:
                        chk.violation(f"unexpired_rejected:{route}", "a token pair younger than the TTL was rejected", {"ttl": ttl, "age": off, "outcome": o})
                else:
                    chk.hit("expired_presented")
                    judge.must_reject(o, "expired:age>=ttl+1", "both", route, {"ttl": ttl, "age": off})
            # fresh cursor, old call token: init at t0', continue at t0'+ttl-1, present at t0'+ttl+1
            clock.now = t0 + 20 * ttl + 100
            t1 = clock.now
            cur0, call1 = lab.harvest(method, idx, 0)
            if ttl >= 2:
                clock.now = t1 + ttl - 1
                r = tl.exchange(lab.app, method, idx, tl.cont_body(IN_COLS[method], cur0, call1))
                cur1, _ = tl.tokens_of(r)
                if cur1 is None:
                    chk.violation(f"unexpired_rejected:{route}", "continuation at age TTL-1 failed", {"ttl": ttl, "outcome": tl.outcome(r)})
                else:
                    clock.now = t1 + ttl + 1
                    o = lab.present(method, idx, cur1, call1, cancel=cancel)
                    chk.hit("expired_presented")
                    judge.must_reject(o, "expired:call_token_only(cursor fresh)", "call", route, {"ttl": ttl})
                    o = lab.present(method, idx, cur0, call1, cancel=cancel)
                    judge.must_reject(o, "expired:age>=ttl+1", "both", route, {"ttl": ttl})
            clock.now = t1 + 40 * ttl + 1000
            # the same lifetime across two workers with call-state caches: /init on worker A, the continuation at
            # age TTL-1 on worker B (whose cache is filled by the miss path), the late presentations on both
            if ttl >= 2:
                t2 = clock.now
                lab_a, lab_b = Lab(ttl=ttl, cache=64), Lab(ttl=ttl, cache=64)
                cur0, call2 = lab_a.harvest(method, idx, 0)
                clock.now = t2 + ttl - 1
                r = tl.exchange(lab_b.app, method, idx, tl.cont_body(IN_COLS[method], cur0, call2))
                cur1, _ = tl.tokens_of(r)
                if cur1 is None:
                    chk.violation(f"unexpired_rejected:{route}:second_worker", "continuation at age TTL-1 on a second worker failed", {"ttl": ttl, "outcome": tl.outcome(r)})
                else:
                    chk.hit("second_worker_refill_turn")
                    for lab_x, wname in ((lab_b, "refilled_worker"), (lab_a, "init_worker")):
                        for off in (ttl + 1, 3 * ttl + 5):
                            clock.now = t2 + off
                            o = lab_x.present(method, idx, cur1, call2, cancel=cancel)
                            chk.hit("expired_presented")
                            judge.must_reject(o, f"expired:call_token_only(cursor fresh):{wname}", "call", route, {"ttl": ttl, "age": off, "worker": wname})
                clock.now = t2 + 40 * ttl + 1000
    if clock.reads:
        chk.hit("clock_shim_read", clock.reads)


def _job_warm(job: dict[str, Any], chk: Check, judge: Judge) -> None:
    """Default-sized call-state cache: the call slot is still a token the statement speaks about."""
    from lib.models import tokenlab as tl

    rng = random.Random(job["seed"])
    lab = Lab(cache=4096)
    for method, cancel in job["routes"]:
        route = "cancel" if cancel else ROUTE_OF[method]
        idx = tl.ID_INDEX[job["id"]]
        cur, call = lab.harvest(method, idx, 1)
        base = lab.present(method, idx, cur, call, cancel=cancel)
        if not _served(base):
            chk.violation(f"valid_rejected:{route}", "an untouched token pair was not served (warm cache)", {"outcome": base})
            continue
        chk.hit("valid_accept")
        sealed = base64.b64decode(call)
        other_cur, other_call = lab.harvest(method, idx, 0)
        variants: list[tuple[str, bytes]] = [(c, base64.b64encode(r)) for c, r in tl.raw_mutations(sealed, rng, exhaustive=False, budget=job["budget"])]
        variants += [("cross_stream:same_method_other_call", other_call), ("swap:cursor_in_call_slot", cur), ("garbage:text", b"not a token")]
        for cls, tok in variants:
            o = lab.present(method, idx, cur, tok, cancel=cancel)
            chk.case(f"warm_cache:{cls}|call|{route}")
            chk.hit("warm_cache_call_slot_presented")
            if _served(o):
                chk.violation(
                    "call_token_unchecked_on_cache_hit",
                    "with the call-state cache warm a modified / foreign-stream call token is served (the call token is not opened on a cache hit)",
                    {"route": route, "cls": cls, "outcome": {k: o[k] for k in ("status", "batches", "new_inv")}, "same_as_untouched": _same(o, base)},
                )
            else:
                judge.must_reject(o, cls, "call", route + "+warm", {"warm": True})
        # the cursor slot must be checked regardless of the cache
        csealed = base64.b64decode(cur)
        for cls, raw in tl.raw_mutations(csealed, rng, exhaustive=False, budget=job["budget"]):
            judge.must_reject(lab.present(method, idx, base64.b64encode(raw), call, cancel=cancel), cls, "cursor", route + "+warm", {"warm": True})
        # cross identity with a warm cache
        for jl in ("anon", "d_bob", "empty_dom_anonymous"):
            j = tl.ID_INDEX[jl]
            if j == idx:
                continue
            judge.must_reject(lab.present(method, j, cur, call, cancel=cancel), f"cross_identity:{job['id']}->{jl}", "both", route + "+warm", {"warm": True}, keycls=f"cross_identity:{tl.pair_relation(idx, j)}")
        del other_cur


JOBS = {"mutate": _job_mutate, "identity": _job_identity, "swap": _job_swap, "keys": _job_keys, "clock": _job_clock, "warm": _job_warm}


def run_shard(job: dict[str, Any]) -> dict[str, Any]:
    chk = Check(PID, job.get("tier", "quick"), job.get("seed", 0), level=CATEGORY, rule=RULE)
    judge = Judge(chk)
    try:
        JOBS[job["kind"]](job, chk, judge)
    except Exception as exc:  # noqa: BLE001
        import traceback

        chk.inconclusive_because(f"shard {job['kind']} crashed: {exc!r} {traceback.format_exc()[-600:]}")
    res = chk.to_result()
    res["msgs"] = judge.finish_uniformity()
    res["extra_any"] = {k: v for k, v in chk.extra.items() if not isinstance(v, (int, float))}
    return res


# ---------------------------------------------------------------------------
# main
# ---------------------------------------------------------------------------


def _plan(tier: str, seed: int) -> list[dict[str, Any]]:
    from lib.models import tokenlab as tl

    rng = random.Random(f"C12plan:{seed}")
    jobs: list[dict[str, Any]] = []
    combos = []
    ids = [lab for lab, *_r in tl.IDENTITIES]
    for method in (P, X, C):
        for cancel in (False, True):
            for stage in (0, 1, 2, 3):
                for slot in ("cursor", "call", "both"):
                    combos.append((method, cancel, stage, slot))
    rng.shuffle(combos)
    # guaranteed spread first, then seeded extras
    fixed = [(P, False, 0, "cursor"), (X, False, 1, "call"), (C, False, 1, "both"), (C, True, 0, "cursor"), (X, True, 0, "call"), (P, False, 2, "call")]
    nsamples = 20 if tier == "quick" else 120
    chosen = fixed + [c for c in combos if c not in fixed][: nsamples - len(fixed)]
    for k, (method, cancel, stage, slot) in enumerate(chosen):
        jobs.append({"kind": "mutate", "method": method, "cancel": cancel, "stage": stage, "slot": slot, "id": ids[(k * 5 + seed) % len(ids)] if k >= 3 else ["d_alice", "anon", "a_bNULc"][k], "exhaustive": True, "text": True, "seed": seed * 1000 + k, "tier": tier})
    routes = [(P, False), (X, False), (C, False), (P, True), (X, True), (C, True)]
    idset = tl.QUICK_IDS if tier == "quick" else ids
    for rt in routes:
        for stage in ((0,) if tier == "quick" else (0, 2)):
            jobs.append({"kind": "identity", "ids": idset, "routes": [rt], "stage": stage, "seed": seed, "tier": tier})
    jobs.append({"kind": "swap", "routes": routes, "ids": ["anon", "d_alice", "a_bNULc"] if tier == "quick" else ids[:10], "seed": seed, "tier": tier})
    # keys: every length 0..64 as minting server; partner lengths chosen to stress padding / truncation / hashing
    pairs: list[list[Any]] = []
    for n in range(0, 65):
        a = ["rep", n]
        partners = {n - 1, n + 1, 0, 31, 32, 33, 64} if tier == "quick" else set(range(0, 65))
        for m in sorted(partners):
            if 0 <= m <= 64 and m != n:
                pairs.append([a, ["rep", m], "prefix_related_len"])
        pairs.append([a, ["rand", n, 1], "same_len_other_bytes"])
        pairs.append([["rand", n, 1], ["rand", n, 2], "same_len_other_bytes"])
        pairs.append([a, ["sha", 32, a], "sha256_of"])
    pairs += [[["zero", 0], ["zero", 1], "empty_vs_nul"], [["zero", 32], ["zero", 0], "zeros_vs_empty"], [["zero", 32], ["zero", 33], "zero_extended"], [["zero", 16], ["zero", 32], "zero_extended"]]
    rng.shuffle(pairs)
    nk = 4 if tier == "quick" else 12
    for part in shard.split(pairs, nk):
        jobs.append({"kind": "keys", "pairs": part, "methods": [P] if tier == "quick" else [P, C], "seed": seed, "tier": tier})
    for k, ttls in enumerate([[1, 2, 60], [3600, 7]] if tier == "quick" else [[1, 2], [3, 60], [3600, 86400], [7, 1000003]]):
        jobs.append({"kind": "clock", "ttls": ttls, "routes": routes, "id": ["d_alice", "anon", "a_bNULc", "d_nfc"][k % 4], "seed": seed, "tier": tier})
    for k, rt in enumerate(routes if tier == "thorough" else [routes[0], routes[2], routes[4]]):
        jobs.append({"kind": "warm", "routes": [rt], "id": ["d_alice", "anon", "ab_c"][k % 3], "budget": 60 if tier == "quick" else 400, "seed": seed + k, "tier": tier})
    return jobs


def main(tier: str, seed: int) -> int:
    chk = Check(PID, tier, seed, level=CATEGORY, rule=RULE)
    chk.require(
        "valid_accept",
        "reject_400",
        "no_hook_on_reject",
        "no_deser_on_reject",
        "deser_state_seen",
        "deser_callstate_seen",
        "bind_call_state_seen",
        "cursor_opener_seen",
        "call_opener_seen",
        "bad_cursor_token_not_opened",
        "bad_call_token_not_opened",
        "raw_mutations",
        "text_mutations",
        "canary_checked",
        "cross_identity_presented",
        "same_identity_accept",
        "foreign_key_presented",
        "own_key_accept",
        "expired_presented",
        "unexpired_accept",
        "clock_shim_read",
        "warm_cache_call_slot_presented",
    )
    chk.assumptions += [
        "PyCryptodome XChaCha20-Poly1305 trusted; pynacl backend absent in this environment",
        "logical clock substituted for the module-level `time` of _state_token and _app_stream (clock shards only)",
        "'equivalent encoding' = a lenient stdlib base64 reading of the presented text yields exactly the original sealed bytes",
        "K vs sha256(K) and None-vs-'' identity pairs are recorded, not judged",
    ]
    jobs = _plan(tier, seed)
    results = shard.pmap("checks.c12", "run_shard", jobs, timeout=900.0)
    msgs: dict[str, set[str]] = {}
    for res in results:
        chk.merge(res)
        for m, causes in res.get("msgs", {}).items():
            msgs.setdefault(m, set()).update(causes)
        for k, v in res.get("extra_any", {}).items():
            cur = chk.extra.get(k)
            if isinstance(v, dict):
                chk.extra.setdefault(k, {}).update(v)
            elif isinstance(v, list):
                chk.extra[k] = sorted(set((cur or []) + v), key=lambda x: (not isinstance(x, int), x if isinstance(x, int) else repr(x)))
    chk.extra["rejection_bodies"] = {m: sorted(c) for m, c in sorted(msgs.items())}
    chk.extra["jobs"] = {k: sum(1 for j in jobs if j["kind"] == k) for k in JOBS}
    if msgs:
        chk.hit("rejection_bodies_compared", len(msgs))
        chk.case("uniformity|all_rejections")
        if len(msgs) > 1:
            chk.violation(
                "rejection_detail_reveals_failed_check",
                "400 rejection bodies differ by cause (which token / which check failed is readable from the error message)",
                {"distinct_bodies": {m: sorted(c) for m, c in sorted(msgs.items())}},
            )
    chk.require("rejection_bodies_compared")
    chk.exhaustive["bit_flips_truncations_per_sampled_token"] = True
    chk.exhaustive["token_population"] = False
    chk.exhaustive["identity_pairs_of_table"] = True
    chk.exhaustive["key_lengths_0_64_as_minter"] = True
    return chk.finish()

"""C02 - parameter and result values round-trip exactly, over every transport.

Generated echo services (lib.svcgen) whose parameter / return annotations are drawn
from the supported-type grammar (lib.tygen) are called through the *real* typed client
over pipe, shm-pipe, unix socket, tcp, HTTP (in-process WSGI) and a worker subprocess.
Two observation points are judged with the identity oracle:

* the value returned by the echo method (type-aware equality: NaN == NaN, -0.0 != 0.0,
  enum identity, bool is not int, container equality);
* the kwargs the implementation received (server invocation log), defaults filled in.

float64 -> float32 narrowing to the nearest float32 is the declared semantics of a
float32 column; a finite input that overflows to +-inf is recorded, not judged.
Values the declared Arrow type cannot hold (int overflow, negatives into unsigned, lone
surrogates, decimals beyond precision / scale) must end in an exception at the client or
an RpcError - never in a returned value, and never in a *different* value reaching the
implementation.
"""

from __future__ import annotations

import os
import random
import threading
from typing import Any

from lib import shard
from lib.evidence import Check

PID = "C02"
ENGINE = "E1-svcgen-rig"
TECHNIQUE = "identity oracle on echo results and on server-side received kwargs, differential over transports"
LEVEL_TEXT = (
    "Exploration: generated echo signatures (1-4 parameters, with/without defaults, optional positions) over "
    "the supported annotation grammar were called with boundary-biased values through the real client over pipe, "
    "shm-pipe, unix, tcp, HTTP and a worker subprocess; every returned value and every kwargs dict received by the "
    "implementation was compared with the argument by a type-aware equality. Held means no counterexample among "
    "the calls listed in the evidence."
)
LEVEL_NOTE = (
    "pyarrow conversion of python scalars is part of the system under test; float32 overflow to inf and shapes the "
    "statement does not promise (lists of enums) are recorded, not judged"
)
CATEGORY = "exploration"
RULE = (
    "case = (transport, echo signature, argument tuple); signatures from tygen.gen_spec to container depth 2, values "
    "boundary-biased (int extremes per width, NaN, +-0.0, +-inf, empty / non-ASCII / NUL strings, empty containers, "
    "None in optional slots, enum members whose value differs from the name, float64 values that are not float32); "
    "distinct class = (transport, type shape of the echoed parameter, default used?, direction)"
)

SESSION_TIMEOUT = 120.0


# ---------------------------------------------------------------------------
# spec helpers
# ---------------------------------------------------------------------------


def _leaf(spec: tuple[Any, ...]) -> str:
    k = spec[0]
    if k == "arrow":
        n = spec[1]
        if n.startswith(("int", "uint")):
            return "arrow-int"
        if n == "float32":
            return "float32"
        if n.startswith("decimal"):
            return "decimal"
        if n.startswith("large"):
            return n
        return "temporal"
    if k == "dc":
        return "dc"
    return str(k)


def kshape(spec: tuple[Any, ...]) -> str:
    """Coarse shape used in classes and mechanism keys."""
    k = spec[0]
    if k in ("opt", "list", "set"):
        return f"{k}<{kshape(spec[1])}>"
    if k == "dict":
        return f"dict<{kshape(spec[1])},{kshape(spec[2])}>"
    return _leaf(spec)


def promised(spec: tuple[Any, ...]) -> bool:
    """Is this shape inside the statement ("lists, maps and sets of scalars", optionals, enums, dataclasses, ...)?"""
    k = spec[0]
    if k == "opt":
        return promised(spec[1])
    if k in ("list", "set"):
        return spec[1][0] in ("int", "float", "str", "bytes", "bool", "arrow")
    if k == "dict":
        return all(s[0] in ("int", "float", "str", "bytes", "bool", "arrow") for s in spec[1:3])
    return True


def expect(spec: tuple[Any, ...], v: Any) -> tuple[Any, bool]:
    """Expected round-trip image of *v* under *spec* and whether it is judged (float32 narrowing)."""
    import math

    from lib import tygen

    k = spec[0]
    if v is None:
        return None, True
    if k == "arrow" and spec[1] == "float32":
        n = tygen.f32(v)
        if math.isinf(n) and not math.isinf(v):
            return n, False
        return n, True
    if k == "opt":
        return expect(spec[1], v)
    if k == "list":
        out = [expect(spec[1], x) for x in v]
        return [o[0] for o in out], all(o[1] for o in out)
    if k == "set":
        out = [expect(spec[1], x) for x in v]
        return frozenset(o[0] for o in out), all(o[1] for o in out)
    if k == "dict":
        judged = True
        d: dict[Any, Any] = {}
        for kk, vv in v.items():
            ek, j1 = expect(spec[1], kk)
            ev, j2 = expect(spec[2], vv)
            judged = judged and j1 and j2
            d[ek] = ev
        return d, judged
    return v, True


_F32_EXTRA = [0.1, 1.0 / 3.0, 1e-50, 16777217.0, -2.000000000001, 6.02e23, 1e39, -1e300]


def gen_value(spec: tuple[Any, ...], rng: random.Random) -> Any:
    """tygen.gen_value plus float64 inputs for float32 slots."""
    from lib import tygen

    if spec == ("arrow", "float32") and rng.random() < 0.5:
        return rng.choice(_F32_EXTRA)
    if spec[0] == "opt" and spec[1] == ("arrow", "float32") and rng.random() < 0.4:
        return rng.choice(_F32_EXTRA)
    if spec[0] == "list" and spec[1] == ("arrow", "float32"):
        return [rng.choice([*_F32_EXTRA, 0.5, -0.0]) for _ in range(rng.choice([0, 1, 3]))]
    if spec[0] == "dict" and spec[2] == ("arrow", "float32"):
        return {tygen.gen_value(spec[1], rng): rng.choice([*_F32_EXTRA, 2.5]) for _ in range(rng.choice([0, 1, 3]))}
    return tygen.gen_value(spec, rng)


def gen_unrepresentable(spec: tuple[Any, ...], rng: random.Random) -> Any | None:
    """A value of the right python type that the declared Arrow type cannot hold (None when there is none)."""
    import decimal

    from lib import tygen

    k = spec[0]
    if k == "arrow" and spec[1] == "decimal_10_2":
        return rng.choice([decimal.Decimal("123456789012.34"), decimal.Decimal("1.234"), decimal.Decimal("-0.005")])
    if k == "arrow" and spec[1] == "large_string":
        return "big\udfffsurrogate"
    v = tygen.gen_unrepresentable(spec, rng)
    if v is not None:
        return v
    if k == "opt":
        return gen_unrepresentable(spec[1], rng)
    if k == "list":
        inner = gen_unrepresentable(spec[1], rng)
        if inner is None:
            return None
        good = [tygen.gen_value(spec[1], rng) for _ in range(rng.choice([0, 1, 2]))]
        pos = rng.randint(0, len(good))
        return good[:pos] + [inner] + good[pos:]
    if k == "set":
        inner = gen_unrepresentable(spec[1], rng)
        if inner is None:
            return None
        return frozenset([inner, *[tygen.gen_value(spec[1], rng) for _ in range(rng.choice([0, 2]))]])
    if k == "dict":
        ik = gen_unrepresentable(spec[1], rng)
        iv = gen_unrepresentable(spec[2], rng)
        if iv is not None and (ik is None or rng.random() < 0.5):
            return {tygen.gen_value(spec[1], rng): iv}
        if ik is not None:
            return {ik: tygen.gen_value(spec[2], rng)}
    return None


# ---------------------------------------------------------------------------
# program generation
# ---------------------------------------------------------------------------


def gen_program(rng: random.Random, idx: int, nmethods: int, ncalls: int) -> tuple[dict[str, Any], list[dict[str, Any]]]:
    from lib import tygen

    methods: list[dict[str, Any]] = []
    calls: list[dict[str, Any]] = []
    for mi in range(nmethods):
        nparams = rng.choice([1, 1, 2, 3, 4])
        params: list[tuple[Any, ...]] = []
        for j in range(nparams):
            spec = tygen.gen_spec(rng, 2)
            if rng.random() < 0.3:
                params.append((f"p{j}", spec, True, gen_value(spec, rng)))
            else:
                params.append((f"p{j}", spec))
        params.sort(key=lambda p: len(p) > 2)
        echo = rng.choice(params)
        name = f"e{idx}_{mi}"
        methods.append(
            {"name": name, "kind": "unary", "params": params, "ret": echo[1], "u": {"logs": [], "act": ("echo", echo[0])}}
        )
        for _ in range(ncalls):
            args: dict[str, Any] = {}
            for p in params:
                if len(p) > 2 and rng.random() < 0.5:
                    continue
                args[p[0]] = gen_value(p[1], rng)
            calls.append({"m": name, "args": args, "kind": "valid"})
        # unrepresentable values: one call per parameter that has one
        for p in params:
            bad = gen_unrepresentable(p[1], rng)
            if bad is None:
                continue
            args = {q[0]: gen_value(q[1], rng) for q in params}
            args[p[0]] = bad
            calls.append({"m": name, "args": args, "kind": "unrep", "p": p[0]})
    # one method returning a value its declared return type cannot hold (HTTP leg only)
    rspec = rng.choice(
        [("arrow", "int8"), ("arrow", "uint8"), ("arrow", "uint64"), ("int",), ("arrow", "decimal_10_2"), ("str",), ("arrow", "int32")]
    )
    bad = gen_unrepresentable(rspec, rng)
    rname = f"r{idx}"
    methods.append({"name": rname, "kind": "unary", "params": [], "ret": rspec, "u": {"logs": [], "act": ("return", bad)}})
    calls.append({"m": rname, "args": {}, "kind": "unrep_return", "value": bad})
    return {"name": f"Echo{idx}", "methods": methods}, calls


# ---------------------------------------------------------------------------
# one transport session with a watchdog
# ---------------------------------------------------------------------------


def run_session(program: dict[str, Any], cfg: dict[str, Any], calls: list[dict[str, Any]]) -> dict[str, Any]:
    from lib import rig
    from vgi_rpc.rpc import RpcError

    out: dict[str, Any] = {"results": [], "impl": None, "done": False, "err": None}

    def work() -> None:
        try:
            with rig.open_transport(program, cfg, None) as (proxy, impl):
                out["impl"] = impl
                for c in calls:
                    n0 = len(impl.inv) if impl is not None else 0
                    try:
                        r = getattr(proxy, c["m"])(**c["args"])
                        res: tuple[Any, ...] = ("ok", r)
                    except RpcError as e:
                        res = ("rpcerror", e.error_type, (e.error_message or "")[:200])
                    except Exception as e:  # noqa: BLE001 - every client-side rejection is an observation
                        res = ("exc", type(e).__name__, str(e)[:200])
                    inv = list(impl.inv[n0:]) if impl is not None else None
                    out["results"].append((res, inv))
        except BaseException as e:  # noqa: BLE001
            out["err"] = e
        out["done"] = True

    th = threading.Thread(target=work, daemon=True)
    th.start()
    th.join(SESSION_TIMEOUT)
    return out


def run_shard(job: dict[str, Any]) -> dict[str, Any]:
    os.environ["VGI_RPC_SHM_MIN_BATCH_BYTES"] = "1"
    import warnings

    warnings.filterwarnings("ignore")

    from lib import tygen
    from vgi_rpc.rpc import _wire

    chk = Check(PID, job["tier"], job["seed"])
    rng = random.Random(job["seed"])

    # monitor: how many batches actually travelled through the shared-memory side channel
    orig_shm = _wire.maybe_write_to_shm

    def counting_shm(batch: Any, cm: Any, shm: Any) -> Any:
        res = orig_shm(batch, cm, shm)
        if shm is not None and res[0] is not batch:
            chk.hit("shm_pointer_batches")
        return res

    _wire.maybe_write_to_shm = counting_shm

    for pi in range(job["programs"]):
        program, calls = gen_program(rng, job["base"] + pi, job["methods"], job["calls"])
        methods = {m["name"]: m for m in program["methods"]}
        transports = list(job["transports"])
        if pi < job.get("subprocess_programs", 0):
            transports.append("subprocess")
        http_failed: set[int] = set()
        for kind in transports:
            cfg: dict[str, Any] = {"kind": kind}
            if kind == "shm":
                cfg["shm_size"] = 1 << 22
            if kind == "http":
                sess_calls = list(enumerate(calls))
            else:
                sess_calls = [(i, c) for i, c in enumerate(calls) if i not in http_failed and c["kind"] != "unrep_return"]
                chk.skip("socket_leg_skipped_after_http_error_or_return_leg", len(calls) - len(sess_calls))
            out = run_session(program, cfg, [c for _, c in sess_calls])
            if out["err"] is not None and not isinstance(out["err"], Exception):
                raise out["err"]
            if out["err"] is not None:
                chk.violation(
                    f"session_failed:{kind}:{type(out['err']).__name__}",
                    f"transport session raised outside a call: {str(out['err'])[:200]}",
                    {"program": program["name"], "source": getattr(out["impl"], "_source", None)},
                )
            chk.hit(f"transport:{kind}")
            for (ci, c), (res, inv) in zip(sess_calls, out["results"], strict=False):
                m = methods[c["m"]]
                judge(chk, kind, m, c, res, inv, tygen)
                if kind == "http" and res[0] != "ok":
                    http_failed.add(ci)
            if not out["done"] and out["err"] is None:
                hung = sess_calls[len(out["results"])][1] if len(out["results"]) < len(sess_calls) else None
                died = getattr(out["impl"], "_serve_died", None)
                if died is not None and hung is not None:
                    m = methods[hung["m"]]
                    echo = next(p for p in m["params"] if p[0] == m["u"]["act"][1]) if m["params"] else None
                    chk.violation(
                        f"server_died_on_call:{kshape(echo[1]) if echo else 'noparams'}:{type(died).__name__}",
                        f"serve thread died with {type(died).__name__}: {str(died)[:160]}; the client never got a reply",
                        {"transport": kind, "method": m["name"], "params": [(p[0], tygen.src(p[1])) for p in m["params"]], "args": hung["args"]},
                    )
                else:
                    chk.inconclusive_because(f"{kind} session watchdog fired without a dead serve thread")
    _wire.maybe_write_to_shm = orig_shm
    return chk.to_result()


def judge(chk: Check, kind: str, m: dict[str, Any], c: dict[str, Any], res: tuple[Any, ...], inv: Any, tygen: Any) -> None:
    sig = [(p[0], tygen.src(p[1]), (p[3] if len(p) > 2 else "<none>")) for p in m["params"]]
    wit = {"transport": kind, "method": m["name"], "params": sig, "ret": tygen.src(m["ret"]), "args": c["args"], "outcome": res}
    if c["kind"] == "unrep_return":
        chk.case(f"{kind}:unrep_return:{kshape(m['ret'])}")
        if res[0] == "ok":
            chk.violation(
                f"unrepresentable_return_delivered:{kshape(m['ret'])}",
                "a return value the declared result type cannot hold was delivered as a (different) value",
                {**wit, "returned": c["value"]},
            )
        else:
            chk.hit("unrepresentable_return_rejected")
        return
    ran = [e for e in (inv or []) if e[0] == "unary" and e[1] == m["name"]]
    if c["kind"] == "unrep":
        pspec = next(p[1] for p in m["params"] if p[0] == c["p"])
        chk.case(f"{kind}:unrep:{kshape(pspec)}")
        bad = c["args"][c["p"]]
        if res[0] == "ok":
            chk.violation(
                f"unrepresentable_accepted:{kshape(pspec)}",
                "a value the declared Arrow type cannot represent was accepted and the call returned a value",
                wit,
            )
        else:
            chk.hit("unrepresentable_rejected")
        for e in ran:
            if not tygen.veq(e[2].get(c["p"]), bad):
                chk.violation(
                    f"unrepresentable_changed_at_server:{kshape(pspec)}",
                    "the implementation was invoked with a value different from the unrepresentable argument",
                    {**wit, "server_kwargs": e[2]},
                )
        return

    # valid call
    echo_name = m["u"]["act"][1]
    full: dict[str, Any] = {}
    default_used = False
    for p in m["params"]:
        if p[0] in c["args"]:
            full[p[0]] = c["args"][p[0]]
        else:
            full[p[0]] = p[3]
            default_used = True
    espec = next(p[1] for p in m["params"] if p[0] == echo_name)
    cls = f"{kind}:{kshape(espec)}:{'default' if default_used else 'explicit'}"
    if not all(promised(p[1]) for p in m["params"]):
        chk.skip(f"shape_not_promised:{','.join(sorted({kshape(p[1]) for p in m['params'] if not promised(p[1])}))}:{res[0]}")
        return
    if default_used:
        chk.hit("default_filled")
    exp: dict[str, Any] = {}
    judged = True
    for p in m["params"]:
        exp[p[0]], j = expect(p[1], full[p[0]])
        judged = judged and j
        if p[1] == ("arrow", "float32") or (len(p[1]) > 1 and ("arrow", "float32") in p[1][1:]):
            if isinstance(full[p[0]], float) and not tygen.veq(exp[p[0]], full[p[0]]):
                chk.hit("float32_narrowing_judged")
    if not judged:
        chk.skip("float32_overflow_to_inf")
        return
    chk.case(cls + ":result")
    if res[0] != "ok":
        chk.violation(
            f"representable_value_refused:{kshape(espec)}",
            f"an echo call with representable arguments failed: {res[1]}: {str(res[2])[:120]}",
            wit,
        )
    else:
        chk.hit("echo_compared")
        if not tygen.veq(res[1], exp[echo_name]):
            chk.violation(
                f"echo_mismatch:{kshape(espec)}:result",
                "the echo result differs from the argument",
                {**wit, "expected": exp[echo_name], "got": res[1], "got_type": type(res[1]).__name__},
            )
    if inv is None:
        return
    if len(ran) != (1 if res[0] == "ok" else len(ran)):
        chk.violation(
            "echo_dispatch_count",
            f"the implementation ran {len(ran)} times for one successful call",
            wit,
        )
    for e in ran:
        chk.case(cls + ":kwargs")
        chk.hit("server_kwargs_compared")
        got = e[2]
        for p in m["params"]:
            if p[0] not in got or not tygen.veq(got[p[0]], exp[p[0]]):
                chk.violation(
                    f"echo_mismatch:{kshape(p[1])}:server_kwargs",
                    "the kwargs received by the implementation differ from the arguments",
                    {**wit, "param": p[0], "expected": exp[p[0]], "got": got.get(p[0], "<missing>"), "got_type": type(got.get(p[0])).__name__},
                )
        if set(got) != set(exp):
            chk.violation("echo_kwargs_names", "the implementation received a different parameter set", {**wit, "server_kwargs": got})
    if rng_sample(chk):
        chk.sample({"transport": kind, "params": sig, "args": c["args"], "result": res})


def rng_sample(chk: Check) -> bool:
    return chk.rng.random() < 0.01


def main(tier: str, seed: int) -> int:
    chk = Check(PID, tier, seed, level=CATEGORY, rule=RULE)
    chk.require(
        "echo_compared",
        "server_kwargs_compared",
        "unrepresentable_rejected",
        "unrepresentable_return_rejected",
        "float32_narrowing_judged",
        "default_filled",
        "shm_pointer_batches",
        "transport:http",
        "transport:pipe",
        "transport:shm",
        "transport:unix",
        "transport:subprocess",
    )
    chk.assumptions = [
        "float64 -> float32 narrowing to the nearest float32 is the declared semantics of a float32 column",
        "lists of enums are generated but only recorded (statement promises lists/maps/sets of scalars)",
        "VGI_RPC_SHM_MIN_BATCH_BYTES=1 in the shards so small batches take the shared-memory route",
        "a call that already failed on the HTTP leg is not repeated over sockets (a server-side write failure there "
        "ends the serve thread; that is C05's subject)",
    ]
    nsh = shard.ncpu()
    if tier == "quick":
        nshards, programs, methods, calls = max(nsh, 8), 8, 4, 6
        transports = ["http", "pipe", "shm", "unix"]
    else:
        nshards, programs, methods, calls = max(nsh * 3, 18), 30, 4, 8
        transports = ["http", "pipe", "shm", "unix", "tcp"]
        chk.require("transport:tcp")
    jobs = [
        {
            "tier": tier,
            "seed": seed * 100003 + i * 7919 + 1,
            "base": i * 1000,
            "programs": programs,
            "methods": methods,
            "calls": calls,
            "transports": transports,
            "subprocess_programs": 1 if (tier == "thorough" or i < 2) else 0,
        }
        for i in range(nshards)
    ]
    for res in shard.pmap("checks.c02", "run_shard", jobs, timeout=600 if tier == "quick" else 2400):
        chk.merge(res)
    chk.exhaustive["generated_signatures_and_values"] = False
    return chk.finish()


def replay(path: str) -> int:
    """Re-execute the recorded (tier, seed) and report whether the recorded mechanism key fires again.

    Generation is a pure function of the seed, so the witness case is regenerated exactly; 1 = fired again,
    2 = diverged (reported as inconclusive / flaky), never 0.
    """
    import json
    import os

    from lib import evidence

    with open(path) as fh:
        rec = json.load(fh)
    main(rec["tier"], int(rec["seed"]))
    with open(os.path.join(evidence.EVIDENCE_DIR, f"{PID}.json")) as fh:
        cov = json.load(fh)["coverage"]
    fired = rec["key"] in cov.get("unlisted_violation_keys", []) or rec["key"] in cov.get("known_findings_seen", [])
    print(f"REPLAY property={PID} key={rec['key']} {'fired again' if fired else 'DIVERGED (inconclusive)'}")
    return 1 if fired else 2
